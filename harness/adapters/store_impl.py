"""Real-code adapter for the `store` stream (C10): saves sets of signatures to real files under
<build>/tmp/<case> with the public savers of the sourmash package assembled from /repo's working tree,
reloads them with the public loaders, and prints one canonical observation per op line."""
import contextlib
import io
import json
import os
import re
import shutil
import sys
import tempfile
import zipfile

import sourmash
from sourmash import MinHash, SourmashSignature, sourmash_args
from sourmash.exceptions import IndexNotLoaded
from sourmash.index import StandaloneManifestIndex
from sourmash.index.sqlite_index import convert_hash_from, convert_hash_to
from sourmash.lca.lca_db import LCA_Database
from sourmash.logging import set_quiet
from sourmash.manifest import CollectionManifest
from sourmash.save_load import SaveSignaturesToLocation, _loader_functions
from sourmash.sbtmh import create_sbt_index

set_quiet(True)

HARNESS = os.path.dirname(os.path.dirname(os.path.abspath(__file__)))
BUILD = os.environ.get("VERIF_BUILD", os.path.join(os.path.dirname(HARNESS), ".build"))
TMPROOT = os.path.join(BUILD, "tmp")
MOLS = ["DNA", "protein", "dayhoff", "hp"]


def nm(i):
    return "" if i == 0 else f"s{i}"


def fnm(i):
    return "" if i == 0 else f"f{i}.fa"


def un_nm(s):
    if s == "" or s is None:
        return 0
    m = re.fullmatch(r"s(\d+)", s)
    return int(m.group(1)) if m else f"?{s}"


def un_fnm(s):
    if s == "" or s is None:
        return 0
    m = re.fullmatch(r"f(\d+)\.fa", s)
    return int(m.group(1)) if m else f"?{s}"


def exc_name(e):
    for cls in (FileNotFoundError, KeyError, NotImplementedError, ValueError):
        if isinstance(e, cls):
            return cls.__name__
    return "Exception" if type(e) is Exception else type(e).__name__


def show_member(name):
    """zip member / file name -> the model's rendering"""
    base = name.split("/")[-1]
    if base == "SOURMASH-MANIFEST.csv":
        return "MANIFEST"
    m = re.fullmatch(r"([0-9a-f]{32})(?:\.sig\.gz)?(?:_(\d+))?", base)          # zip / sbt leaf
    if m:
        return f"m{int(m.group(1), 16)}" + (f"_{m.group(2)}" if m.group(2) is not None else "")
    m = re.fullmatch(r"([0-9a-f]{32})(?:_(\d+))?\.sig\.gz", base)                # directory saver
    if m:
        return f"m{int(m.group(1), 16)}" + (f"_{m.group(2)}" if m.group(2) is not None else "")
    return f"?{name}"


def show_sig(ss, with_md5=True):
    mh = ss.minhash
    hs = mh.hashes
    keys = sorted(hs.keys())
    hh = ",".join(f"{k}:{hs[k]}" for k in keys)
    md5 = str(int(ss.md5sum(), 16)) if with_md5 else "-"
    return (f"{un_nm(ss.name)}/{un_fnm(ss.filename)}/{md5}/{mh.ksize}/{MOLS.index(mh.moltype)}/{mh.num}/"
            f"{mh.scaled}/{mh.seed}/{int(mh.track_abundance)}/{hh}")


class State:
    def __init__(self):
        self.sigs = {}
        self.kind = None
        self.path = None
        self.dir = None
        self.n = 0
        self.slots = {}
        self.cwd = None

    def reset(self):
        self.cleanup()
        self.sigs = {}
        self.kind = None
        self.path = None
        self.slots = {}
        self.cwd = None

    def workspace(self):
        """the command-line workspace of this case: <dir>/a/b<slot>/..., <dir>/mf/, <dir>/out/, <dir>/else/"""
        if not self.dir or not os.path.isdir(os.path.join(self.dir, "else")):
            self.fresh()
            for sub in ("a", "mf", "out", "else"):
                os.makedirs(os.path.join(self.dir, sub))
        return self.dir

    def cleanup(self):
        if self.dir and os.path.isdir(self.dir):
            shutil.rmtree(self.dir, ignore_errors=True)
        self.dir = None

    def fresh(self):
        """a fresh directory for a new collection"""
        self.cleanup()
        self.cwd = None
        self.slots = {}
        os.makedirs(TMPROOT, exist_ok=True)
        self.dir = tempfile.mkdtemp(prefix="c10_", dir=TMPROOT)
        return self.dir


def parse_sessions(s):
    out = []
    for part in s.split("|"):
        out.append([] if part == "-" else [int(x) for x in part.split(",")])
    return out


def run_sessions(S, path, sessions):
    refused = []
    for si, sess in enumerate(sessions):
        with SaveSignaturesToLocation(path) as save:
            for j, i in enumerate(sess):
                try:
                    save.add(S.sigs[i])
                except ValueError as e:
                    refused.append(f"{si}.{j}:{exc_name(e)}")
    return "ok refused=" + ",".join(refused)


def row_fields(row, loc):
    return "|".join(str(x) for x in (
        loc, int(row["md5"], 16), int(row["md5short"], 16), row["ksize"], MOLS.index(row["moltype"]),
        row["num"], row["scaled"], row["n_hashes"], int(bool(row["with_abundance"])), un_nm(row["name"]),
        un_fnm(row["filename"])))


@contextlib.contextmanager
def in_dir(d):
    old = os.getcwd()
    try:
        if d:
            os.chdir(d)
        yield
    finally:
        os.chdir(old)


def generic(S):
    with in_dir(S.cwd):
        return sourmash.load_file_as_index(S.path)


def cli(argv, cwd):
    """run `sourmash <argv>` in-process from directory cwd -> (return code, stdout)"""
    from sourmash.__main__ import main as sourmash_main
    out, err = io.StringIO(), io.StringIO()
    rc = 0
    with in_dir(cwd), contextlib.redirect_stdout(out), contextlib.redirect_stderr(err):
        try:
            sourmash_main(argv)
        except SystemExit as e:
            rc = e.code
        finally:
            set_quiet(True)
    return (0 if rc is None else rc), out.getvalue()


SLOT_EXT = {"zip": "c.zip", "dir": "cdir/", "sig": "c.sig", "siggz": "c.sig.gz", "sqldb": "c.sqldb"}
SLOT_KIND = {"zip": "zip", "dir": "dir", "sig": "sigfile", "siggz": "sigfile", "sqldb": "sqldb"}


def slot_rel(S, k):
    return S.slots[k][1]


def slot_of_location(S, iloc, mfdir):
    """which workspace slot a manifest's internal_location names (resolved like StandaloneManifestIndex does)"""
    cands = [iloc] if iloc.startswith("/") else [os.path.join(mfdir, iloc), os.path.join(S.dir, iloc)]
    for p in cands:
        p = os.path.realpath(p)
        for k, (_, rel) in S.slots.items():
            if os.path.realpath(os.path.join(S.dir, rel)) == p:
                return f"o{k}"
    return "?" + iloc


def build_standalone(S, fmt="csv"):
    """the `sig collect` recipe: the collection's manifest with internal_location := the collection"""
    idx = generic(S)
    mf = sourmash_args.get_manifest(idx)
    rows = []
    for row in mf.rows:
        row = dict(row)
        row["internal_location"] = S.path
        rows.append(row)
    out = os.path.join(S.dir, "standalone.mf.csv" if fmt == "csv" else "standalone.mf.sqlmf")
    if os.path.exists(out):
        os.unlink(out)
    CollectionManifest(rows).write_to_filename(out, database_format=fmt)
    return out


def load_how(S, how):
    if how == "generic":
        idx = generic(S)
        with in_dir(S.cwd):
            sigs = list(idx.signatures())
            # the other generic entry point must agree
            other = list(sourmash_args.load_file_as_signatures(S.path))
        if sorted(show_sig(x) for x in other) != sorted(show_sig(x) for x in sigs):
            return None, "MISMATCH load_file_as_signatures"
        return sigs, None
    if how == "standalone":
        out = build_standalone(S)
        idx = sourmash.load_file_as_index(out)
        if not isinstance(idx, StandaloneManifestIndex):
            return None, "MISMATCH standalone manifest loaded as " + type(idx).__name__
        return list(idx.signatures()), None
    if how == "standalone-sql":
        out = build_standalone(S, "sql")
        idx = sourmash.load_file_as_index(out)
        if not isinstance(idx, StandaloneManifestIndex):
            return None, "MISMATCH sql standalone manifest loaded as " + type(idx).__name__
        return list(idx.signatures()), None
    if how == "pathlist":
        out = os.path.join(S.dir, "pathlist.txt")
        with open(out, "w") as f:
            f.write(S.path + "\n")
        idx = sourmash.load_file_as_index(out)
        return list(idx.signatures()), None
    if how == "directory":
        if S.kind == "dir":
            idx = sourmash.load_file_as_index(S.path)
        else:
            idx = sourmash.load_file_as_index(os.path.dirname(S.path))
        return list(idx.signatures()), None
    raise KeyError(how)


KIND_FILES = {}


def make_kind(S, k):
    """create one real file of the given kind, return its path"""
    d = S.fresh()
    mh = MinHash(n=0, ksize=21, scaled=1)
    mh.add_many([1, 2, 3])
    A = SourmashSignature(mh, name="s1")

    def save(p):
        with SaveSignaturesToLocation(p) as s:
            s.add(A)
        return p
    if k == "sigJson":
        return save(d + "/c.sig")
    if k == "sigGz":
        return save(d + "/c.sig.gz")
    if k == "directory":
        save(d + "/cdir/")
        return d + "/cdir"
    if k == "zipColl":
        return save(d + "/c.zip")
    if k == "sqldbIndex":
        return save(d + "/c.sqldb")
    if k in ("csvManifest", "sqlManifest"):
        z = save(d + "/c.zip")
        idx = sourmash.load_file_as_index(z)
        rows = []
        for r in idx.manifest.rows:
            r = dict(r)
            r["internal_location"] = z
            rows.append(r)
        if k == "csvManifest":
            CollectionManifest(rows).write_to_filename(d + "/c.mf.csv")
            return d + "/c.mf.csv"
        CollectionManifest(rows).write_to_filename(d + "/c.mf.sqlmf", database_format="sql")
        return d + "/c.mf.sqlmf"
    if k == "pathlist":
        p = save(d + "/c.sig")
        with open(d + "/c.txt", "w") as f:
            f.write(p + "\n")
        return d + "/c.txt"
    if k in ("sbtZip", "sbtJson"):
        t = create_sbt_index()
        t.insert(A)
        p = d + ("/c.sbt.zip" if k == "sbtZip" else "/c.sbt.json")
        t.save(p)
        return p
    if k in ("lcaJson", "lcaSqldb"):
        db = LCA_Database(21, 1)
        db.insert(A)
        if k == "lcaJson":
            db.save(d + "/c.lca.json")
            return d + "/c.lca.json"
        db.save(d + "/c.lca.sqldb", format="sql")
        return d + "/c.lca.sqldb"
    if k == "fasta":
        with open(d + "/c.fa", "w") as f:
            f.write(">a\nACGTACGTACGT\n")
        return d + "/c.fa"
    if k == "emptyText":
        open(d + "/empty.txt", "w").close()
        return d + "/empty.txt"
    if k == "missing":
        return d + "/does-not-exist"
    raise KeyError(k)


def do_kind(S, k):
    p = make_kind(S, k)
    acc = []
    for prio, desc, fn in sorted(_loader_functions, key=lambda t: t[0]):
        try:
            r = fn(p, traverse_yield_all=False, cache_size=None)
            acc.append(f"{prio}:{type(r).__name__ if r is not None else 'None'}")
        except (ValueError, IndexNotLoaded):
            acc.append(f"{prio}:rej")
        except Exception:
            acc.append(f"{prio}:EXC")
    try:
        w = type(sourmash.load_file_as_index(p)).__name__
    except Exception as e:
        w = "ERR:" + exc_name(e)
    return "ok accept=" + ",".join(acc) + " winner=" + w


def main():
    S = State()
    out = sys.stdout
    for line in sys.stdin:
        w = line.split()
        if not w:
            out.write("bad-op\n")
            continue
        op, a = w[0], w[1:]
        try:
            if op == "#":
                S.reset()
                out.write("#\n")
                continue
            if op == "sig":
                i, name, filename, ksize, mol, num, scaled, seed, track, md5 = [int(x) for x in a[:10]]
                hs = [tuple(int(v) for v in x.split(":")) for x in a[10:]]
                mh = MinHash(n=num, ksize=ksize, scaled=scaled, seed=seed, track_abundance=bool(track),
                             is_protein=(mol == 1), dayhoff=(mol == 2), hp=(mol == 3))
                if track:
                    mh.set_abundances(dict(hs))
                else:
                    mh.add_many([h for h, _ in hs])
                S.sigs[i] = SourmashSignature(mh, name=nm(name), filename=fnm(filename))
                res = f"ok md5={int(S.sigs[i].md5sum(), 16)} n={len(mh)}"
            elif op in ("zip", "dir", "sqldb", "sigfile", "sbt", "lca") and any(
                    i not in S.sigs for sess in parse_sessions(a[-1]) for i in sess):
                res = "bad-op"
            elif op in ("zip", "dir", "sqldb", "sigfile"):
                d = S.fresh()
                if op == "sigfile":
                    path = d + ("/c.sig.gz" if a[0] == "1" else "/c.sig")
                    sess = a[1]
                else:
                    path = d + {"zip": "/c.zip", "dir": "/cdir/", "sqldb": "/c.sqldb"}[op]
                    sess = a[0]
                S.kind, S.path = op, path
                res = run_sessions(S, path, parse_sessions(sess))
                if op == "dir":
                    S.path = path.rstrip("/")
                    if not os.path.isdir(S.path):
                        os.mkdir(S.path)
            elif op == "sbt":
                d = S.fresh()
                S.kind, S.path = "sbt", d + "/c.sbt.zip"
                t = create_sbt_index()
                for i in parse_sessions(a[0])[0]:
                    t.insert(S.sigs[i])
                t.save(S.path)
                res = "ok refused="
            elif op == "lca":
                ksize, mol, scaled, maxhash = [int(x) for x in a[:4]]
                d = S.fresh()
                S.kind, S.path = "lca", d + "/c.lca.json"
                db = LCA_Database(ksize, scaled, MOLS[mol])
                refused = []
                for j, i in enumerate(parse_sessions(a[4])[0]):
                    try:
                        db.insert(S.sigs[i])
                    except ValueError as e:
                        refused.append(f"0.{j}:{exc_name(e)}")
                db.save(S.path)
                res = "ok refused=" + ",".join(refused)
            elif op == "mk":
                k, fmt, sess = int(a[0]), a[1], parse_sessions(a[2])
                if any(i not in S.sigs for x in sess for i in x):
                    res = "bad-op"
                else:
                    ws = S.workspace()
                    rel = f"a/b{k}/" + SLOT_EXT[fmt]
                    os.makedirs(os.path.join(ws, f"a/b{k}"), exist_ok=True)
                    S.slots[k] = (SLOT_KIND[fmt], rel.rstrip("/"))
                    res = run_sessions(S, os.path.join(ws, rel), sess)
                    if fmt == "dir" and not os.path.isdir(os.path.join(ws, rel)):
                        os.mkdir(os.path.join(ws, rel))
            elif op in ("cat", "split", "collect", "sigmanifest", "fileinfo") and any(
                    int(x) not in S.slots for x in (a[-1] if op in ("cat", "split", "collect") else a[0]).split(",")):
                res = "bad-op"
            elif op == "cat":
                S.kind = None
                outfmt, unique, fromfile = a[0], a[1] == "1", a[2] == "1"
                ks = [int(x) for x in a[3].split(",")]
                ws = S.workspace()
                shutil.rmtree(os.path.join(ws, "out"), ignore_errors=True)
                os.makedirs(os.path.join(ws, "out"))
                paths = [slot_rel(S, k) for k in ks]
                argv = ["sig", "cat"]
                if fromfile and len(paths) >= 2:
                    # load_pathlist_from_file returns a SET: only one listed path keeps the order defined
                    with open(os.path.join(ws, "out", "list.txt"), "w") as f:
                        f.write(paths[-1] + "\n")
                    argv += paths[:-1] + ["--from-file", "out/list.txt"]
                else:
                    argv += paths
                out_rel = "out/" + SLOT_EXT[outfmt]
                argv += ["-o", out_rel] + (["--unique"] if unique else [])
                rc, _ = cli(argv, ws)
                if rc != 0:
                    S.kind = None
                    res = f"err SystemExit"
                else:
                    S.kind, S.path, S.cwd = SLOT_KIND[outfmt], os.path.join(ws, out_rel).rstrip("/"), None
                    res = "ok refused="
            elif op == "split":
                S.kind = None
                ks = [int(x) for x in a[0].split(",")]
                ws = S.workspace()
                shutil.rmtree(os.path.join(ws, "out"), ignore_errors=True)
                rc, _ = cli(["sig", "split"] + [slot_rel(S, k) for k in ks] + ["--output-dir", "out"], ws)
                if rc != 0:
                    S.kind = None
                    res = "err SystemExit"
                else:
                    S.kind, S.path, S.cwd = "split", os.path.join(ws, "out"), None
                    res = "ok refused="
            elif op == "collect":
                S.kind = None
                fmt, mode = a[0], a[1]
                ks = [int(x) for x in a[2].split(",")]
                ws = S.workspace()
                name = "m.csv" if fmt == "csv" else "m.sqlmf"
                out_rel = name if mode == "cwd" else "mf/" + name
                if os.path.exists(os.path.join(ws, out_rel)):
                    os.unlink(os.path.join(ws, out_rel))
                argv = ["sig", "collect"] + [slot_rel(S, k) for k in ks] + ["-o", out_rel, "-F", fmt]
                argv += {"abs": ["--abspath"], "rel": ["--relpath"]}.get(mode, [])
                rc, _ = cli(argv, ws)
                if rc != 0:
                    S.kind = None
                    res = "err SystemExit"
                else:
                    # the manifest is loaded by its absolute path from an unrelated working directory
                    S.kind, S.path, S.cwd = "mf", os.path.join(ws, out_rel), os.path.join(ws, "else")
                    res = "ok refused="
            elif op == "sigmanifest":
                k, rebuild, fmt = int(a[0]), a[1] == "1", a[2]
                ws = S.workspace()
                out_rel = "mf/sm.csv" if fmt == "csv" else "mf/sm.sqlmf"
                if os.path.exists(os.path.join(ws, out_rel)):
                    os.unlink(os.path.join(ws, out_rel))
                argv = ["sig", "manifest", slot_rel(S, k), "-o", out_rel, "-F", fmt]
                argv += [] if rebuild else ["--no-rebuild-manifest"]
                rc, _ = cli(argv, ws)
                if rc != 0:
                    res = "err SystemExit"
                else:
                    mf = CollectionManifest.load_from_filename(os.path.join(ws, out_rel))
                    res = "ok~ " + ";".join(row_fields(r, show_member(r["internal_location"])) for r in mf.rows)
            elif op == "fileinfo":
                k = int(a[0])
                ws = S.workspace()
                rc, text = cli(["sig", "fileinfo", slot_rel(S, k), "--json-out"], ws)
                if rc != 0:
                    res = "err SystemExit"
                else:
                    d = json.loads(text)
                    items = [f"n={d['num_sketches']}", f"total={d['total_hashes']}"]
                    for g in d["sketch_info"]:
                        items.append(f"g:{g['ksize']}/{MOLS.index(g['moltype'])}/{g['scaled']}/{g['num']}/"
                                     f"{int(bool(g['abund']))}/{g['count']}/{g['n_hashes']}")
                    res = "ok~ " + ";".join(items)
            elif op == "load" and a[0] == "partial":
                if S.kind not in ("zip", "sigfile", "sqldb"):
                    res = "ok -"
                else:
                    idx = generic(S)
                    rows = [dict(r) for r in sourmash_args.get_manifest(idx).rows]
                    want = [int(x) for x in a[1].split(",")] if a[1] != "-" else []
                    sel = []
                    for i in (want if rows else []):
                        r = dict(rows[i % len(rows)])
                        r["internal_location"] = S.path
                        sel.append(r)
                    out_mf = os.path.join(S.dir, "partial.mf.csv")
                    if os.path.exists(out_mf):
                        os.unlink(out_mf)
                    CollectionManifest(sel).write_to_filename(out_mf)
                    pidx = sourmash.load_file_as_index(out_mf)
                    res = "ok " + ";".join([f"len={len(pidx)}"] + [show_sig(x) for x in pidx.signatures()])
            elif op in ("members", "manifest", "locs", "load", "len", "rebuild") and S.kind is None:
                res = "ok -"
            elif op == "members":
                if S.kind == "zip":
                    res = "ok~ " + ";".join(show_member(n) for n in zipfile.ZipFile(S.path).namelist())
                elif S.kind == "sbt":
                    ns = [n for n in zipfile.ZipFile(S.path).namelist()
                          if not n.endswith("/") and "/internal." not in n and not n.endswith(".csv")
                          and not n.endswith(".sbt.json")]
                    res = "ok~ " + ";".join(show_member(n) for n in ns)
                elif S.kind == "dir":
                    res = "ok~ " + ";".join(show_member(n) for n in os.listdir(S.path))
                else:
                    res = "ok -"
            elif op == "manifest":
                idx = generic(S)
                m = idx.manifest
                if m is None:
                    res = "ok none"
                elif S.kind == "zip":
                    res = "ok " + ";".join(row_fields(r, show_member(r["internal_location"])) for r in m.rows)
                elif S.kind == "sbt":
                    res = "ok~ " + ";".join(row_fields(r, "*") for r in m.rows)
                elif S.kind == "dir":
                    res = "ok~ " + ";".join(row_fields(r, show_member(r["internal_location"])) for r in m.rows)
                elif S.kind == "split":
                    res = "ok~ " + ";".join(row_fields(r, "*") for r in m.rows)
                elif S.kind == "mf":
                    res = "ok~ " + ";".join(row_fields(r, slot_of_location(S, r["internal_location"], os.path.dirname(S.path)))
                                            for r in m.rows)
                elif S.kind == "sigfile":
                    res = "ok " + ";".join(row_fields(r, "o0" if r["internal_location"] == S.path else "?" + str(r["internal_location"])) for r in m.rows)
                else:
                    res = "ok " + ";".join(row_fields(r, str(r["internal_location"])) for r in m.rows)
            elif op == "rebuild":
                if S.kind == "zip":
                    mf = sourmash_args.get_manifest(generic(S), rebuild=True)
                    res = "ok~ " + ";".join(row_fields(r, show_member(r["internal_location"])) for r in mf.rows)
                else:
                    res = "ok -"
            elif op == "locs":
                idx = generic(S)
                if S.kind == "sbt" and idx.manifest is not None:
                    locs = [r["internal_location"] for r in idx.manifest.rows]
                    res = f"ok {len(locs)} {len(set(locs))}"
                else:
                    res = "ok -"
            elif op == "load":
                sigs, bad = load_how(S, a[0])
                if bad:
                    res = bad
                elif S.kind in ("zip", "sigfile", "sqldb") :
                    res = "ok " + ";".join(show_sig(x) for x in sigs)
                else:
                    res = "ok~ " + ";".join(show_sig(x) for x in sigs)
            elif op == "len":
                res = f"ok {len(generic(S))}"
            elif op == "kind":
                res = do_kind(S, a[0])
            elif op == "conv":
                x = int(a[0])
                res = f"ok {convert_hash_to(x)} {convert_hash_from(convert_hash_to(x))}"
            else:
                res = "bad-op"
        except (ValueError, KeyError, FileNotFoundError, NotImplementedError, IndexError, AssertionError, Exception) as e:
            res = "err " + exc_name(e)
        out.write(res + "\n")
        out.flush()
    S.cleanup()


if __name__ == "__main__":
    main()
