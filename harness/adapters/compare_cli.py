"""CLI tier of C16: the `sourmash compare` command line and the reload of what it saves (`sourmash plot`).

usage: compare_cli.py <tmpdir> <seed> <n_runs> [labels|many]      (PYTHONPATH = package built from /repo)
       `labels`: only small runs whose signature names have leading / trailing whitespace, tabs or a newline
       `many`:   only runs with 10..14 signatures (two-digit sort_order in the --labels-to CSV), always reloaded through plot

For every run: write signature files, run `python -m sourmash compare ... -o M --csv C --labels-to L [-p k]`
on the files in a random order, reload the .npy matrix, the .labels.txt, the CSV and the labels CSV, and
compare every cell EXACTLY with the pairwise value computed here through the SourmashSignature API on the
signatures as the command prepares them (all downsampled to the largest scaled).  Then run the command
again on a permutation of the files and check that the matrix and the labels are permuted accordingly.
Part of the files is passed through `--from-file`.  The saved matrix + labels are then RELOADED the way users do it:
`sourmash plot M --labels --csv X` (reads M.labels.txt) and `sourmash plot M --labels-from L --csv X` (reads the
--labels-to CSV); the re-ordered matrix and labels plot writes must be the in-process matrix / labels, cell by cell.
Every measure switch (--containment, --max-containment, --avg-containment, each with --ani, --ignore-abundance,
--distance-matrix, -p N which goes through np_utils.to_memmap) is drawn.  Prints a JSON report.
"""
import csv
import json
import os
import random
import subprocess
import sys

import numpy
import sourmash
from sourmash import MinHash, SourmashSignature, save_signatures, load_file_as_signatures

U64 = 2 ** 64


def make_sigs(rng, n, ksize, hard=0.0, unnamed_first=False, rich=False):
    scaleds = rng.choice([[1], [2], [10], [1, 2, 4], [10, 100]])
    if rich:
        scaleds = [1]               # big, pairwise different overlaps: a permuted label set cannot hide behind equal cells
    top = max(scaleds)
    lo = int(U64 / top) - 1
    pool = [rng.randrange(1, lo) for _ in range(300 if rich else rng.choice([8, 40, 300]))]
    track_all = rng.random() < 0.4
    sigs = []
    for i in range(n):
        sc = rng.choice(scaleds)
        track = track_all and rng.random() < 0.8
        mh = MinHash(n=0, ksize=ksize, scaled=sc, track_abundance=track)
        hs = rng.sample(pool, rng.randint(1, len(pool)))
        if track:
            mh.set_abundances({h: rng.choice([1, 2, 3, 9]) for h in hs})
        else:
            mh.add_many(hs)
        name = rng.choice(["", f"g{i}", f"genome {i} strain-{rng.randint(1, 99)}", f"s{i},with,commas", f'q"{i}"'])
        if rng.random() < hard:
            name = rng.choice([f" lead{i}", f"trail{i} ", f"tab{i}\t", f"  both{i}  ", f"two\nlines{i}"])
        if unnamed_first and i == 0:
            name = ""                       # an unnamed signature: its label is the filename, its `name` column is empty
        sigs.append(SourmashSignature(mh, name=name, filename=f"file{i}.fa"))
    return sigs


def pairwise(mode, ani, ia, a, b):
    if mode == "sim":
        v = a.jaccard_ani(b).ani if ani else a.similarity(b, ignore_abundance=ia)
    elif mode == "containment":
        v = a.containment_ani(b).ani if ani else a.contained_by(b)
    elif mode == "max":
        v = a.max_containment_ani(b).ani if ani else a.max_containment(b)
    else:
        v = a.avg_containment_ani(b) if ani else a.avg_containment(b)
    return 0.0 if v is None else float(v)


def expected(mode, ani, ia, sigs, scaled_opt=None):
    n = len(sigs)
    top = max(s.minhash.scaled for s in sigs)
    if scaled_opt:
        top = max(top, scaled_opt)          # `--scaled S`: everything is compared at max(S, coarsest sketch)
    prepared = []
    for s in sigs:
        s = s.to_mutable() if hasattr(s, "to_mutable") else s
        if s.minhash.scaled != top:
            s.minhash = s.minhash.downsample(scaled=top)
        prepared.append(s)
    M = numpy.ones((n, n))
    for a in range(n):
        for b in range(n):
            if a != b:
                # documented: C(A, B) = B.contained_by(A); symmetric measures: either order
                M[a][b] = pairwise(mode, ani, ia, prepared[b], prepared[a])
    return M, prepared


def plot_reload(td, tag, out, how, lab):
    """`sourmash plot` on the saved matrix: returns (labels, matrix) as plot re-read and re-ordered them, or (None, stderr)"""
    pc = os.path.join(td, f"{tag}.{how}.plot.csv")
    cmd = [sys.executable, "-m", "sourmash", "plot", out, "--csv", pc, "--output-dir", os.path.join(td, f"{tag}.{how}.plots")]
    cmd += ["--labels"] if how == "txt" else ["--labels-from", lab]
    r = subprocess.run(cmd, stdout=subprocess.PIPE, stderr=subprocess.PIPE, text=True, timeout=600,
                       env=dict(os.environ, TMPDIR=td, MPLBACKEND="Agg"))
    if r.returncode != 0 or not os.path.exists(pc):
        return None, (r.stderr or r.stdout)[-300:]
    with open(pc, newline="") as f:
        rows = list(csv.reader(f))
    return rows[0], [[float(x) for x in row] for row in rows[1:]]


def run_cli(td, tag, files, ksize, mode, ani, ia, procs, dist, n_from_file=0, scaled_opt=None):
    out = os.path.join(td, f"{tag}.npy")
    cs = os.path.join(td, f"{tag}.csv")
    lab = os.path.join(td, f"{tag}.labels.csv")
    cmd = [sys.executable, "-m", "sourmash", "compare", "-q", "-k", str(ksize), "-o", out, "--csv", cs, "--labels-to", lab]
    cmd += {"sim": [], "containment": ["--containment"], "max": ["--max-containment"], "avg": ["--avg-containment"]}[mode]
    if ani:
        cmd.append("--ani")
    if ia:
        cmd.append("--ignore-abundance")
    if procs:
        cmd += ["-p", str(procs)]
    if dist:
        cmd.append("--distance-matrix")
    if scaled_opt:
        cmd += ["--scaled", str(scaled_opt)]
    # compare_parallel (-p N) leaves its memory-mapped arrays in the temp dir: keep them under <tmpdir>
    if n_from_file:
        # the last n_from_file files go through --from-file (the command appends them to the positional ones)
        lst = os.path.join(td, f"{tag}.list.txt")
        with open(lst, "w") as f:
            f.write("\n".join(files[len(files) - n_from_file:]) + "\n")
        files = files[:len(files) - n_from_file]
        cmd += ["--from-file", lst]
    r = subprocess.run(cmd + files, stdout=subprocess.PIPE, stderr=subprocess.PIPE, text=True, timeout=600,
                       env=dict(os.environ, TMPDIR=td))
    if r.returncode != 0:
        return None, r.stderr[-400:]
    with open(out, "rb") as f:
        M = numpy.load(f)
    labels = open(out + ".labels.txt").read().split("\n")       # the file is "\n".join(labels)
    with open(cs, newline="") as f:
        rows = list(csv.reader(f))
    with open(lab, newline="") as f:
        lrows = list(csv.DictReader(f))
    return (M, labels, rows, lrows, out, lab), ""


def main():
    td, seed, n_runs = sys.argv[1], int(sys.argv[2]), int(sys.argv[3])
    labels_only = len(sys.argv) > 4 and sys.argv[4] == "labels"
    many_only = len(sys.argv) > 4 and sys.argv[4] == "many"       # 10..14 signatures (two-digit sort_order), reloaded through plot
    rng = random.Random(f"C16-cli-{seed}")
    rep = {"runs": 0, "cells": 0, "plot_reloads": 0, "violations": []}

    def bad(sig, what, **kw):
        rep["violations"].append(dict(signature=sig, what=what, **kw))

    for run in range(n_runs):
        n = rng.choice([1, 2, 3, 5, 8, 12, 14]) if not labels_only else rng.choice([2, 3, 4])
        if many_only:
            n = rng.randint(10, 14)
        ksize = rng.choice([21, 31])
        sigs = make_sigs(rng, n, ksize, hard=0.7 if labels_only else (0.5 if rng.random() < 0.25 else 0.0),
                         unnamed_first=labels_only or many_only or rng.random() < 0.5, rich=many_only)
        files = []
        for i, s in enumerate(sigs):
            p = os.path.join(td, f"r{run}_{i}.sig")
            with open(p, "w") as f:
                save_signatures([s], f)
            files.append(p)
        mode = rng.choice(["sim", "sim", "containment", "max", "avg"])
        ani = rng.random() < 0.4
        ia = mode == "sim" and rng.random() < 0.4
        procs = rng.choice([None, 1, 2, 3, 8, 16]) if mode == "sim" else None
        dist = rng.random() < 0.2
        scaled_opt = rng.choice([None, None, None, 20, 200])
        if labels_only or many_only:
            # few runs: walk through the switches instead of drawing them
            sched = [("sim", False, False, 2, True, None), ("containment", True, False, None, False, 20), ("avg", False, False, None, False, None),
                     ("sim", True, True, 3, False, None), ("max", True, False, None, True, 200)]
            mode, ani, ia, procs, dist, scaled_opt = sched[(run + seed + (2 if many_only else 0)) % len(sched)]
            if many_only:
                # the two-digit sort_order run: a plain similarity matrix of distinct values (ANI of small sketches is
                # withheld -> 0.0 everywhere, and a wrong label order would be invisible)
                mode, ani, ia, scaled_opt = "sim", False, False, None
            if labels_only and run == 0:
                dist = True                 # every quick run saves at least one distance matrix
        desc = f"mode={mode} ani={ani} ignore_abundance={ia} -p {procs} distance={dist} --scaled {scaled_opt} n={n} k={ksize}"
        order = list(range(n))
        rng.shuffle(order)
        results = []
        for tag, ordr in (("a", list(range(n))), ("b", order)):
            nff = rng.choice([0, 0, 1, n // 2, n]) if n > 0 else 0
            res, err = run_cli(td, f"r{run}{tag}", [files[i] for i in ordr], ksize, mode, ani, ia, procs, dist, n_from_file=nff, scaled_opt=scaled_opt)
            rep["runs"] += 1
            if res is not None and nff:
                # `--from-file` goes through load_pathlist_from_file(), which returns a *set*: the listed files arrive in hash
                # order (differs from run to run), not in list order.  Matrix and labels stay consistent with each other, so
                # this is not a C16 violation; the order actually used is read back from the --labels-to CSV.
                actual = [files.index(r["signature_file"]) if r["signature_file"] in files else -1 for r in res[3]]
                if sorted(actual) != sorted(ordr):
                    bad("C16:cli:inputs-lost-or-duplicated", f"--from-file: inputs {ordr} but the command compared {actual} ({desc})")
                    break
                if actual[:n - nff] != ordr[:n - nff]:
                    bad("C16:cli:positional-order", f"positional inputs {ordr[:n - nff]} were compared as {actual[:n - nff]} ({desc})")
                    break
                if actual != ordr:
                    rep["from_file_reordered"] = rep.get("from_file_reordered", 0) + 1
                ordr = actual
            loaded = [next(iter(load_file_as_signatures(files[i], ksize=ksize))) for i in ordr]
            try:
                E, prepared = expected(mode, ani, ia, loaded, scaled_opt)
            except Exception as e:      # noqa: BLE001
                # a pairwise value does not exist (e.g. jaccard_to_distance refuses tiny sketches): the command must fail too
                rep["pairwise_refused"] = rep.get("pairwise_refused", 0) + 1
                if res is not None:
                    bad(f"C16:cli:missing-error:{mode}", f"a pairwise value raises {type(e).__name__} but the command succeeded ({desc})")
                break
            if res is None:
                bad(f"C16:cli:failed:{mode}", f"sourmash compare exited non-zero although every pairwise value exists ({desc}): {err}")
                break
            M, labels, rows, lrows, out_npy, lab_csv = res
            if dist:
                E = 1 - E
            want_labels = [str(s) for s in loaded]
            if M.shape != (n, n) or not numpy.array_equal(M, E):
                bad(f"C16:cli:entry:{mode}", f"saved matrix differs from the pairwise values ({desc})",
                    got=M.tolist(), want=E.tolist())
            rep["cells"] += n * n
            hard_labels = any(x != x.strip() or "\n" in x for x in want_labels)
            if labels != want_labels and not hard_labels:
                bad("C16:cli:labels-txt", f"labels.txt does not hold the labels ({desc})", got=labels, want=want_labels)
            # reload through `sourmash plot`, from labels.txt and from the --labels-to CSV
            if tag == "a" and n >= 2 and len(set(want_labels)) == n and (labels_only or many_only or hard_labels or n >= 10 or rng.random() < 0.35):
                for how in ("txt", "csv"):
                    rl, rm = plot_reload(td, f"r{run}{tag}", out_npy, how, lab_csv)
                    rep["plot_reloads"] += 1
                    okl = rl is not None and sorted(rl) == sorted(want_labels)
                    if not okl:
                        if how == "txt" and hard_labels:
                            bad("C16:cli:labels-txt:whitespace-or-newline",
                                f"`sourmash plot --labels` does not reload the labels `sourmash compare -o` saved: "
                                f"saved {want_labels!r}, reloaded {rl!r}" + ("" if rl is not None else f" ({rm.strip()[-120:]})"),
                                want=want_labels, got=rl)
                        else:
                            bad(f"C16:cli:plot-reload:{how}", f"plot does not reload the saved labels ({desc}): {want_labels!r} -> {rl!r} {'' if rl else rm}")
                        continue
                    idx = {x: i for i, x in enumerate(want_labels)}
                    if any(rm[a][b] != E[idx[rl[a]]][idx[rl[b]]] for a in range(n) for b in range(n)):
                        bad(f"C16:cli:plot-reload-matrix:{how}", f"the matrix plot reloads is not the saved one ({desc})")
            if rows[0] != want_labels or [[float(x) for x in r] for r in rows[1:]] != E.tolist():
                bad("C16:cli:csv", f"--csv does not reload to the same values ({desc})")
            if [r["label"] for r in lrows] != want_labels or [r["sort_order"] for r in lrows] != [str(i + 1) for i in range(n)] \
                    or [r["md5"] for r in lrows] != [s.md5sum() for s in prepared]:      # md5 of the sketch as compared (after --scaled / downsampling)
                bad("C16:cli:labels-to", f"--labels-to rows do not describe the inputs in order ({desc})")
            results.append((ordr, M))
        if len(results) == 2:
            (o1, M1), (o2, M2) = results
            pos = {s: i for i, s in enumerate(o1)}
            for a in range(n):
                for b in range(n):
                    if M2[a][b] != M1[pos[o2[a]]][pos[o2[b]]]:
                        bad(f"C16:cli:perm:{mode}", f"permuting the files does not permute the matrix ({desc})")
                        break
                else:
                    continue
                break
    print(json.dumps(rep))


if __name__ == "__main__":
    main()
