"""Real-code adapter for the `nodegraph` sub-stream (C13): a table of Nodegraph handles driven through
sourmash.nodegraph.Nodegraph (Python -> cffi -> src/core/src/ffi/nodegraph.rs -> sketch/nodegraph.rs)."""
import sys

from sourmash import MinHash
from sourmash.nodegraph import Nodegraph


def show(g):
    return "ok sizes=" + ",".join(str(x) for x in g.hashsizes()) + f" occ={g.n_occupied()}"


def checksum(bs):
    acc = 0
    for i, b in enumerate(bs):
        acc = (acc + (i + 1) * (b + 1)) % 1000000007
    return acc


def mh_of(hs):
    mh = MinHash(0, 21, scaled=1)
    mh.add_many(hs)
    return mh


TWOBIT = {"A": 0, "C": 2, "G": 3, "T": 1}
TWOBIT_RC = {"A": 1, "C": 3, "G": 2, "T": 0}


def khash(kmer):
    """nodegraph.rs `_hash`: the smaller of the 2-bit encodings of the k-mer and of its reverse complement"""
    f = r = 0
    for c in kmer:
        f = (f << 2) | TWOBIT[c]
    for c in reversed(kmer):
        r = (r << 2) | TWOBIT_RC[c]
    return min(f, r)


class ViewMismatch(Exception):
    pass


def check_views(g, meta):
    """whatever can be read about a filter through two routes must agree"""
    sizes = g.hashsizes()
    if meta is not None and g.ksize() != meta["ksize"]:
        raise ViewMismatch("ksize()")
    if sizes:
        # (without tables expected_collisions aborts the process: finding C13.8)
        want = (g.n_occupied() / min(sizes)) ** len(sizes)
        got = g.expected_collisions
        if abs(got - want) > 1e-12 * max(1.0, want):
            raise ViewMismatch("expected_collisions")
    if sizes and all(s % 32 for s in sizes):
        raw = bytes(g.to_bytes(compression=0))
        if raw[:6] != b"OXLI\x04\x02" or raw[10] != len(sizes) % 256:
            raise ViewMismatch("header")
        if int.from_bytes(raw[11:19], "little") != g.n_occupied():
            raise ViewMismatch("n_occupied in the image")
        if int.from_bytes(raw[19:27], "little") != sizes[0]:
            raise ViewMismatch("first table size in the image")
        nb = sizes[0] // 8 + 1
        # (a hand-made image may claim any occupancy: only for filters made and filled through the API)
        if meta is not None and sum(bin(b).count("1") for b in raw[27:27 + nb]) != g.n_occupied():
            raise ViewMismatch("n_occupied != population count of table 0")


def main():
    T = {}
    M = {}
    k_route = 0
    out = sys.stdout
    for line in sys.stdin:
        w = line.split()
        if not w:
            out.write("bad-op\n")
            continue
        op, a = w[0], w[1:]
        try:
            if op == "#":
                T = {}
                M = {}
                k_route = 0
                out.write("#\n")
                continue
            k_route += 1
            if op == "new":
                r, ksize, size, nt = map(int, a)
                if size == 0 or r >= 16:
                    raise KeyError
                T[r] = Nodegraph(ksize, size, nt)
                M[r] = {"ksize": ksize}
                res = show(T[r])
            elif op == "count":
                r, h = map(int, a)
                isnew = T[r].count(h)
                res = f"ok {int(bool(isnew))} occ={T[r].n_occupied()}"
            elif op == "get":
                r, h = map(int, a)
                res = f"ok {T[r].get(h)}"
            elif op == "addmany":
                r = int(a[0])
                T[r].update(mh_of([int(x) for x in a[1:]]))
                res = show(T[r])
            elif op == "matches":
                r = int(a[0])
                res = f"ok {T[r].matches(mh_of([int(x) for x in a[1:]]))}"
            elif op == "update":
                r, s = map(int, a)
                g, o = T[r], T[s]
                g.update(o)
                if M.get(s) is None or g.hashsizes() != o.hashsizes():
                    M[r] = None
                res = show(g)
            elif op == "show":
                (r,) = map(int, a)
                res = show(T[r])
            elif op == "bytes":
                (r,) = map(int, a)
                bs = bytes(T[r].to_bytes(compression=0))
                res = f"ok len={len(bs)} ck={checksum(bs)}"
                if len(bs) <= 160:
                    res += " bytes=" + ",".join(str(b) for b in bs)
            elif op == "rt":
                r, s, comp = map(int, a)
                if r >= 16:
                    raise KeyError
                g = T[s]
                if k_route % 2 and comp == 0:
                    # the file route: Nodegraph.save(path) / Nodegraph.load(path)
                    import os
                    import tempfile
                    tmpd = os.path.join(os.path.dirname(os.path.dirname(os.path.dirname(os.path.abspath(__file__)))), ".build", "tmp")
                    os.makedirs(tmpd, exist_ok=True)
                    fd, fn = tempfile.mkstemp(prefix="c13ng_", dir=tmpd)
                    os.close(fd)
                    try:
                        g.save(fn)
                        T[r] = Nodegraph.load(fn)
                    finally:
                        os.remove(fn)
                else:
                    buf = bytes(g.to_bytes(compression=comp))
                    T[r] = Nodegraph.from_buffer(buf)
                M[r] = M.get(s)
                res = show(T[r])
            elif op == "loadraw":
                r = int(a[0])
                if r >= 16:
                    raise KeyError
                buf = bytes(int(x) for x in a[1:])
                g = Nodegraph.from_buffer(buf)
                T[r] = g
                M[r] = None
                res = show(g)
            elif op == "countk":
                r, kmer = int(a[0]), a[1]
                isnew = T[r].count(kmer)
                if T[r].get(kmer) != 1 or T[r].get(khash(kmer)) != 1:
                    raise ViewMismatch("get after count(kmer)")
                res = f"ok {int(bool(isnew))} occ={T[r].n_occupied()}"
            elif op == "getk":
                r, kmer = int(a[0]), a[1]
                v = T[r].get(kmer)
                if v != T[r].get(khash(kmer)):
                    raise ViewMismatch("get(kmer) != get(hash of kmer)")
                res = f"ok {v}"
            else:
                res = "bad-op"
        except KeyError:
            res = "bad-op"
        except BaseException as e:      # noqa: BLE001
            res = "err " + type(e).__name__
        else:
            try:
                if op in ("new", "count", "addmany", "update", "rt", "loadraw", "countk") and res.startswith("ok"):
                    check_views(T[int(a[0])], M.get(int(a[0])))
            except BaseException as e:      # noqa: BLE001
                res = "err " + type(e).__name__
        out.write(res + "\n")
    out.flush()


if __name__ == "__main__":
    main()
