"""Real-code adapter for the `nodegraph` sub-stream (C13): a table of Nodegraph handles driven through
sourmash.nodegraph.Nodegraph (Python -> cffi -> src/core/src/ffi/nodegraph.rs -> sketch/nodegraph.rs)."""
import sys

from sourmash import MinHash
from sourmash.nodegraph import Nodegraph


def show(g):
    return "ok sizes=" + ",".join(str(x) for x in g.hashsizes()) + f" occ={g.n_occupied()}"


def checksum(bs):
    acc = 0
    for i, b in enumerate(bs):
        acc = (acc + (i + 1) * (b + 1)) % 1000000007
    return acc


def mh_of(hs):
    mh = MinHash(0, 21, scaled=1)
    mh.add_many(hs)
    return mh


def main():
    T = {}
    out = sys.stdout
    for line in sys.stdin:
        w = line.split()
        if not w:
            out.write("bad-op\n")
            continue
        op, a = w[0], w[1:]
        try:
            if op == "#":
                T = {}
                out.write("#\n")
                continue
            if op == "new":
                r, ksize, size, nt = map(int, a)
                if size == 0 or r >= 16:
                    raise KeyError
                T[r] = Nodegraph(ksize, size, nt)
                res = show(T[r])
            elif op == "count":
                r, h = map(int, a)
                isnew = T[r].count(h)
                res = f"ok {int(bool(isnew))} occ={T[r].n_occupied()}"
            elif op == "get":
                r, h = map(int, a)
                res = f"ok {T[r].get(h)}"
            elif op == "addmany":
                r = int(a[0])
                T[r].update(mh_of([int(x) for x in a[1:]]))
                res = show(T[r])
            elif op == "matches":
                r = int(a[0])
                res = f"ok {T[r].matches(mh_of([int(x) for x in a[1:]]))}"
            elif op == "update":
                r, s = map(int, a)
                g, o = T[r], T[s]
                g.update(o)
                res = show(g)
            elif op == "show":
                (r,) = map(int, a)
                res = show(T[r])
            elif op == "bytes":
                (r,) = map(int, a)
                bs = bytes(T[r].to_bytes(compression=0))
                res = f"ok len={len(bs)} ck={checksum(bs)}"
                if len(bs) <= 160:
                    res += " bytes=" + ",".join(str(b) for b in bs)
            elif op == "rt":
                r, s, comp = map(int, a)
                if r >= 16:
                    raise KeyError
                g = T[s]
                buf = bytes(g.to_bytes(compression=comp))
                T[r] = Nodegraph.from_buffer(buf)
                res = show(T[r])
            elif op == "loadraw":
                r = int(a[0])
                if r >= 16:
                    raise KeyError
                buf = bytes(int(x) for x in a[1:])
                g = Nodegraph.from_buffer(buf)
                T[r] = g
                res = show(g)
            else:
                res = "bad-op"
        except KeyError:
            res = "bad-op"
        except BaseException as e:      # noqa: BLE001
            res = "err " + type(e).__name__
        out.write(res + "\n")
    out.flush()


if __name__ == "__main__":
    main()
