"""Real-code adapter for the `ani` stream (C17): sourmash.distance_utils and the ANI wrappers of
MinHash.  Floats are printed / read as the decimal value of their IEEE-754 bit pattern; N = None.
A `?` in place of an input that only the real code can produce (brentq's interval, size_is_accurate(),
contained_by()) is accepted: the generator uses this program as helper to fill those in."""
import atexit
import os
import struct
import subprocess
import sys
import warnings

import sourmash  # noqa: F401
from sourmash import MinHash
from sourmash import distance_utils as du
from sourmash.logging import set_quiet

set_quiet(True)
warnings.simplefilter("ignore")


def bits(x):
    return str(struct.unpack("<Q", struct.pack("<d", float(x)))[0])


def fl(s):
    return struct.unpack("<d", struct.pack("<Q", int(s)))[0]


def ofl(s):
    return None if s == "N" else fl(s)


def ob(x):
    return "N" if x is None else bits(x)


def exc_name(e):
    for cls in (TypeError, ValueError, ZeroDivisionError, OverflowError):
        if isinstance(e, cls):
            return cls.__name__
    return type(e).__name__


def show_ci(r):
    return (f"ok d={bits(r.dist)} ani={ob(r.ani)} p={bits(r.p_nothing_in_common)} px={int(r.p_exceeds_threshold)} "
            f"lo={ob(r.dist_low)} hi={ob(r.dist_high)} alo={ob(r.ani_low)} ahi={ob(r.ani_high)}")


def show_jac(r):
    return (f"ok d={bits(r.dist)} ani={ob(r.ani)} p={bits(r.p_nothing_in_common)} px={int(r.p_exceeds_threshold)} "
            f"je={bits(r.jaccard_error)} jx={int(r.je_exceeds_threshold)}")


def show_ani(r):
    return f"ok d={bits(r.dist)} ani={ob(r.ani)} p={bits(r.p_nothing_in_common)} px={int(r.p_exceeds_threshold)}"


def sketches(len_a, len_b, common, scaled, k):
    """two flat sketches with the given sizes and overlap (hash values 1.. are below every threshold used)"""
    a = MinHash(n=0, ksize=k, scaled=scaled)
    b = MinHash(n=0, ksize=k, scaled=scaled)
    a.add_many(range(1, len_a + 1))
    b.add_many(list(range(1, common + 1)) + list(range(len_a + 1, len_a + 1 + len_b - common)))
    assert len(a) == len_a and len(b) == len_b and a.count_common(b) == common
    return a, b


class BinomProxy:
    """records which scipy.stats.binom functions set_size_exact_prob calls, with which arguments"""

    def __init__(self, real):
        self.real = real
        self.calls = []

    def cdf(self, x, n, p):
        v = self.real.cdf(x, n, p)
        self.calls.append(("cdf", x, n, p, v))
        return v

    def pmf(self, x, n, p):
        v = self.real.pmf(x, n, p)
        self.calls.append(("pmf", x, n, p, v))
        return v


def size_is_accurate_traced(length, scaled, rel, conf):
    if scaled == 0:
        mh = MinHash(n=max(length, 1), ksize=21)
    else:
        mh = MinHash(n=0, ksize=21, scaled=scaled)
    mh.add_many(range(1, length + 1))
    proxy = BinomProxy(du.binom)
    du.binom = proxy
    try:
        acc = mh.size_is_accurate(relative_error=rel, confidence=conf)
    finally:
        du.binom = proxy.real
    calls = proxy.calls
    if len({(c[2], c[3]) for c in calls}) != 1:
        return "inconsistent-binomial-parameters " + repr(calls)
    vals = [c[4] for c in calls] + [None] * (3 - len(calls))
    prob = du.set_size_exact_prob(mh.unique_dataset_hashes, mh.scaled, relative_error=rel)
    return (f"ok calls={','.join(c[0] + ':' + bits(c[1]) for c in calls)} vals={','.join(ob(v) for v in vals)} "
            f"n={calls[0][2]} p={bits(calls[0][3])} prob={bits(prob)} acc={int(bool(acc))}")


_native = None


def native(line):
    """forward an op to the Rust harness (`smharness ani`: executes src/core/src/ani_utils.rs)"""
    global _native
    if _native is None:
        build = os.environ.get("VERIF_BUILD") or os.path.join(
            os.path.dirname(os.path.dirname(os.path.dirname(os.path.abspath(__file__)))), ".build")
        exe = os.path.join(build, "rh_target", "release", "smharness")
        if not os.path.exists(exe):
            return "no-native-harness"
        _native = subprocess.Popen([exe, "ani"], stdin=subprocess.PIPE, stdout=subprocess.PIPE, text=True, bufsize=1)
        atexit.register(lambda: (_native.stdin.close(), _native.wait(timeout=10)))
    _native.stdin.write(line + "\n")
    _native.stdin.flush()
    return _native.stdout.readline().rstrip("\n")


def do(w):
    op = w[0]
    if op == "nat" and len(w) >= 3:
        if w[1] in ("ci", "inc-ci") and len(w) == 9:
            for t in w[7:9]:
                if t not in ("?", "N"):
                    int(t)
            return native(" ".join(w[:7]))
        if w[1] == "probit" and len(w) == 4:
            if w[3] != "?":
                int(w[3])
            return native(" ".join(w[:3]))
        if w[1] in ("ci", "inc-ci", "probit"):
            return "bad-op"
        return native(" ".join(w))
    if op == "pyvar" and len(w) == 4:
        return "ok v=" + bits(du.var_n_mutated(int(w[1]), int(w[2]), fl(w[3])))
    if op == "sia" and len(w) == 8:
        length, scaled, rel, conf = int(w[1]), int(w[2]), fl(w[3]), fl(w[4])
        for t in w[5:8]:
            if t not in ("?", "N"):
                int(t)
        return size_is_accurate_traced(length, scaled, rel, conf)
    if op == "c2d" and len(w) == 6:
        c, k, scaled, n, pthr = fl(w[1]), int(w[2]), int(w[3]), int(w[4]), ofl(w[5])
        if k == 0 or scaled == 0:
            return "bad-op"
        return show_ci(du.containment_to_distance(c, k, scaled, n_unique_kmers=n, prob_threshold=pthr))
    if op == "c2dci" and len(w) == 9:
        c, k, scaled, n, pthr, conf = fl(w[1]), int(w[2]), int(w[3]), int(w[4]), ofl(w[5]), fl(w[6])
        if k == 0 or scaled == 0:
            return "bad-op"
        for t in w[7:9]:
            if t not in ("?", "N"):
                int(t)
        return show_ci(du.containment_to_distance(c, k, scaled, n_unique_kmers=n, prob_threshold=pthr,
                                                  estimate_ci=True, confidence=conf))
    if op == "j2d" and len(w) == 7:
        j, k, scaled, n, pthr, ethr = fl(w[1]), int(w[2]), int(w[3]), int(w[4]), ofl(w[5]), ofl(w[6])
        if k == 0 or scaled == 0:
            return "bad-op"
        return show_jac(du.jaccard_to_distance(j, k, scaled, n_unique_kmers=n, prob_threshold=pthr, err_threshold=ethr))
    if op == "res" and len(w) >= 6:
        kind = w[1]
        d, p, pthr = fl(w[2]), fl(w[3]), ofl(w[4])
        if w[5] not in ("0", "1"):
            return "bad-op"
        size = w[5] == "1"
        if kind == "ani" and len(w) == 6:
            return "exact " + show_ani(du.ANIResult(d, p, p_threshold=pthr, size_is_inaccurate=size))
        if kind == "jac" and len(w) == 8:
            return "exact " + show_jac(du.jaccardANIResult(d, p, p_threshold=pthr, size_is_inaccurate=size,
                                                jaccard_error=ofl(w[6]), je_threshold=ofl(w[7])))
        if kind == "ci" and len(w) == 8:
            return "exact " + show_ci(du.ciANIResult(d, p, p_threshold=pthr, size_is_inaccurate=size,
                                          dist_low=ofl(w[6]), dist_high=ofl(w[7])))
        return "bad-op"
    if op == "mh" and len(w) == 11:
        kind = w[1]
        len_a, len_b, common, scaled, k = (int(x) for x in w[2:7])
        for t in w[7:9]:
            if t not in ("?", "0", "1"):
                return "bad-op"
        for t in w[9:11]:
            if t != "?":
                int(t)
        if k == 0 or scaled == 0 or common > len_a or common > len_b or kind not in ("cont", "max", "avg", "jac"):
            return "bad-op"
        a, b = sketches(len_a, len_b, common, scaled, k)
        acc = f"{int(a.size_is_accurate())}{int(b.size_is_accurate())}"
        if kind in ("cont", "avg"):
            v1, v2 = a.contained_by(b), b.contained_by(a)
        elif kind == "max":
            v1, v2 = a.max_containment(b), b.max_containment(a)
        else:
            v1, v2 = a.jaccard(b), b.jaccard(a)
        head = f"acc={acc} v={bits(v1)},{bits(v2)} "
        try:
            if kind == "cont":
                return head + show_ci(a.containment_ani(b))
            if kind == "max":
                return head + show_ci(a.max_containment_ani(b))
            if kind == "jac":
                return head + show_jac(a.jaccard_ani(b))
            return head + "ok ani=" + ob(a.avg_containment_ani(b))
        except Exception as e:      # noqa: BLE001
            return head + "err " + exc_name(e)
    return "bad-op"


def main():
    out = sys.stdout
    for line in sys.stdin:
        w = line.split()
        if w and w[0] == "#":
            res = "#"
        elif not w:
            res = "bad-op"
        else:
            try:
                res = do(w)
            except (IndexError, struct.error):
                res = "bad-op"
            except ValueError as e:
                # int()/fl() on a malformed token vs. a ValueError of the code under test
                res = "bad-op" if "invalid literal" in str(e) else ("exact " if w[0] == "res" else "") + "err ValueError"
            except Exception as e:      # noqa: BLE001
                res = ("exact " if w[0] == "res" else "") + "err " + exc_name(e)
        out.write(res + "\n")
        out.flush()


if __name__ == "__main__":
    main()
