"""Real-code adapter for the `ani` stream (C17): sourmash.distance_utils and the ANI wrappers of
MinHash.  Floats are printed / read as the decimal value of their IEEE-754 bit pattern; N = None.
A `?` in place of an input that only the real code can produce (brentq's interval, size_is_accurate(),
contained_by()) is accepted: the generator uses this program as helper to fill those in."""
import atexit
import os
import struct
import subprocess
import sys
import warnings

import sourmash  # noqa: F401
from sourmash import MinHash
from sourmash import distance_utils as du
from sourmash.logging import set_quiet

set_quiet(True)
warnings.simplefilter("ignore")


def bits(x):
    return str(struct.unpack("<Q", struct.pack("<d", float(x)))[0])


def fl(s):
    return struct.unpack("<d", struct.pack("<Q", int(s)))[0]


def ofl(s):
    return None if s == "N" else fl(s)


def ob(x):
    return "N" if x is None else bits(x)


def exc_name(e):
    for cls in (TypeError, ValueError, ZeroDivisionError, OverflowError):
        if isinstance(e, cls):
            return cls.__name__
    return type(e).__name__


def show_ci(r):
    return (f"ok d={bits(r.dist)} ani={ob(r.ani)} p={bits(r.p_nothing_in_common)} px={int(r.p_exceeds_threshold)} "
            f"lo={ob(r.dist_low)} hi={ob(r.dist_high)} alo={ob(r.ani_low)} ahi={ob(r.ani_high)}")


def show_jac(r):
    return (f"ok d={bits(r.dist)} ani={ob(r.ani)} p={bits(r.p_nothing_in_common)} px={int(r.p_exceeds_threshold)} "
            f"je={bits(r.jaccard_error)} jx={int(r.je_exceeds_threshold)}")


def show_ani(r):
    return f"ok d={bits(r.dist)} ani={ob(r.ani)} p={bits(r.p_nothing_in_common)} px={int(r.p_exceeds_threshold)}"


def sketches(len_a, len_b, common, scaled, k):
    """two flat sketches with the given sizes and overlap (hash values 1.. are below every threshold used)"""
    a = MinHash(n=0, ksize=k, scaled=scaled)
    b = MinHash(n=0, ksize=k, scaled=scaled)
    a.add_many(range(1, len_a + 1))
    b.add_many(list(range(1, common + 1)) + list(range(len_a + 1, len_a + 1 + len_b - common)))
    assert len(a) == len_a and len(b) == len_b and a.count_common(b) == common
    return a, b


class BinomProxy:
    """records which scipy.stats.binom functions set_size_exact_prob calls, with which arguments"""

    def __init__(self, real):
        self.real = real
        self.calls = []

    def cdf(self, x, n, p):
        v = self.real.cdf(x, n, p)
        self.calls.append(("cdf", x, n, p, v))
        return v

    def pmf(self, x, n, p):
        v = self.real.pmf(x, n, p)
        self.calls.append(("pmf", x, n, p, v))
        return v


def size_is_accurate_traced(length, scaled, rel, conf):
    if scaled == 0:
        mh = MinHash(n=max(length, 1), ksize=21)
    else:
        mh = MinHash(n=0, ksize=21, scaled=scaled)
    mh.add_many(range(1, length + 1))
    proxy = BinomProxy(du.binom)
    du.binom = proxy
    try:
        acc = mh.size_is_accurate(relative_error=rel, confidence=conf)
    finally:
        du.binom = proxy.real
    calls = proxy.calls
    if len({(c[2], c[3]) for c in calls}) != 1:
        return "inconsistent-binomial-parameters " + repr(calls)
    vals = [c[4] for c in calls] + [None] * (3 - len(calls))
    prob = du.set_size_exact_prob(mh.unique_dataset_hashes, mh.scaled, relative_error=rel)
    # histories: the answer is a function of (sketch, relative_error, confidence) - asking again with other parameters, or
    # after the sketch has grown, must equal the answer of a fresh object
    hist = []
    for rel2, conf2 in ((rel, 0.0), (rel, 1.0), (0.5, 0.5)):
        fresh = mh.copy()
        if bool(mh.size_is_accurate(relative_error=rel2, confidence=conf2)) != bool(fresh.size_is_accurate(relative_error=rel2, confidence=conf2)):
            hist.append(f"size_is_accurate({rel2},{conf2}) asked again on the same object")
    if not mh.size_is_accurate(relative_error=rel, confidence=0.0):
        hist.append("size_is_accurate(confidence=0.0) is False")
    mh.add_many(range(length + 1, 3 * length + 50))
    f2 = MinHash(n=0, ksize=21, scaled=scaled)
    f2.add_many(range(1, 3 * length + 50))
    if bool(mh.size_is_accurate(relative_error=rel, confidence=conf)) != bool(f2.size_is_accurate(relative_error=rel, confidence=conf)):
        hist.append("size_is_accurate after the sketch has grown")
    if hist:
        return "history-differs " + " | ".join(hist)
    return (f"ok calls={','.join(c[0] + ':' + bits(c[1]) for c in calls)} vals={','.join(ob(v) for v in vals)} "
            f"n={calls[0][2]} p={bits(calls[0][3])} prob={bits(prob)} acc={int(bool(acc))}")


_native = None


def native(line):
    """forward an op to the Rust harness (`smharness ani`: executes src/core/src/ani_utils.rs)"""
    global _native
    if _native is None:
        build = os.environ.get("VERIF_BUILD") or os.path.join(
            os.path.dirname(os.path.dirname(os.path.dirname(os.path.abspath(__file__)))), ".build")
        exe = os.path.join(build, "rh_target", "release", "smharness")
        if not os.path.exists(exe):
            return "no-native-harness"
        _native = subprocess.Popen([exe, "ani"], stdin=subprocess.PIPE, stdout=subprocess.PIPE, text=True, bufsize=1)
        atexit.register(lambda: (_native.stdin.close(), _native.wait(timeout=10)))
    _native.stdin.write(line + "\n")
    _native.stdin.flush()
    return _native.stdout.readline().rstrip("\n")


# ---------------------------------------------------------------------------------------------
# comparison / result classes (sketchcomparison.py, search.py) against the MinHash-level answers


def _ci4(r):
    return f"{ob(r.ani)},{ob(r.ani_low)},{ob(r.ani_high)},{int(r.p_exceeds_threshold)}"


def _try(f):
    try:
        return f()
    except Exception as e:      # noqa: BLE001
        return "E" + exc_name(e)


def _csv_presence(result, cols):
    """write the result through its own csv.DictWriter machinery, read the row back: which ANI cells are non-empty"""
    import csv
    import io
    buf = io.StringIO()
    wr = result.init_dictwriter(buf)
    result.write(wr)
    rows = list(csv.DictReader(io.StringIO(buf.getvalue())))
    assert len(rows) == 1
    return "".join("1" if rows[0].get(c, "") != "" else "0" for c in cols), rows[0]


PF_COLS = ["query_containment_ani", "match_containment_ani", "average_containment_ani", "max_containment_ani",
           "query_containment_ani_low", "query_containment_ani_high", "match_containment_ani_low", "match_containment_ani_high"]


def classes(w):
    from sourmash import SourmashSignature
    from sourmash.sketchcomparison import FracMinHashComparison
    from sourmash.search import PrefetchResult, GatherResult, SearchResult, SearchType
    la, lb, cm, xa, xb, sa, sb, k = (int(x) for x in w[1:9])
    cs = None if w[9] == "-" else int(w[9])
    ci, conf = w[10] == "1", fl(w[11])
    if w[10] not in ("0", "1") or k == 0 or sa == 0 or sb == 0 or cm > la or cm > lb or cs == 0:
        return "bad-op"
    for t in w[12:]:
        if t not in ("?", "N") and not t.startswith("E"):
            int(t)
    if len(w) != 12 + 17:
        return "bad-op"
    cs_eff = cs if cs is not None else max(sa, sb)
    top = MinHash(n=0, ksize=k, scaled=cs_eff)._max_hash
    a = MinHash(n=0, ksize=k, scaled=sa)
    b = MinHash(n=0, ksize=k, scaled=sb)
    a.add_many(range(1, la + 1))
    b.add_many(list(range(1, cm + 1)) + list(range(la + 1, la + 1 + lb - cm)))
    # hashes that only exist at the finer resolution (dropped by the downsampling to the comparison scaled)
    if sa < cs_eff:
        a.add_many(range(top + 1, top + 1 + xa))
    if sb < cs_eff:
        b.add_many(range(top + 1 + xa, top + 1 + xa + xb))
    out = []
    # ---- reference: the MinHash-level methods on the correspondingly downsampled sketches
    try:
        ad, bd = a.downsample(scaled=cs_eff), b.downsample(scaled=cs_eff)
    except Exception as e:      # noqa: BLE001
        ad = bd = None
        out.append("ref=E" + exc_name(e))
    if ad is not None:
        assert len(ad) == la and len(bd) == lb
        kw = dict(confidence=conf, estimate_ci=ci)
        out.append(f"ref.acc={int(ad.size_is_accurate())}{int(bd.size_is_accurate())}")
        out.append("ref.c12=" + _ci4(ad.containment_ani(bd, **kw)))
        out.append("ref.c21=" + _ci4(bd.containment_ani(ad, **kw)))
        out.append("ref.mc=" + _ci4(ad.max_containment_ani(bd, **kw)))

        def jref():
            r = ad.jaccard_ani(bd)
            return f"{ob(r.ani)},{int(r.p_exceeds_threshold)},{int(r.je_exceeds_threshold)}"
        out.append("ref.j=" + _try(jref))
        out.append("ref.avg=" + ob(ad.avg_containment_ani(bd)))
    # ---- FracMinHashComparison
    mk = lambda: FracMinHashComparison(a, b, cmp_scaled=cs, threshold_bp=0, estimate_ani_ci=ci, ani_confidence=conf)   # noqa: E731
    g = lambda o, n: ob(getattr(o, n, None))        # noqa: E731

    def c12():
        c = mk(); c.estimate_ani_from_mh1_containment_in_mh2()
        return f"{g(c, 'ani_from_mh1_containment_in_mh2')},{g(c, 'ani_from_mh1_containment_in_mh2_low')},{g(c, 'ani_from_mh1_containment_in_mh2_high')},{int(c.potential_false_negative)}"

    def c21():
        c = mk(); c.estimate_ani_from_mh2_containment_in_mh1()
        return f"{g(c, 'ani_from_mh2_containment_in_mh1')},{g(c, 'ani_from_mh2_containment_in_mh1_low')},{g(c, 'ani_from_mh2_containment_in_mh1_high')},{int(c.potential_false_negative)}"

    def avgp():
        c = mk(); v = c.avg_containment_ani
        return f"{ob(v)},{int(c.potential_false_negative)}"

    def allc():
        c = mk(); c.estimate_all_containment_ani()
        return f"{g(c, 'ani_from_mh1_containment_in_mh2')},{g(c, 'ani_from_mh2_containment_in_mh1')},{g(c, 'max_containment_ani')},{int(c.potential_false_negative)}"

    def mx():
        c = mk(); c.estimate_max_containment_ani()
        return f"{g(c, 'max_containment_ani')},{g(c, 'max_containment_ani_low')},{g(c, 'max_containment_ani_high')},{int(c.potential_false_negative)}"

    def jc():
        c = mk(); c.estimate_jaccard_ani()
        return f"{g(c, 'jaccard_ani')},{int(c.potential_false_negative)},{int(c.jaccard_ani_untrustworthy)}"

    out.append("c.c12=" + _try(c12))
    out.append("c.c21=" + _try(c21))
    out.append("c.avgp=" + _try(avgp))
    out.append("c.all=" + _try(allc))
    out.append("c.mx=" + _try(mx))
    out.append("c.j=" + _try(jc))
    out.append("c.sinacc=" + _try(lambda: str(int(mk().size_may_be_inaccurate))))
    # ---- PrefetchResult / GatherResult / SearchResult
    qs, ms = SourmashSignature(a, name="q"), SourmashSignature(b, name="m")
    common_kw = dict(cmp_scaled=cs, estimate_ani_ci=ci, ani_confidence=conf)

    def fields(r, getdict):
        vals = ",".join(g(r, c) for c in PF_COLS[:4]) + f",{int(r.potential_false_negative)}," + ",".join(g(r, c) for c in PF_COLS[4:])
        pres, _ = _csv_presence(r, PF_COLS)
        d = getdict(r)
        dp = "".join("1" if c in d else "0" for c in PF_COLS)
        return f"{vals},{pres},{dp}"

    out.append("p=" + _try(lambda: fields(PrefetchResult(qs, ms, threshold_bp=0, **common_kw), lambda r: r.prefetchresultdict)))

    def gather():
        r = GatherResult(qs, ms, threshold_bp=0, gather_querymh=a.downsample(scaled=cs_eff).flatten() if cs is not None else a.flatten(),
                         gather_result_rank=0, total_weighted_hashes=len(a), orig_query_len=len(a),
                         orig_query_abunds={h: 1 for h in a.hashes}, **common_kw)
        return fields(r, lambda r: r.gatherresultdict)
    out.append("g=" + _try(gather))

    def search(st, sim):
        r = SearchResult(qs, ms, similarity=sim(), searchtype=st, threshold_bp=0, **common_kw)
        pres, _ = _csv_presence(r, ["ani", "ani_low", "ani_high"])
        return f"{g(r, 'ani')},{g(r, 'ani_low')},{g(r, 'ani_high')},{int(r.potential_false_negative)},{pres}"
    views = []          # anything readable two ways must agree; differences are appended to the line (the model has no such field)

    def view(name, got, want):
        if got != want:
            views.append(f"{name}:{got}!={want}")

    try:
        if ad is not None:
            c = mk()
            view("cmp.avg_containment", bits(c.avg_containment), bits(ad.avg_containment(bd)))
            view("cmp.max_containment", bits(c.max_containment), bits(ad.max_containment(bd)))
            view("cmp.mh1_containment_in_mh2", bits(c.mh1_containment_in_mh2), bits(ad.contained_by(bd)))
            view("cmp.jaccard", bits(c.jaccard), bits(ad.jaccard(bd)))
            view("cmp.pass_threshold(0)", str(c.pass_threshold), "True")
            c2 = FracMinHashComparison(a, b, cmp_scaled=cs, threshold_bp=(cm + 1) * cs_eff)
            view("cmp.pass_threshold(above overlap)", str(c2.pass_threshold), "False")
            # reading the properties twice, and in the other order, changes nothing
            c3 = mk(); c3.estimate_all_containment_ani(); first = (c3.avg_containment_ani, c3.max_containment_ani)
            c3.estimate_max_containment_ani(); c3.estimate_all_containment_ani()
            view("estimate_all twice / after estimate_max", str((c3.avg_containment_ani, c3.max_containment_ani)), str(first))
            pr = PrefetchResult(qs, ms, threshold_bp=0, **common_kw)
            d1 = pr.prefetchresultdict
            d2 = pr.prefetchresultdict
            view("prefetchresultdict twice", str({k_: d2.get(k_) for k_ in PF_COLS}), str({k_: d1.get(k_) for k_ in PF_COLS}))
            for col in PF_COLS:
                view("prefetchresultdict[" + col + "]", ob(d1.get(col)), g(pr, col))
            if cs is not None and cm > 0:
                gr = GatherResult(qs, ms, threshold_bp=0, gather_querymh=a.downsample(scaled=cs_eff).flatten(), gather_result_rank=0,
                                  total_weighted_hashes=len(a), orig_query_len=len(a), orig_query_abunds={h: 1 for h in a.hashes}, **common_kw)
                dg, dp = gr.gatherresultdict, gr.prefetchresultdict
                for col in PF_COLS:
                    view("gatherresultdict[" + col + "]", ob(dg.get(col)), g(gr, col))
                    view("GatherResult.prefetchresultdict[" + col + "]", ob(dp.get(col)), g(gr, col))
            for st_ in (SearchType.CONTAINMENT, SearchType.MAX_CONTAINMENT, SearchType.JACCARD):
                sim = {SearchType.CONTAINMENT: ad.contained_by(bd), SearchType.MAX_CONTAINMENT: ad.max_containment(bd), SearchType.JACCARD: ad.jaccard(bd)}[st_]
                try:
                    sr = SearchResult(qs, ms, similarity=sim, searchtype=st_, threshold_bp=0, **common_kw)
                except ValueError:
                    continue
                view(f"SearchResult({st_.name}).resultdict[ani]", ob(sr.resultdict.get("ani")), g(sr, "ani"))
            # the database layer: the same results through LinearIndex + search / prefetch / gather (cmp_scaled is not a parameter there)
            if cs is None and cm > 0:
                from sourmash.index import LinearIndex
                from sourmash.search import search_databases_with_flat_query, prefetch_database, GatherDatabases
                idx_ = LinearIndex([ms.to_frozen()], filename="db")
                qs_m, qs = qs, qs.to_frozen()      # Index.prefetch / counter_gather need a frozen query (`query.update()`)
                for st_, kw_ in ((SearchType.JACCARD, {}), (SearchType.CONTAINMENT, {"do_containment": True}),
                                 (SearchType.MAX_CONTAINMENT, {"do_max_containment": True})):
                    try:
                        direct = SearchResult(qs, ms, similarity={SearchType.CONTAINMENT: ad.contained_by(bd), SearchType.MAX_CONTAINMENT: ad.max_containment(bd),
                                                                  SearchType.JACCARD: ad.jaccard(bd)}[st_], searchtype=st_, estimate_ani_ci=ci and st_ != SearchType.JACCARD)
                        want = f"{g(direct, 'ani')},{g(direct, 'ani_low')},{g(direct, 'ani_high')}"
                    except Exception as e:      # noqa: BLE001
                        want = "E" + exc_name(e)
                    try:
                        res_ = search_databases_with_flat_query(qs, [idx_], threshold=0.0, best_only=False, unload_data=False, estimate_ani_ci=ci, **kw_)
                        got = "no-match" if not res_ else f"{g(res_[0], 'ani')},{g(res_[0], 'ani_low')},{g(res_[0], 'ani_high')}"
                    except Exception as e:      # noqa: BLE001
                        got = "E" + exc_name(e)
                    if got != "no-match":
                        view(f"search_databases_with_flat_query({st_.name})", got, want)
                want = ",".join(g(PrefetchResult(qs, ms, threshold_bp=0, estimate_ani_ci=ci), col) for col in PF_COLS)
                pl = list(prefetch_database(qs, idx_, 0, estimate_ani_ci=ci))
                if pl:
                    view("prefetch_database", ",".join(g(pl[0], col) for col in PF_COLS), want)
                if sa == sb:
                    gd = GatherDatabases(qs, [idx_.counter_gather(qs, 0)], threshold_bp=0, estimate_ani_ci=ci)
                    gl = list(gd)
                    if gl:
                        view("GatherDatabases", ",".join(g(gl[0], col) for col in PF_COLS), want)
    except Exception as e:      # noqa: BLE001
        views.append(f"views-raised:{exc_name(e)}:{str(e)[:80].replace(' ', '_')}")
    out.append("s.c=" + _try(lambda: search(SearchType.CONTAINMENT, lambda: ad.contained_by(bd) if ad is not None else 0.5)))
    out.append("s.m=" + _try(lambda: search(SearchType.MAX_CONTAINMENT, lambda: ad.max_containment(bd) if ad is not None else 0.5)))
    out.append("s.j=" + _try(lambda: search(SearchType.JACCARD, lambda: ad.jaccard(bd) if ad is not None else 0.5)))
    return "ok " + " ".join(out) + ((" views=DIFF:" + "|".join(views)[:600]) if views else "")


def classes_num(w):
    """num sketches: ANI does not apply"""
    from sourmash import SourmashSignature
    from sourmash.sketchcomparison import NumMinHashComparison
    from sourmash.search import SearchResult, SearchType
    la, lb, cm, num, k = (int(x) for x in w[1:6])
    if num == 0 or k == 0 or cm > la or cm > lb:
        return "bad-op"
    a = MinHash(n=num, ksize=k)
    b = MinHash(n=num, ksize=k)
    a.add_many(range(1, la + 1))
    b.add_many(list(range(1, cm + 1)) + list(range(la + 1, la + 1 + lb - cm)))

    def jc():
        c = NumMinHashComparison(a, b); c.estimate_jaccard_ani()
        return ob(c.jaccard_ani)

    def sr():
        r = SearchResult(SourmashSignature(a, name="q"), SourmashSignature(b, name="m"), similarity=a.jaccard(b), searchtype=SearchType.JACCARD)
        pres, _ = _csv_presence(r, ["ani"])
        return f"{ob(getattr(r, 'ani', None))},{pres}"
    return f"ok c.j={_try(jc)} c.sinacc={int(NumMinHashComparison(a, b).size_may_be_inaccurate)} s.j={_try(sr)}"


def py_gather(lq, lm, cm, scaled, k, rem, ci, conf):
    """the Python twin of calculate_gather_stats' ANI fields: search.GatherResult on the same three sketches"""
    from sourmash import SourmashSignature
    from sourmash.search import GatherResult
    a = MinHash(n=0, ksize=k, scaled=scaled)
    r = MinHash(n=0, ksize=k, scaled=scaled)
    m = MinHash(n=0, ksize=k, scaled=scaled)
    a.add_many(range(1, lq + 1))
    r.add_many(range(rem + 1, lq + 1))
    m.add_many(list(range(1, cm + 1)) + list(range(lq + 1, lq + 1 + lm - cm)))
    try:
        g = GatherResult(SourmashSignature(a, name="q"), SourmashSignature(m, name="m"), threshold_bp=0, cmp_scaled=scaled,
                         gather_querymh=r, gather_result_rank=0, total_weighted_hashes=lq, orig_query_len=lq,
                         orig_query_abunds={h: 1 for h in a.hashes}, estimate_ani_ci=bool(ci),
                         ani_confidence=0.95 if conf is None else conf)
    except Exception as e:      # noqa: BLE001
        sys.stderr.write(f"py_gather raised {exc_name(e)}: {e}\n")
        return ",".join(["N"] * 8)
    return ",".join(ob(getattr(g, n, None)) for n in (
        "query_containment_ani", "match_containment_ani", "average_containment_ani", "max_containment_ani",
        "query_containment_ani_low", "query_containment_ani_high", "match_containment_ani_low", "match_containment_ani_high"))


# ---------------------------------------------------------------------------------------------
# the compare-level ANI entry points (sourmash.compare): "withheld" must become exactly 0.0, never a number

_tmpdir = None


def _compare_tmp():
    """compare_parallel's to_memmap() leaves files in the temp dir: keep them under <build>/tmp and remove them at exit"""
    global _tmpdir
    if _tmpdir is None:
        import shutil
        import tempfile
        build = os.environ.get("VERIF_BUILD") or os.path.join(
            os.path.dirname(os.path.dirname(os.path.dirname(os.path.abspath(__file__)))), ".build")
        os.makedirs(os.path.join(build, "tmp"), exist_ok=True)
        _tmpdir = tempfile.mkdtemp(prefix="ani-compare-", dir=os.path.join(build, "tmp"))
        tempfile.tempdir = _tmpdir
        pid = os.getpid()
        atexit.register(lambda: shutil.rmtree(_tmpdir, ignore_errors=True) if os.getpid() == pid else None)


def _close_leaked_pool(exc):
    import multiprocessing.pool
    tb = exc.__traceback__
    while tb is not None:
        pool = tb.tb_frame.f_locals.get("pool")
        if isinstance(pool, multiprocessing.pool.Pool):
            pool.close()
            pool.join()
        tb = tb.tb_next


def compare_ani(w):
    from sourmash import SourmashSignature
    from sourmash import compare as smc
    la, lb, cm, scaled, k = (int(x) for x in w[1:6])
    if w[6] not in ("0", "1") or k == 0 or scaled == 0 or cm > la or cm > lb or len(w) != 13:
        return "bad-op"
    for t in w[7:]:
        if t not in ("?", "N") and not t.startswith("E"):
            int(t)
    _compare_tmp()
    a, b = sketches(la, lb, cm, scaled, k)
    sigs = [SourmashSignature(a, name="a"), SourmashSignature(b, name="b")]
    out = [f"ref.acc={int(a.size_is_accurate())}{int(b.size_is_accurate())}",
           "ref.c12=" + ob(a.containment_ani(b).ani), "ref.c21=" + ob(b.containment_ani(a).ani),
           "ref.mc=" + ob(a.max_containment_ani(b).ani), "ref.j=" + _try(lambda: ob(a.jaccard_ani(b).ani))]

    def run(f):
        try:
            M = f()
            return ",".join(bits(M[i][j]) for i, j in ((0, 1), (1, 0)))
        except Exception as e:      # noqa: BLE001
            _close_leaked_pool(e)
            return "E" + exc_name(e)
    out.append("ser=" + run(lambda: smc.compare_all_pairs(sigs, False, downsample=False, n_jobs=None, return_ani=True)))
    out.append("ser1=" + run(lambda: smc.compare_serial(sigs, False, downsample=False, return_ani=True)))
    out.append("par=" + (run(lambda: smc.compare_all_pairs(sigs, False, downsample=False, n_jobs=2, return_ani=True)) if w[6] == "1" else "-"))
    out.append("cont=" + run(lambda: smc.compare_serial_containment(sigs, return_ani=True)))
    out.append("max=" + run(lambda: smc.compare_serial_max_containment(sigs, return_ani=True)))
    out.append("avg=" + run(lambda: smc.compare_serial_avg_containment(sigs, return_ani=True)))
    return "ok " + " ".join(out)


def do(w):
    op = w[0]
    if op == "cmpani" and len(w) >= 7:
        return compare_ani(w)
    if op == "cls" and len(w) >= 12:
        return classes(w)
    if op == "clsnum" and len(w) == 6:
        return classes_num(w)
    if op == "nat" and len(w) >= 3:
        if w[1] in ("ci", "inc-ci") and len(w) == 9:
            for t in w[7:9]:
                if t not in ("?", "N"):
                    int(t)
            return native(" ".join(w[:7]))
        if w[1] == "probit" and len(w) == 4:
            if w[3] != "?":
                int(w[3])
            return native(" ".join(w[:3]))
        if w[1] in ("ci", "inc-ci", "probit"):
            return "bad-op"
        if w[1] == "gstats":
            if len(w) != 22:
                return "bad-op"
            for t in w[10:]:
                if t not in ("?", "N"):
                    int(t)
            nat_line = native(" ".join(w[:10]))
            if not nat_line.startswith("ok "):
                return nat_line
            return nat_line + " py=" + py_gather(*(int(x) for x in w[2:9]), ofl(w[9]))
        return native(" ".join(w))
    if op == "pyvar" and len(w) == 4:
        return "ok v=" + bits(du.var_n_mutated(int(w[1]), int(w[2]), fl(w[3])))
    if op == "sia" and len(w) == 8:
        length, scaled, rel, conf = int(w[1]), int(w[2]), fl(w[3]), fl(w[4])
        for t in w[5:8]:
            if t not in ("?", "N"):
                int(t)
        return size_is_accurate_traced(length, scaled, rel, conf)
    if op == "c2d" and len(w) == 6:
        c, k, scaled, n, pthr = fl(w[1]), int(w[2]), int(w[3]), int(w[4]), ofl(w[5])
        if k == 0 or scaled == 0:
            return "bad-op"
        return agree("c2d", [
            ("n_unique_kmers=", lambda: show_ci(du.containment_to_distance(c, k, scaled, n_unique_kmers=n, prob_threshold=pthr))),
            ("sequence_len_bp=", lambda: show_ci(du.containment_to_distance(c, k, scaled, sequence_len_bp=n + k - 1, prob_threshold=pthr))),
            ("both given", lambda: show_ci(du.containment_to_distance(c, k, scaled, n_unique_kmers=n, sequence_len_bp=10 ** 9, prob_threshold=pthr))),
            ("estimate_ci=False, confidence=0.5", lambda: show_ci(du.containment_to_distance(
                c, k, scaled, n_unique_kmers=n, prob_threshold=pthr, estimate_ci=False, confidence=0.5))),
        ])
    if op == "c2dci" and len(w) == 9:
        c, k, scaled, n, pthr, conf = fl(w[1]), int(w[2]), int(w[3]), int(w[4]), ofl(w[5]), fl(w[6])
        if k == 0 or scaled == 0:
            return "bad-op"
        for t in w[7:9]:
            if t not in ("?", "N"):
                int(t)
        return show_ci(du.containment_to_distance(c, k, scaled, n_unique_kmers=n, prob_threshold=pthr,
                                                  estimate_ci=True, confidence=conf))
    if op == "j2d" and len(w) == 7:
        j, k, scaled, n, pthr, ethr = fl(w[1]), int(w[2]), int(w[3]), int(w[4]), ofl(w[5]), ofl(w[6])
        if k == 0 or scaled == 0:
            return "bad-op"
        return agree("j2d", [
            ("n_unique_kmers=", lambda: show_jac(du.jaccard_to_distance(j, k, scaled, n_unique_kmers=n, prob_threshold=pthr, err_threshold=ethr))),
            ("sequence_len_bp=", lambda: show_jac(du.jaccard_to_distance(j, k, scaled, sequence_len_bp=n + k - 1, prob_threshold=pthr, err_threshold=ethr))),
        ])
    if op == "res" and len(w) >= 6:
        kind = w[1]
        d, p, pthr = fl(w[2]), fl(w[3]), ofl(w[4])
        if w[5] not in ("0", "1"):
            return "bad-op"
        size = w[5] == "1"
        if kind == "ani" and len(w) == 6:
            return "exact " + show_ani(du.ANIResult(d, p, p_threshold=pthr, size_is_inaccurate=size))
        if kind == "jac" and len(w) == 8:
            return "exact " + show_jac(du.jaccardANIResult(d, p, p_threshold=pthr, size_is_inaccurate=size,
                                                jaccard_error=ofl(w[6]), je_threshold=ofl(w[7])))
        if kind == "ci" and len(w) == 8:
            return "exact " + show_ci(du.ciANIResult(d, p, p_threshold=pthr, size_is_inaccurate=size,
                                          dist_low=ofl(w[6]), dist_high=ofl(w[7])))
        return "bad-op"
    if op == "mh" and len(w) == 11:
        kind = w[1]
        len_a, len_b, common, scaled, k = (int(x) for x in w[2:7])
        for t in w[7:9]:
            if t not in ("?", "0", "1"):
                return "bad-op"
        for t in w[9:11]:
            if t != "?":
                int(t)
        if k == 0 or scaled == 0 or common > len_a or common > len_b or kind not in ("cont", "max", "avg", "jac"):
            return "bad-op"
        a, b = sketches(len_a, len_b, common, scaled, k)
        acc = f"{int(a.size_is_accurate())}{int(b.size_is_accurate())}"
        if kind in ("cont", "avg"):
            v1, v2 = a.contained_by(b), b.contained_by(a)
        elif kind == "max":
            v1, v2 = a.max_containment(b), b.max_containment(a)
        else:
            v1, v2 = a.jaccard(b), b.jaccard(a)
        head = f"acc={acc} v={bits(v1)},{bits(v2)} "
        # ONE estimate, several spellings (sketch level / signature level, defaults / the documented values spelled out,
        # pre-computed containment or Jaccard handed in, downsample=True on equal scaled, the module-level function):
        # the route that answers alternates under a per-case counter the model does not see; all of them must agree
        routes = ani_routes(kind, a, b, v1)
        names = list(routes)
        ROUTE[1] += 1
        if ROUTE[1] % 2:          # every other op: only the reference spelling and the one whose turn it is (cost)
            turn = names[(ROUTE[0] + 1) % len(names)]
            names = [names[0]] + ([turn] if turn != names[0] else [])
        outs = {}
        for nm in names:
            try:
                outs[nm] = routes[nm]()
            except Exception as e:      # noqa: BLE001
                outs[nm] = "err " + exc_name(e)
        ROUTE[0] += 1
        chosen = names[ROUTE[0] % len(names)]
        differ = [nm for nm in names if outs[nm] != outs[names[0]]]
        if kind in ("cont", "max") and (ROUTE[0] % 4 == 0):
            # non-default options must be forwarded by the signature-level wrappers too
            from sourmash import SourmashSignature
            sa_, sb_ = SourmashSignature(a, name="a"), SourmashSignature(b, name="b")
            meth = "containment_ani" if kind == "cont" else "max_containment_ani"
            o1 = _try(lambda: show_ci(getattr(a, meth)(b, estimate_ci=True, confidence=0.9)))
            o2 = _try(lambda: show_ci(getattr(sa_, meth)(sb_, estimate_ci=True, confidence=0.9)))
            if o1 != o2:
                differ.append(f"SourmashSignature.{meth}(estimate_ci=True,confidence=0.9)")
        return head + outs[chosen] + " routes=" + ("ok" if not differ else ",".join(differ) + "!=" + names[0])
    return "bad-op"


def agree(what, routes):
    """one operation, several spellings: the answering spelling alternates per case; a spelling that answers differently
    replaces the whole line by `routes-differ …` (the model has one operation, the oracle reports it)"""
    outs = []
    for nm, f in routes:
        try:
            outs.append(f())
        except Exception as e:      # noqa: BLE001
            outs.append("err " + exc_name(e))
    ROUTE[0] += 1
    differ = [routes[i][0] for i in range(len(routes)) if outs[i] != outs[0]]
    if differ:
        return f"routes-differ {what}: " + ",".join(differ) + " != " + routes[0][0] + f" :: {outs[0][:60]} :: {outs[[r[0] for r in routes].index(differ[0])][:60]}"
    return outs[ROUTE[0] % len(outs)]


ROUTE = [0, 0]
P_THR, E_THR, CONF = 1e-3, 1e-4, 0.95        # the documented defaults (distance_utils.py / minhash.py docstrings and signatures)


def ani_routes(kind, a, b, v1):
    from sourmash import SourmashSignature
    sa, sb = SourmashSignature(a, name="a"), SourmashSignature(b, name="b")
    fa, fb = a.to_frozen(), b.to_frozen()
    if kind == "cont":
        return {
            "MinHash.containment_ani()": lambda: show_ci(a.containment_ani(b)),
            "MinHash.containment_ani(defaults spelled out)": lambda: show_ci(a.containment_ani(
                b, downsample=False, containment=None, confidence=CONF, estimate_ci=False, prob_threshold=P_THR)),
            "MinHash.containment_ani(containment=contained_by)": lambda: show_ci(a.containment_ani(b, containment=v1)),
            "MinHash.containment_ani(downsample=True)": lambda: show_ci(a.containment_ani(b, downsample=True)),
            "FrozenMinHash.containment_ani()": lambda: show_ci(fa.containment_ani(fb)),
            "SourmashSignature.containment_ani()": lambda: show_ci(sa.containment_ani(sb)),
            "SourmashSignature.containment_ani(defaults spelled out)": lambda: show_ci(sa.containment_ani(
                sb, downsample=False, containment=None, confidence=CONF, estimate_ci=False)),
        }
    if kind == "max":
        return {
            "MinHash.max_containment_ani()": lambda: show_ci(a.max_containment_ani(b)),
            "MinHash.max_containment_ani(defaults spelled out)": lambda: show_ci(a.max_containment_ani(
                b, downsample=False, max_containment=None, confidence=CONF, estimate_ci=False, prob_threshold=P_THR)),
            "MinHash.max_containment_ani(max_containment=given)": lambda: show_ci(a.max_containment_ani(b, max_containment=v1)),
            "MinHash.max_containment_ani(downsample=True)": lambda: show_ci(a.max_containment_ani(b, downsample=True)),
            "SourmashSignature.max_containment_ani()": lambda: show_ci(sa.max_containment_ani(sb)),
            "SourmashSignature.max_containment_ani(defaults spelled out)": lambda: show_ci(sa.max_containment_ani(
                sb, downsample=False, max_containment=None, confidence=CONF, estimate_ci=False)),
        }
    if kind == "jac":
        def module_level():
            r = du.jaccard_to_distance(v1, a.ksize, a.scaled, n_unique_kmers=round((len(a) + len(b)) / 2 * a.scaled))
            if not a.size_is_accurate() or not b.size_is_accurate():
                r.size_is_inaccurate = True
            return show_jac(r)
        return {
            "MinHash.jaccard_ani()": lambda: show_jac(a.jaccard_ani(b)),
            "MinHash.jaccard_ani(defaults spelled out)": lambda: show_jac(a.jaccard_ani(
                b, downsample=False, jaccard=None, prob_threshold=P_THR, err_threshold=E_THR)),
            "MinHash.jaccard_ani(jaccard=given)": lambda: show_jac(a.jaccard_ani(b, jaccard=v1)),
            "MinHash.jaccard_ani(downsample=True)": lambda: show_jac(a.jaccard_ani(b, downsample=True)),
            "FrozenMinHash.jaccard_ani()": lambda: show_jac(fa.jaccard_ani(fb)),
            "SourmashSignature.jaccard_ani()": lambda: show_jac(sa.jaccard_ani(sb)),
            "SourmashSignature.jaccard_ani(defaults spelled out)": lambda: show_jac(sa.jaccard_ani(
                sb, downsample=False, jaccard=None, prob_threshold=P_THR, err_threshold=E_THR)),
            "jaccard_to_distance() + size flag": module_level,
        }
    return {
        "MinHash.avg_containment_ani()": lambda: "ok ani=" + ob(a.avg_containment_ani(b)),
        "MinHash.avg_containment_ani(defaults spelled out)": lambda: "ok ani=" + ob(a.avg_containment_ani(b, downsample=False, prob_threshold=P_THR)),
        "MinHash.avg_containment_ani(downsample=True)": lambda: "ok ani=" + ob(a.avg_containment_ani(b, downsample=True)),
        "SourmashSignature.avg_containment_ani()": lambda: "ok ani=" + ob(sa.avg_containment_ani(sb)),
        "SourmashSignature.avg_containment_ani(downsample=False)": lambda: "ok ani=" + ob(sa.avg_containment_ani(sb, downsample=False)),
        "mean of the two containment_ani": lambda: "ok ani=" + ob(
            None if a.containment_ani(b).ani is None or b.containment_ani(a).ani is None else (a.containment_ani(b).ani + b.containment_ani(a).ani) / 2),
    }


def main():
    out = sys.stdout
    for line in sys.stdin:
        w = line.split()
        if w and w[0] == "#":
            ROUTE[0] = ROUTE[1] = 0
            res = "#"
        elif not w:
            res = "bad-op"
        else:
            try:
                res = do(w)
            except (IndexError, struct.error):
                res = "bad-op"
            except ValueError as e:
                # int()/fl() on a malformed token vs. a ValueError of the code under test
                res = "bad-op" if "invalid literal" in str(e) else ("exact " if w[0] == "res" else "") + "err ValueError"
            except Exception as e:      # noqa: BLE001
                res = ("exact " if w[0] == "res" else "") + "err " + exc_name(e)
        out.write(res + "\n")
        out.flush()


if __name__ == "__main__":
    main()
