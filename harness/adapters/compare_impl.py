"""Real-code adapter for the `compare` stream (C16): builds signatures, computes pairwise
tables through the public SourmashSignature API, runs the matrix builders of
sourmash.compare (serial / parallel / all_pairs / containment / max / avg), and prints
matrices as IEEE-754 bit patterns (decimal), so that comparison is exact.

The same program serves the generator as table helper: a `tab <kind> <ds> ?` line is
answered with the computed table (the generator pastes it into the case)."""
import atexit
import gc
import multiprocessing
import multiprocessing.pool
import os
import shutil
import signal
import struct
import sys
import tempfile

VERIF = os.path.dirname(os.path.dirname(os.path.dirname(os.path.abspath(__file__))))
_tmp_root = os.path.join(os.environ.get("VERIF_BUILD", os.path.join(VERIF, ".build")), "tmp")
os.makedirs(_tmp_root, exist_ok=True)
_tmp = tempfile.mkdtemp(prefix="compare-", dir=_tmp_root)
tempfile.tempdir = _tmp          # compare_parallel's to_memmap() leaves its files behind
_main_pid = os.getpid()


def _cleanup():
    if os.getpid() == _main_pid:
        shutil.rmtree(_tmp, ignore_errors=True)


atexit.register(_cleanup)

import sourmash  # noqa: E402
from sourmash import MinHash, SourmashSignature  # noqa: E402
from sourmash import compare as smc  # noqa: E402
from sourmash.logging import set_quiet  # noqa: E402

set_quiet(True)


def bits(x):
    return str(struct.unpack("<Q", struct.pack("<d", float(x)))[0])


def exc_name(e):
    for cls in (TypeError, RuntimeError, ValueError, AssertionError, OverflowError, ZeroDivisionError, IndexError):
        if isinstance(e, cls):
            return cls.__name__
    return type(e).__name__


def pairwise(kind, ds, a, b):
    """receiver a, argument b"""
    ds = bool(ds)
    if kind == "sim0":
        return a.similarity(b, ignore_abundance=False, downsample=ds)
    if kind == "sim1":
        return a.similarity(b, ignore_abundance=True, downsample=ds)
    if kind == "jani":
        return a.jaccard_ani(b, downsample=ds).ani
    if kind == "cont":
        return a.contained_by(b, downsample=ds)
    if kind == "cani":
        return a.containment_ani(b, downsample=ds).ani
    if kind == "maxc":
        return a.max_containment(b, downsample=ds)
    if kind == "maxani":
        return a.max_containment_ani(b, downsample=ds).ani
    if kind == "avgc":
        return a.avg_containment(b, downsample=ds)
    if kind == "avgani":
        return a.avg_containment_ani(b, downsample=ds)
    raise KeyError(kind)


KINDS = ("sim0", "sim1", "jani", "cont", "cani", "maxc", "maxani", "avgc", "avgani")
FUNC_KINDS = {
    "serial": ("sim0", "sim1", "jani"), "parallel": ("sim0", "sim1", "jani"), "allpairs": ("sim0", "sim1", "jani"),
    "containment": ("cont", "cani"), "max": ("maxc", "maxani"), "avg": ("avgc", "avgani"),
}


ROUTE = [0]         # per-case counter the model does not see (reset at `#`): which spelling of an operation answers


def pairwise_routes(kind, ds, a, b):
    """the same pairwise value through the other spellings the API offers: sketch level instead of signature level,
    frozen copies, positional instead of keyword arguments, jaccard() for ignore_abundance=True"""
    ds = bool(ds)
    ma, mb = a.minhash, b.minhash
    fa, fb = a.to_frozen(), b.to_frozen()
    r = [lambda: pairwise(kind, ds, a, b), lambda: pairwise(kind, ds, fa, fb)]
    if kind == "sim0":
        r += [lambda: ma.similarity(mb, ignore_abundance=False, downsample=ds), lambda: a.similarity(b, False, ds)]
    elif kind == "sim1":
        r += [lambda: ma.similarity(mb, ignore_abundance=True, downsample=ds), lambda: ma.jaccard(mb, downsample=ds)]
        if not ds:
            r.append(lambda: a.jaccard(b))
    elif kind == "jani":
        r += [lambda: ma.jaccard_ani(mb, downsample=ds).ani, lambda: a.jaccard_ani(b, downsample=ds, prob_threshold=1e-3, err_threshold=1e-4).ani]
    elif kind == "cont":
        r += [lambda: ma.contained_by(mb, downsample=ds), lambda: a.contained_by(b, ds)]
    elif kind == "cani":
        r += [lambda: ma.containment_ani(mb, downsample=ds).ani, lambda: a.containment_ani(b, downsample=ds, confidence=0.95, estimate_ci=False).ani]
    elif kind == "maxc":
        r += [lambda: ma.max_containment(mb, downsample=ds), lambda: a.max_containment(b, ds)]
    elif kind == "maxani":
        r += [lambda: ma.max_containment_ani(mb, downsample=ds).ani]
    elif kind == "avgc":
        r += [lambda: ma.avg_containment(mb, downsample=ds)]
    elif kind == "avgani":
        r += [lambda: ma.avg_containment_ani(mb, downsample=ds)]
    return r


def _tok(f):
    try:
        v = f()
        return "N" if v is None else bits(v)
    except Exception as e:      # noqa: BLE001
        return "E" + exc_name(e)


def table(sigs, kind, ds):
    """every third cell is evaluated through ALL spellings (they must agree: `ROUTES-DIFFER` otherwise), the others through
    the spelling whose turn it is"""
    toks = []
    for i, a in enumerate(sigs):
        for j, b in enumerate(sigs):
            ROUTE[0] += 1
            routes = pairwise_routes(kind, ds, a, b)
            if (i + j + ROUTE[0]) % 3 == 0:
                vals = [_tok(f) for f in routes]
                toks.append(vals[0] if len(set(vals)) == 1 else "ROUTES-DIFFER(" + "/".join(vals) + ")")
            else:
                toks.append(_tok(routes[ROUTE[0] % len(routes)]))
    return toks


def matrix_views(M, m, symmetric):
    """whatever can be read about the returned matrix in two ways must agree: element access spellings, a copy, the
    np.save / np.load round trip `sourmash compare -o` relies on, the transpose of a symmetric measure"""
    import io
    import numpy as np
    ref = [bits(M[i][j]) for i in range(m) for j in range(m)]
    diff = []

    def same(name, vals):
        if vals != ref:
            diff.append(name)
    same("M[i, j]", [bits(M[i, j]) for i in range(m) for j in range(m)])
    same("M.tolist()", [bits(x) for row in M.tolist() for x in row])
    same("numpy.array(M)", [bits(x) for x in np.array(M).flatten()])
    buf = io.BytesIO()
    np.save(buf, M)
    buf.seek(0)
    same("numpy.load(numpy.save(M))", [bits(x) for x in np.load(buf).flatten()])
    if symmetric:
        same("M.T", [bits(M.T[i][j]) for i in range(m) for j in range(m)])
    same("second read", [bits(M[i][j]) for i in range(m) for j in range(m)])
    return diff


def run_compare(func, kind, ds, jobs, siglist):
    ds = bool(ds)
    ani = kind in ("jani", "cani", "maxani", "avgani")
    ia = kind == "sim1"
    ROUTE[0] += 1
    alt = ROUTE[0] % 2 == 1        # alternate spellings: keyword / positional arguments, list / tuple of signatures
    if func == "serial":
        if alt:
            return smc.compare_serial(tuple(siglist), ignore_abundance=ia, downsample=ds, return_ani=ani)
        return smc.compare_serial(siglist, ia, downsample=ds, return_ani=ani)
    if func == "parallel":
        if alt:
            return smc.compare_parallel(siglist=siglist, ignore_abundance=ia, downsample=ds, n_jobs=jobs, return_ani=ani)
        return smc.compare_parallel(siglist, ia, ds, jobs, return_ani=ani)
    if func == "allpairs":
        if alt:
            return smc.compare_all_pairs(siglist, ia, ds, jobs, ani)
        return smc.compare_all_pairs(siglist, ia, downsample=ds, n_jobs=jobs, return_ani=ani)
    if func == "containment":
        return smc.compare_serial_containment(siglist, downsample=ds, return_ani=ani)
    if func == "max":
        return smc.compare_serial_max_containment(siglist, downsample=ds, return_ani=ani)
    if func == "avg":
        return smc.compare_serial_avg_containment(siglist, downsample=ds, return_ani=ani)
    raise KeyError(func)


def reap(exc):
    """an exception inside compare_parallel leaves its Pool open (never closed / joined).  Shut it down
    gracefully (close + join: the workers finish the remaining rows): Pool.terminate() can deadlock when a
    worker is killed while it holds the result queue's lock, and so can finalisation by the garbage collector.
    The pool is the local `pool` of the compare_parallel frame in the traceback."""
    tb = exc.__traceback__
    while tb is not None:
        pool = tb.tb_frame.f_locals.get("pool")
        if isinstance(pool, multiprocessing.pool.Pool):
            pool.close()
            pool.join()
        tb = tb.tb_next


_dbg = None
if os.environ.get("VERIF_C16_DEBUG"):
    import faulthandler
    _dbg = open(os.path.join(os.environ["VERIF_C16_DEBUG"], f"tb-{os.getpid()}.txt"), "w")


class Hang(Exception):
    pass


def _on_alarm(signum, frame):
    raise Hang("compare did not return within 300 s")


def main():
    signal.signal(signal.SIGALRM, _on_alarm)
    sigs = []
    tabs = set()
    kept = []       # every matrix object a builder handed out in this case, UNCOPIED, with the values it had at that moment
    out = sys.stdout
    for line in sys.stdin:
        w = line.split()
        res = "bad-op"
        try:
            if not w:
                pass
            elif w[0] == "#":
                sigs = []
                tabs = set()
                kept = []
                ROUTE[0] = 0
                res = "#"
            elif w[0] == "sig" and len(w) == 6:
                idx, scaled, track, ksize = (int(x) for x in w[1:5])
                if idx == len(sigs):
                    mh = MinHash(n=0, ksize=ksize, scaled=scaled, track_abundance=bool(track))
                    if w[5] != "-":
                        pairs = [p.split(":") for p in w[5].split(",")]
                        if track:
                            mh.set_abundances({int(h): int(a) for h, a in pairs})
                        else:
                            mh.add_many([int(h) for h, _ in pairs])
                    sigs.append(SourmashSignature(mh, name=f"s{idx}"))
                    res = "ok"
            elif w[0] == "tab" and len(w) >= 3:
                kind, ds, toks = w[1], int(w[2]), w[3:]
                if kind in KINDS and ds in (0, 1) and (toks == ["?"] or len(toks) == len(sigs) ** 2):
                    tabs.add((kind, ds))
                    res = f"tab {kind} {ds} " + " ".join(table(sigs, kind, ds))
            elif w[0] == "cmp" and len(w) == 6:
                func, kind, ds = w[1], w[2], int(w[3])
                jobs = None if w[4] == "-" else int(w[4])
                perm = [] if w[5] == "-" else [int(x) for x in w[5].split(",")]
                # compare_serial_avg_containment(return_ani=True) evaluates containment_ani in both directions
                need = ("cani", ds) if (func, kind) == ("avg", "avgani") else (kind, ds)
                ok = (func in FUNC_KINDS and kind in FUNC_KINDS[func] and need in tabs
                      and all(0 <= p < len(sigs) for p in perm)
                      and ((jobs is None) == (func not in ("parallel", "allpairs")) or func == "allpairs"))
                if ok:
                    siglist = [sigs[p] for p in perm]
                    m = len(siglist)
                    try:
                        signal.alarm(300)
                        if _dbg is not None:
                            faulthandler.dump_traceback_later(45, file=_dbg)
                        M = run_compare(func, kind, ds, jobs, siglist)
                        signal.alarm(0)
                        if _dbg is not None:
                            faulthandler.cancel_dump_traceback_later()
                        if tuple(M.shape) != (m, m):
                            res = f"shape {tuple(M.shape)}"
                        else:
                            snap = [bits(M[i][j]) for i in range(m) for j in range(m)]
                            res = f"mat {m} " + " ".join(snap)
                            kept.append((line.strip(), M, m, snap))
                            vd = matrix_views(M, m, func != "containment")
                            if func not in ("parallel", "allpairs") and ROUTE[0] % 3 == 0:
                                # read-only entry point called twice on the same objects
                                M2 = run_compare(func, kind, ds, jobs, siglist)
                                if [bits(M2[i][j]) for i in range(m) for j in range(m)] != snap:
                                    vd.append("second call on the same list")
                                kept.append((line.strip() + " (second call)", M2, m, snap))
                            if vd:
                                res += " views=DIFF:" + ",".join(vd)
                    except Exception as e:      # noqa: BLE001
                        res = "err " + exc_name(e)
                        reap(e)
                        signal.alarm(0)
                        if _dbg is not None:
                            faulthandler.cancel_dump_traceback_later()
            elif w[0] == "recheck" and len(w) == 1:
                # results are values: no later call may change a matrix that was returned earlier
                changed = [op for op, M, m, snap in kept if [bits(M[i][j]) for i in range(m) for j in range(m)] != snap]
                res = f"recheck {sum(1 for x in kept if not x[0].endswith('(second call)'))} " + ("unchanged" if not changed else "CHANGED " + " | ".join(changed[:3]))
        except (ValueError, IndexError, KeyError):
            res = "bad-op"
        out.write(res + "\n")
        out.flush()


if __name__ == "__main__":
    main()
