"""Real-code adapter for the `compare` stream (C16): builds signatures, computes pairwise
tables through the public SourmashSignature API, runs the matrix builders of
sourmash.compare (serial / parallel / all_pairs / containment / max / avg), and prints
matrices as IEEE-754 bit patterns (decimal), so that comparison is exact.

The same program serves the generator as table helper: a `tab <kind> <ds> ?` line is
answered with the computed table (the generator pastes it into the case)."""
import atexit
import gc
import multiprocessing
import multiprocessing.pool
import os
import shutil
import signal
import struct
import sys
import tempfile

VERIF = os.path.dirname(os.path.dirname(os.path.dirname(os.path.abspath(__file__))))
_tmp_root = os.path.join(os.environ.get("VERIF_BUILD", os.path.join(VERIF, ".build")), "tmp")
os.makedirs(_tmp_root, exist_ok=True)
_tmp = tempfile.mkdtemp(prefix="compare-", dir=_tmp_root)
tempfile.tempdir = _tmp          # compare_parallel's to_memmap() leaves its files behind
_main_pid = os.getpid()


def _cleanup():
    if os.getpid() == _main_pid:
        shutil.rmtree(_tmp, ignore_errors=True)


atexit.register(_cleanup)

import sourmash  # noqa: E402
from sourmash import MinHash, SourmashSignature  # noqa: E402
from sourmash import compare as smc  # noqa: E402
from sourmash.logging import set_quiet  # noqa: E402

set_quiet(True)


def bits(x):
    return str(struct.unpack("<Q", struct.pack("<d", float(x)))[0])


def exc_name(e):
    for cls in (TypeError, RuntimeError, ValueError, AssertionError, OverflowError, ZeroDivisionError, IndexError):
        if isinstance(e, cls):
            return cls.__name__
    return type(e).__name__


def pairwise(kind, ds, a, b):
    """receiver a, argument b"""
    ds = bool(ds)
    if kind == "sim0":
        return a.similarity(b, ignore_abundance=False, downsample=ds)
    if kind == "sim1":
        return a.similarity(b, ignore_abundance=True, downsample=ds)
    if kind == "jani":
        return a.jaccard_ani(b, downsample=ds).ani
    if kind == "cont":
        return a.contained_by(b, downsample=ds)
    if kind == "cani":
        return a.containment_ani(b, downsample=ds).ani
    if kind == "maxc":
        return a.max_containment(b, downsample=ds)
    if kind == "maxani":
        return a.max_containment_ani(b, downsample=ds).ani
    if kind == "avgc":
        return a.avg_containment(b, downsample=ds)
    if kind == "avgani":
        return a.avg_containment_ani(b, downsample=ds)
    raise KeyError(kind)


KINDS = ("sim0", "sim1", "jani", "cont", "cani", "maxc", "maxani", "avgc", "avgani")
FUNC_KINDS = {
    "serial": ("sim0", "sim1", "jani"), "parallel": ("sim0", "sim1", "jani"), "allpairs": ("sim0", "sim1", "jani"),
    "containment": ("cont", "cani"), "max": ("maxc", "maxani"), "avg": ("avgc", "avgani"),
}


def table(sigs, kind, ds):
    toks = []
    for a in sigs:
        for b in sigs:
            try:
                v = pairwise(kind, ds, a, b)
                toks.append("N" if v is None else bits(v))
            except Exception as e:      # noqa: BLE001
                toks.append("E" + exc_name(e))
    return toks


def run_compare(func, kind, ds, jobs, siglist):
    ds = bool(ds)
    ani = kind in ("jani", "cani", "maxani", "avgani")
    ia = kind == "sim1"
    if func == "serial":
        return smc.compare_serial(siglist, ia, downsample=ds, return_ani=ani)
    if func == "parallel":
        return smc.compare_parallel(siglist, ia, ds, jobs, return_ani=ani)
    if func == "allpairs":
        return smc.compare_all_pairs(siglist, ia, downsample=ds, n_jobs=jobs, return_ani=ani)
    if func == "containment":
        return smc.compare_serial_containment(siglist, downsample=ds, return_ani=ani)
    if func == "max":
        return smc.compare_serial_max_containment(siglist, downsample=ds, return_ani=ani)
    if func == "avg":
        return smc.compare_serial_avg_containment(siglist, downsample=ds, return_ani=ani)
    raise KeyError(func)


def reap(exc):
    """an exception inside compare_parallel leaves its Pool open (never closed / joined).  Shut it down
    gracefully (close + join: the workers finish the remaining rows): Pool.terminate() can deadlock when a
    worker is killed while it holds the result queue's lock, and so can finalisation by the garbage collector.
    The pool is the local `pool` of the compare_parallel frame in the traceback."""
    tb = exc.__traceback__
    while tb is not None:
        pool = tb.tb_frame.f_locals.get("pool")
        if isinstance(pool, multiprocessing.pool.Pool):
            pool.close()
            pool.join()
        tb = tb.tb_next


_dbg = None
if os.environ.get("VERIF_C16_DEBUG"):
    import faulthandler
    _dbg = open(os.path.join(os.environ["VERIF_C16_DEBUG"], f"tb-{os.getpid()}.txt"), "w")


class Hang(Exception):
    pass


def _on_alarm(signum, frame):
    raise Hang("compare did not return within 300 s")


def main():
    signal.signal(signal.SIGALRM, _on_alarm)
    sigs = []
    tabs = set()
    kept = []       # every matrix object a builder handed out in this case, UNCOPIED, with the values it had at that moment
    out = sys.stdout
    for line in sys.stdin:
        w = line.split()
        res = "bad-op"
        try:
            if not w:
                pass
            elif w[0] == "#":
                sigs = []
                tabs = set()
                kept = []
                res = "#"
            elif w[0] == "sig" and len(w) == 6:
                idx, scaled, track, ksize = (int(x) for x in w[1:5])
                if idx == len(sigs):
                    mh = MinHash(n=0, ksize=ksize, scaled=scaled, track_abundance=bool(track))
                    if w[5] != "-":
                        pairs = [p.split(":") for p in w[5].split(",")]
                        if track:
                            mh.set_abundances({int(h): int(a) for h, a in pairs})
                        else:
                            mh.add_many([int(h) for h, _ in pairs])
                    sigs.append(SourmashSignature(mh, name=f"s{idx}"))
                    res = "ok"
            elif w[0] == "tab" and len(w) >= 3:
                kind, ds, toks = w[1], int(w[2]), w[3:]
                if kind in KINDS and ds in (0, 1) and (toks == ["?"] or len(toks) == len(sigs) ** 2):
                    tabs.add((kind, ds))
                    res = f"tab {kind} {ds} " + " ".join(table(sigs, kind, ds))
            elif w[0] == "cmp" and len(w) == 6:
                func, kind, ds = w[1], w[2], int(w[3])
                jobs = None if w[4] == "-" else int(w[4])
                perm = [] if w[5] == "-" else [int(x) for x in w[5].split(",")]
                # compare_serial_avg_containment(return_ani=True) evaluates containment_ani in both directions
                need = ("cani", ds) if (func, kind) == ("avg", "avgani") else (kind, ds)
                ok = (func in FUNC_KINDS and kind in FUNC_KINDS[func] and need in tabs
                      and all(0 <= p < len(sigs) for p in perm)
                      and ((jobs is None) == (func not in ("parallel", "allpairs")) or func == "allpairs"))
                if ok:
                    siglist = [sigs[p] for p in perm]
                    m = len(siglist)
                    try:
                        signal.alarm(300)
                        if _dbg is not None:
                            faulthandler.dump_traceback_later(45, file=_dbg)
                        M = run_compare(func, kind, ds, jobs, siglist)
                        signal.alarm(0)
                        if _dbg is not None:
                            faulthandler.cancel_dump_traceback_later()
                        if tuple(M.shape) != (m, m):
                            res = f"shape {tuple(M.shape)}"
                        else:
                            snap = [bits(M[i][j]) for i in range(m) for j in range(m)]
                            res = f"mat {m} " + " ".join(snap)
                            kept.append((line.strip(), M, m, snap))
                    except Exception as e:      # noqa: BLE001
                        res = "err " + exc_name(e)
                        reap(e)
                        signal.alarm(0)
                        if _dbg is not None:
                            faulthandler.cancel_dump_traceback_later()
            elif w[0] == "recheck" and len(w) == 1:
                # results are values: no later call may change a matrix that was returned earlier
                changed = [op for op, M, m, snap in kept if [bits(M[i][j]) for i in range(m) for j in range(m)] != snap]
                res = f"recheck {len(kept)} " + ("unchanged" if not changed else "CHANGED " + " | ".join(changed[:3]))
        except (ValueError, IndexError, KeyError):
            res = "bad-op"
        out.write(res + "\n")
        out.flush()


if __name__ == "__main__":
    main()
