"""Real-code adapter for the `seq` stream (C02).  Every op line pushes sequences (hex encoded in
the op) through a public entry point of the package assembled from /repo's working tree and
prints one observation.

Periphery (none of this is visible to the model; a per-case counter, reset at `#`, picks):
* ROUTES: the same operation is issued through the different spellings the Python layer offers
  (bytes / str argument, positional / keyword / defaulted `force`, sketch-level vs
  `SourmashSignature`-level add_sequence / add_protein, differently constructed sketches for
  the read-only calls: num / scaled / abundance / pre-filled / frozen, hash_murmur with a
  defaulted seed or an int argument).
* VIEWS: after every op what can be read two ways must agree (len / iteration / .hashes, copy,
  pickle, frozen copy, signature round trip, parameters; bulk `add_many(seq_to_hashes())` and
  k-mer by k-mer `add_kmer` against `add_sequence`; every sketch of a multi-sketch signature
  built by `from_params` against the stand-alone sketch; an accumulating sketch against the sum
  of the fresh ones; read-only calls repeated).
* HISTORIES: every object an op produced is kept until the end of the case and re-read after
  every later op.
A disagreement is appended to the observation as ` VIEW:<what>` (the oracle reports it)."""
import atexit
import contextlib
import copy
import io
import os
import pickle
import shutil
import sys
import tempfile
import warnings

from sourmash import MinHash, SourmashSignature
from sourmash import signature as sigmod
from sourmash.command_compute import ComputeParameters
from sourmash.minhash import hash_murmur, translate_codon, FrozenMinHash
from sourmash._lowlevel import lib

warnings.simplefilter("ignore")

MOL = {"dna": {}, "protein": {"is_protein": True}, "dayhoff": {"dayhoff": True}, "hp": {"hp": True}}
MOLTYPE = {"dna": "DNA", "protein": "protein", "dayhoff": "dayhoff", "hp": "hp"}


def unhex(h):
    if h == "-":
        return b""
    if not h or len(h) % 2 or any(c not in "0123456789abcdef" for c in h):
        raise KeyError(h)
    return bytes.fromhex(h)


def as_arg(bs, mode):
    """how the caller passes the sequence: str (must be valid UTF-8) or bytes"""
    if mode == "bytes":
        return bs
    if mode == "str":
        try:
            return bs.decode("utf-8")
        except UnicodeDecodeError:
            raise KeyError("not utf-8")
    raise KeyError(mode)


def flag(x):
    if x not in ("0", "1"):
        raise KeyError(x)
    return x == "1"


def nat(x):
    if not x.isdigit():
        raise KeyError(x)
    return int(x)


def seed_of(x):
    s = nat(x)
    if s >= 2 ** 64:
        raise KeyError(x)
    return s


def exc_name(e):
    return type(e).__name__


def hashes_of(mh):
    return dict(mh.hashes.items())


def counts_str(d):
    return ",".join(f"{k}:{d[k]}" for k in sorted(d))


class Case:
    """per-case periphery state (reset at `#`)"""

    def __init__(self):
        self.n = 0                   # ops seen in this case: picks the route
        self.kept = []               # (label, object, reader, value at creation)
        self.acc = {}                # (mol, k, seed) -> (accumulating sketch, expected dict)

    def keep(self, label, obj, reader):
        self.kept.append((label, obj, reader, reader(obj)))

    def recheck(self):
        bad = []
        for label, obj, reader, val in self.kept:
            try:
                now = reader(obj)
            except BaseException as e:       # noqa: BLE001
                now = "exc " + exc_name(e)
            if now != val:
                bad.append("history-" + label)
        return bad


def maybe_str(rec, want_str):
    if want_str:
        try:
            return rec.decode("utf-8")
        except UnicodeDecodeError:
            return rec
    return rec


def views_of_sketch(mh, mol, k, seed):
    """everything readable two ways about one sketch must agree"""
    bad = []
    hs = hashes_of(mh)
    keys = list(hs)
    if keys != sorted(keys):
        bad.append("hashes-unsorted")
    if len(mh) != len(hs) or len(mh.hashes) != len(hs) or list(iter(mh.hashes)) != keys:
        bad.append("len-vs-hashes")
    if mh.seed != seed or mh.ksize != k or mh.moltype != MOLTYPE[mol]:
        bad.append("params")
    if (mh.is_dna, mh.is_protein, mh.dayhoff, mh.hp) != (mol == "dna", mol == "protein", mol == "dayhoff", mol == "hp"):
        bad.append("moltype-flags")
    def same(other):
        return hashes_of(other) == hs and (other.seed, other.ksize, other.moltype, other.scaled, other.num,
                                           other.track_abundance) == (seed, k, MOLTYPE[mol], mh.scaled, mh.num,
                                                                      mh.track_abundance)
    if not same(copy.copy(mh)) or not same(mh.copy()):
        bad.append("copy")
    if not same(pickle.loads(pickle.dumps(mh))):
        bad.append("pickle")
    if not same(mh.to_frozen()) or not same(mh.to_mutable()):
        bad.append("frozen-copy")
    cl = mh.copy_and_clear()
    if len(cl) != 0 or (cl.seed, cl.ksize, cl.moltype) != (seed, k, MOLTYPE[mol]):
        bad.append("copy_and_clear")
    sig = SourmashSignature(mh)
    if not same(sig.minhash) or len(sig) != 1:
        bad.append("signature-wrap")
    js = sigmod.save_signatures_to_json([sig])
    back = list(sigmod.load_signatures_from_json(js))
    if len(back) != 1 or hashes_of(back[0].minhash) != hs or back[0].minhash.ksize != k or \
            back[0].minhash.moltype != MOLTYPE[mol] or back[0].minhash.seed != seed:
        bad.append("json-roundtrip")
    return bad


def fresh(mol, k, seed):
    return MinHash(0, k, scaled=1, seed=seed, track_abundance=True, **MOL[mol])


def feed_plain(mh, recs, add):
    """-> (status, exception name)"""
    try:
        for r in recs:
            add(r)
        return "ok", None
    except BaseException as e:       # noqa: BLE001
        return "err", exc_name(e)


def run_add(case, mol, k, seed, force, recs, protein):
    """add_sequence / add_protein through one of the routes; returns the observation line"""
    route = case.n % 5
    mh = fresh(mol, k, seed)
    final = mh
    if protein:
        if route in (0, 3):
            st, exn = feed_plain(mh, recs, lambda r: mh.add_protein(r))
        elif route in (1, 4):
            st, exn = feed_plain(mh, recs, lambda r: mh.add_protein(maybe_str(r, True)))
        else:
            sig = SourmashSignature(mh)
            st, exn = feed_plain(mh, recs, lambda r: sig.add_protein(r))
            final = sig.minhash
    else:
        if route == 0:
            # (a single byte may also be given as an int)
            st, exn = feed_plain(mh, recs, lambda r: mh.add_sequence(r[0] if len(r) == 1 else r, force))
        elif route == 1:
            st, exn = feed_plain(mh, recs, lambda r: mh.add_sequence(maybe_str(r, True), force=force))
        elif route == 2:
            sig = SourmashSignature(mh)
            st, exn = feed_plain(mh, recs, lambda r: sig.add_sequence(maybe_str(r, case.n % 2 == 0), force))
            final = sig.minhash
        elif route == 3:
            if force:
                st, exn = feed_plain(mh, recs, lambda r: mh.add_sequence(sequence=r, force=True))
            else:
                st, exn = feed_plain(mh, recs, lambda r: mh.add_sequence(r))            # defaulted force
        else:
            sig = SourmashSignature(mh)
            if force:
                st, exn = feed_plain(mh, recs, lambda r: sig.add_sequence(r, force=True))
            else:
                st, exn = feed_plain(mh, recs, lambda r: sig.add_sequence(r))
            final = sig.minhash
    hs = hashes_of(final)
    res = ("ok " if st == "ok" else "err " + exn + " ") + counts_str(hs)
    bad = views_of_sketch(final, mol, k, seed)
    no_nul = all(0 not in r for r in recs)
    add_name = "add_protein" if protein else "add_sequence"
    # a frozen sketch refuses, and stays what it was
    fz = final.to_frozen()
    try:
        getattr(fz, add_name)(*((recs[0],) if protein else (recs[0], force)))
        bad.append("frozen-accepts")
    except TypeError:
        pass
    except BaseException:            # noqa: BLE001
        bad.append("frozen-refusal-class")
    if hashes_of(fz) != hs:
        bad.append("frozen-changed")
    fsig = SourmashSignature(final).to_frozen()
    try:
        getattr(fsig, add_name)(*((recs[0],) if protein else (recs[0], force)))
        bad.append("frozen-signature-accepts")
    except ValueError:
        pass
    except BaseException:            # noqa: BLE001
        bad.append("frozen-signature-refusal-class")
    if hashes_of(fsig.minhash) != hs:
        bad.append("frozen-signature-changed")
    if st == "ok" and no_nul and not (protein and mol == "dna"):
        # bulk route: the hashes seq_to_hashes returns, added with add_many
        alt = fresh(mol, k, seed)
        try:
            for r in recs:
                got = alt.seq_to_hashes(r, force=force, is_protein=protein)
                if case.n % 2:
                    alt.add_many(got)
                else:
                    for h in got:
                        alt.add_hash(h)
            if hashes_of(alt) != hs:
                bad.append("add_many-of-seq_to_hashes")
        except BaseException as e:   # noqa: BLE001
            bad.append("seq_to_hashes-raises-" + exc_name(e))
        # k-mer by k-mer (add_kmer checks the length, then add_sequence)
        k_nt = k if mol == "dna" else 3 * k
        ups = [bytes(b - 32 if 97 <= b <= 122 else b for b in r) for r in recs]
        if not protein and k >= 1 and all(all(b in b"ACGT" for b in u) for u in ups) and sum(len(u) for u in ups) <= 120:
            alt2 = fresh(mol, k, seed)
            for r in recs:
                for i in range(len(r) - k_nt + 1):
                    alt2.add_kmer(maybe_str(r[i:i + k_nt], case.n % 2 == 1))
            if hashes_of(alt2) != hs:
                bad.append("add_kmer-each-window")
            try:
                alt2.add_kmer(b"A" * (k_nt + 1))
                bad.append("add_kmer-accepts-wrong-length")
            except ValueError:
                pass
    # every sketch of a multi-sketch signature gets the same records
    if not (protein and mol == "dna") and no_nul and k >= 1:
        bad += multi_sketch_view(mol, k, seed, force, recs, protein, st)
    # an accumulating sketch = the sum of the fresh ones
    if st == "ok":
        key = (mol, k, seed, protein)
        if key not in case.acc:
            case.acc[key] = (fresh(mol, k, seed), {})
        accmh, exp = case.acc[key]
        st2, _ = feed_plain(accmh, recs, (lambda r: accmh.add_protein(r)) if protein else (lambda r: accmh.add_sequence(r, force)))
        for h, c in hs.items():
            exp[h] = exp.get(h, 0) + c
        if st2 != "ok" or hashes_of(accmh) != exp:
            bad.append("accumulating-sketch")
    case.keep("sketch", final, hashes_of)
    return res, bad


def multi_sketch_view(mol, k, seed, force, recs, protein, st):
    """ComputeParameters -> SourmashSignature.from_params -> signature-level add: each sketch must hold
    what the stand-alone sketch of the same parameters holds"""
    bad = []
    if mol == "dna":
        ks, flags = [k, k + 2], dict(dna=True, protein=False, dayhoff=False, hp=False)
        wanted = [("dna", k), ("dna", k + 2)]
    else:
        ks = [3 * k, 3 * (k + 1)]
        flags = dict(dna=not protein, protein=True, dayhoff=(mol != "protein"), hp=(mol == "hp"))
        wanted = [(m, kk) for kk in (k, k + 1) for m in ("protein", "dayhoff", "hp") if flags[m]]
        if flags["dna"]:
            wanted += [("dna", 3 * k), ("dna", 3 * (k + 1))]
    cp = ComputeParameters(ksizes=ks, seed=seed, num_hashes=0, track_abundance=True, scaled=1, **flags)
    sig = SourmashSignature.from_params(cp)
    st_m, _ = feed_plain(None, recs, (lambda r: sig.add_protein(r)) if protein else (lambda r: sig.add_sequence(r, force)))
    alone = {}
    st_any = "ok"
    for m, kk in wanted:
        a = fresh(m, kk, seed)
        s1, _ = feed_plain(a, recs, (lambda r: a.add_protein(r)) if protein else (lambda r: a.add_sequence(r, force)))
        if s1 != "ok":
            st_any = "err"
        alone[(MOLTYPE[m], kk)] = hashes_of(a)
    if st_m != st_any:
        bad.append("multi-sketch-status")
    elif st_m == "ok":
        js = sigmod.save_signatures_to_json([sig])
        got = {}
        for s in sigmod.load_signatures_from_json(js):
            got[(s.minhash.moltype, s.minhash.ksize)] = hashes_of(s.minhash)
        if got != alone:
            bad.append("multi-sketch-content")
    return bad


_TMP = None


def tmpdir():
    global _TMP
    if _TMP is None:
        verif = os.path.dirname(os.path.dirname(os.path.dirname(os.path.abspath(__file__))))
        base = os.path.join(os.environ.get("VERIF_BUILD", os.path.join(verif, ".build")), "tmp")
        os.makedirs(base, exist_ok=True)
        _TMP = tempfile.mkdtemp(prefix="c02cli", dir=base)
        atexit.register(shutil.rmtree, _TMP, True)
    return _TMP


def fasta_safe(r):
    return len(r) >= 1 and all(65 <= b <= 90 or 97 <= b <= 122 or b == 42 for b in r)


def run_sketch_cli(case, mol, k, seed, check, isprot, recs):
    """`sourmash sketch dna|translate|protein` (or the older `compute`) in-process on a FASTA file"""
    from sourmash.__main__ import main as sm_main
    from sourmash.logging import set_quiet
    from sourmash import load_file_as_signatures
    d = tmpdir()
    fa, out = os.path.join(d, "in.fa"), os.path.join(d, "out.sig")
    with open(fa, "wb") as f:
        for i, r in enumerate(recs):
            f.write(b">r%d some description\n" % i + r + b"\n")
    if os.path.exists(out):
        os.remove(out)
    p = f"k={k},scaled=1,abund,seed={seed}"
    if isprot:
        argv = ["sketch", "protein", "-p", f"{mol},{p}", "-o", out, fa]
    elif mol != "dna":
        argv = ["sketch", "translate", "-p", f"{mol},{p}", "-o", out, fa]
    elif case.n % 2:
        argv = ["compute", "-k", str(k), "--scaled", "1", "--track-abundance", "--seed", str(seed), "-o", out, fa]
    else:
        argv = ["sketch", "dna", "-p", p, "-o", out, fa]
    if check:
        argv.append("--check-sequence")
    rc = 0
    try:
        with contextlib.redirect_stdout(io.StringIO()), contextlib.redirect_stderr(io.StringIO()):
            sm_main(argv)
    except SystemExit as e:
        rc = 0 if e.code in (0, None) else 1
    except BaseException:            # noqa: BLE001
        rc = 1
    finally:
        set_quiet(False)
    if rc != 0:
        return "err", (["cli-error-leaves-output"] if os.path.exists(out) else [])
    sigs = list(load_file_as_signatures(out))
    bad = []
    if len(sigs) != 1:
        return "ok ?", ["cli-sketch-count"]
    mh = sigs[0].minhash
    if (mh.moltype, mh.ksize, mh.seed, mh.scaled) != (MOLTYPE[mol], k, seed, 1):
        bad.append("cli-params")
    return "ok " + counts_str(hashes_of(mh)), bad


def reader_sketch(case, mol, k, seed):
    """the sketch a read-only call is made on: construction must not matter"""
    v = case.n % 6
    kw = MOL[mol]
    if v == 0:
        return MinHash(0, k, scaled=1, seed=seed, **kw)
    if v == 1:
        return MinHash(500, k, seed=seed, **kw)
    if v == 2:
        return MinHash(0, k, scaled=1000, seed=seed, track_abundance=True, **kw)
    if v == 3:
        m = MinHash(0, k, scaled=1, seed=seed, **kw)
        m.add_many([5, 77, 2 ** 63])
        return m
    if v == 4:
        return MinHash(3, k, seed=seed, track_abundance=True, **kw).to_frozen()
    m = MinHash(0, k, scaled=7, seed=seed, **kw)
    return SourmashSignature(m).minhash


def main():
    out = sys.stdout
    case = Case()
    for line in sys.stdin:
        w = line.split()
        if not w:
            out.write("bad-op\n")
            continue
        op, a = w[0], w[1:]
        bad = []
        try:
            if op == "#":
                case = Case()
                out.write("#\n")
                continue
            case.n += 1
            if op == "murmur" and len(a) == 2:
                data, seed = unhex(a[1]), seed_of(a[0])
                try:
                    r = case.n % 4
                    if r == 1 and seed == 42:
                        v = hash_murmur(data)                      # defaulted seed
                    elif r == 2 and len(data) == 1:
                        v = hash_murmur(data[0], seed)             # an int is one byte
                    elif r == 3:
                        v = hash_murmur(maybe_str(data, True), seed=seed)
                    else:
                        v = hash_murmur(data, seed)
                    if hash_murmur(data, seed) != v:
                        bad.append("hash_murmur-routes")
                    # kmerminhash_add_word (no Python wrapper): the word hashed with the sketch's seed
                    wm = MinHash(0, 4, scaled=1, seed=seed)
                    lib.kmerminhash_add_word(wm._objptr, data)
                    if list(wm.hashes) != [v]:
                        bad.append("add_word-vs-hash_murmur")
                    res = f"ok {v}"
                except BaseException as e:   # noqa: BLE001
                    res = "err " + exc_name(e)
            elif op == "codon" and len(a) == 1:
                data = unhex(a[0])
                try:
                    v = translate_codon(maybe_str(data, case.n % 2 == 0))
                    res = f"ok {ord(v)}"
                except BaseException as e:   # noqa: BLE001
                    res = "err " + exc_name(e)
            elif op == "aa" and len(a) == 2:
                b = nat(a[1])
                if b > 255 or a[0] not in ("dayhoff", "hp"):
                    raise KeyError(a[1])
                fn = lib.sourmash_aa_to_dayhoff if a[0] == "dayhoff" else lib.sourmash_aa_to_hp
                res = f"ok {fn(bytes([b]))[0]}"
            elif op == "s2h" and len(a) == 8:
                mol, k, seed, force, baz, isprot, mode, hx = a
                k, seed, force, baz, isprot = nat(k), seed_of(seed), flag(force), flag(baz), flag(isprot)
                arg = as_arg(unhex(hx), mode)
                mh = reader_sketch(case, mol, k, seed)
                before = hashes_of(mh)

                def call():
                    if not force and not baz and not isprot and case.n % 2:
                        return mh.seq_to_hashes(arg)               # every keyword defaulted
                    return mh.seq_to_hashes(arg, force=force, bad_kmers_as_zeroes=baz, is_protein=isprot)
                try:
                    hs = call()
                    res = "ok " + ",".join(str(h) for h in hs)
                    if call() != hs:
                        bad.append("seq_to_hashes-twice")
                    other = unhex(hx) if mode == "str" else None
                    if other is not None and mh.seq_to_hashes(other, force=force, bad_kmers_as_zeroes=baz,
                                                              is_protein=isprot) != hs:
                        bad.append("seq_to_hashes-str-vs-bytes")
                    case.keep("s2h-result", hs, lambda x: list(x))
                except BaseException as e:   # noqa: BLE001
                    res = "err " + exc_name(e)
                    try:
                        call()
                        bad.append("seq_to_hashes-error-not-repeated")
                    except BaseException as e2:   # noqa: BLE001
                        if exc_name(e2) != exc_name(e):
                            bad.append("seq_to_hashes-error-class-changes")
                if hashes_of(mh) != before:
                    bad.append("seq_to_hashes-modifies-sketch")
            elif op == "kah" and len(a) == 6:
                mol, k, seed, force, isprot, hx = a
                k, seed, force, isprot = nat(k), seed_of(seed), flag(force), flag(isprot)
                bs = unhex(hx)
                if any(b >= 128 for b in bs):
                    raise KeyError("ascii only")
                mh = reader_sketch(case, mol, k, seed)
                before = hashes_of(mh)
                s = bs.decode("ascii")

                def gen():
                    if not force and not isprot and case.n % 2:
                        return mh.kmers_and_hashes(s)
                    return mh.kmers_and_hashes(s, force=force, is_protein=isprot)
                try:
                    ps = list(gen())
                    res = "ok " + ";".join((km.encode("ascii").hex() or "-") + ":" + ("-" if h is None else str(h))
                                           for km, h in ps)
                    if list(gen()) != ps:
                        bad.append("kmers_and_hashes-twice")
                    # the hashes it pairs are the hashes seq_to_hashes returns (None = 0 under force)
                    flat = mh.seq_to_hashes(s, force=force, bad_kmers_as_zeroes=force, is_protein=isprot)
                    if [0 if h is None else h for _, h in ps] != flat:
                        bad.append("kmers_and_hashes-vs-seq_to_hashes")
                except BaseException as e:   # noqa: BLE001
                    res = "err " + exc_name(e)
                if hashes_of(mh) != before:
                    bad.append("kmers_and_hashes-modifies-sketch")
            elif op == "addseq" and len(a) >= 5:
                mol, k, seed, force = a[:4]
                k, seed, force = nat(k), seed_of(seed), flag(force)
                MOL[mol]
                recs = [unhex(h) for h in a[4:]]
                res, bad = run_add(case, mol, k, seed, force, recs, False)
            elif op == "sketch" and len(a) >= 6:
                mol, k, seed, check, isprot = a[:5]
                k, seed, check, isprot = nat(k), seed_of(seed), flag(check), flag(isprot)
                MOL[mol]
                recs = [unhex(h) for h in a[5:]]
                if not all(fasta_safe(r) for r in recs) or k < 1 or (isprot and (mol == "dna" or check)):
                    raise KeyError("not for a FASTA file")
                res, bad = run_sketch_cli(case, mol, k, seed, check, isprot, recs)
            elif op == "addprot" and len(a) >= 4:
                mol, k, seed = a[:3]
                k, seed = nat(k), seed_of(seed)
                MOL[mol]
                recs = [unhex(h) for h in a[3:]]
                res, bad = run_add(case, mol, k, seed, False, recs, True)
            else:
                res = "bad-op"
            bad += case.recheck()
        except KeyError:
            res = "bad-op"
        except BaseException as e:   # noqa: BLE001   (a cross-check itself blew up: report, do not die)
            res = "bad-op"
            bad = ["adapter-exception-" + exc_name(e)]
        if bad:
            res += " VIEW:" + "+".join(sorted(set(bad)))
        out.write(res + "\n")
    out.flush()


if __name__ == "__main__":
    main()
