"""Real-code adapter for the `seq` stream (C02): every op line builds a fresh MinHash
from the package assembled from /repo's working tree and pushes one sequence (hex
encoded in the op) through a public entry point.  One observation line per op."""
import sys

from sourmash import MinHash
from sourmash.minhash import hash_murmur

MOL = {"dna": {}, "protein": {"is_protein": True}, "dayhoff": {"dayhoff": True}, "hp": {"hp": True}}


def unhex(h):
    if h == "-":
        return b""
    if not h or len(h) % 2 or any(c not in "0123456789abcdef" for c in h):
        raise KeyError(h)
    return bytes.fromhex(h)


def as_arg(bs, mode):
    """how the caller passes the sequence: str (must be valid UTF-8) or bytes"""
    if mode == "bytes":
        return bs
    if mode == "str":
        try:
            return bs.decode("utf-8")
        except UnicodeDecodeError:
            raise KeyError("not utf-8")
    raise KeyError(mode)


def flag(x):
    if x not in ("0", "1"):
        raise KeyError(x)
    return x == "1"


def nat(x):
    if not x.isdigit():
        raise KeyError(x)
    return int(x)


def seed_of(x):
    s = nat(x)
    if s >= 2 ** 64:
        raise KeyError(x)
    return s


def exc_name(e):
    return type(e).__name__


def counts(mh):
    hs = mh.hashes
    return ",".join(f"{k}:{hs[k]}" for k in sorted(hs))


def feed(mh, recs, fn):
    try:
        for r in recs:
            fn(r)
        return "ok " + counts(mh)
    except BaseException as e:       # noqa: BLE001
        return "err " + exc_name(e) + " " + counts(mh)


def main():
    out = sys.stdout
    for line in sys.stdin:
        w = line.split()
        if not w:
            out.write("bad-op\n")
            continue
        op, a = w[0], w[1:]
        try:
            if op == "#":
                out.write("#\n")
                continue
            if op == "murmur" and len(a) == 2:
                data, seed = unhex(a[1]), seed_of(a[0])
                try:
                    res = f"ok {hash_murmur(data, seed)}"
                except BaseException as e:   # noqa: BLE001
                    res = "err " + exc_name(e)
            elif op == "s2h" and len(a) == 8:
                mol, k, seed, force, baz, isprot, mode, hx = a
                kw = MOL[mol]
                k, seed, force, baz, isprot = nat(k), seed_of(seed), flag(force), flag(baz), flag(isprot)
                arg = as_arg(unhex(hx), mode)
                mh = MinHash(0, k, scaled=1, seed=seed, **kw)
                try:
                    hs = mh.seq_to_hashes(arg, force=force, bad_kmers_as_zeroes=baz, is_protein=isprot)
                    res = "ok " + ",".join(str(h) for h in hs)
                except BaseException as e:   # noqa: BLE001
                    res = "err " + exc_name(e)
            elif op == "kah" and len(a) == 6:
                mol, k, seed, force, isprot, hx = a
                kw = MOL[mol]
                k, seed, force, isprot = nat(k), seed_of(seed), flag(force), flag(isprot)
                bs = unhex(hx)
                if any(b >= 128 for b in bs):
                    raise KeyError("ascii only")
                mh = MinHash(0, k, scaled=1, seed=seed, **kw)
                try:
                    ps = list(mh.kmers_and_hashes(bs.decode("ascii"), force=force, is_protein=isprot))
                    res = "ok " + ";".join((km.encode("ascii").hex() or "-") + ":" + ("-" if h is None else str(h))
                                           for km, h in ps)
                except BaseException as e:   # noqa: BLE001
                    res = "err " + exc_name(e)
            elif op == "addseq" and len(a) >= 5:
                mol, k, seed, force = a[:4]
                kw = MOL[mol]
                k, seed, force = nat(k), seed_of(seed), flag(force)
                recs = [unhex(h) for h in a[4:]]
                mh = MinHash(0, k, scaled=1, seed=seed, track_abundance=True, **kw)
                res = feed(mh, recs, lambda r: mh.add_sequence(r, force))
            elif op == "addprot" and len(a) >= 4:
                mol, k, seed = a[:3]
                kw = MOL[mol]
                k, seed = nat(k), seed_of(seed)
                recs = [unhex(h) for h in a[3:]]
                mh = MinHash(0, k, scaled=1, seed=seed, track_abundance=True, **kw)
                res = feed(mh, recs, lambda r: mh.add_protein(r))
            else:
                res = "bad-op"
        except KeyError:
            res = "bad-op"
        out.write(res + "\n")
    out.flush()


if __name__ == "__main__":
    main()
