"""Real-code adapter for the `select` stream (C12): executes each op line against the sourmash
package assembled from /repo's working tree (on PYTHONPATH) and prints one canonical observation
per line.  Files live under <build>/tmp/c12-<pid>/ and are removed."""
import atexit
import csv
import os
import shutil
import sys

import sourmash
from sourmash import MinHash, SourmashSignature
from sourmash.index import (LinearIndex, LazyLinearIndex, MultiIndex, ZipFileLinearIndex,
                            StandaloneManifestIndex)
from sourmash.index.sqlite_index import SqliteIndex
from sourmash.lca.lca_db import LCA_Database
from sourmash.manifest import CollectionManifest
from sourmash.picklist import SignaturePicklist
from sourmash.sbt import SBT
from sourmash.sbtmh import create_sbt_index, load_sbt_index
from sourmash.sourmash_args import SaveSignaturesToLocation
from sourmash.signature import save_signatures_to_json
from sourmash.search import (search_databases_with_flat_query, prefetch_database, GatherDatabases)

VERIF = os.path.dirname(os.path.dirname(os.path.dirname(os.path.abspath(__file__))))
TMPROOT = os.path.join(os.environ.get("VERIF_BUILD", os.path.join(VERIF, ".build")), "tmp", f"c12-{os.getpid()}")


def cleanup():
    shutil.rmtree(TMPROOT, ignore_errors=True)


atexit.register(cleanup)


def unhex(s):
    return "" if s == "-" else bytes.fromhex(s).decode("latin-1")


def hx(s):
    return "-" if not s else s.encode("latin-1").hex()


def exc_name(e):
    for cls in (AssertionError, StopIteration, TypeError, ValueError):
        if isinstance(e, cls):
            return cls.__name__
    return type(e).__name__


def show_sigs(sigs):
    items = sorted(f"{s.md5sum()}:{hx(s.name)}" for s in sigs)
    return f"ok {len(items)} " + ",".join(items)


def show_pickset(pl):
    items = []
    for v in pl.pickset:
        if isinstance(v, tuple):
            items.append(hx(v[0]) + ":" + hx(v[1]))
        else:
            items.append(hx(v))
    items.sort()
    return f"ok {len(items)} " + ",".join(items)


def intlist(s):
    return [] if s == "-" else [int(x) for x in s.split(",")]


class Case:
    def __init__(self, n):
        self.dir = os.path.join(TMPROOT, f"case{n}")
        os.makedirs(self.dir, exist_ok=True)
        self.sigs = {}
        self.pls = {}
        self.colls = {}
        self.nfile = 0
        self.open = []

    def path(self, suffix):
        self.nfile += 1
        return os.path.join(self.dir, f"f{self.nfile}{suffix}")

    def close(self):
        for c in self.open:
            try:
                c.close()
            except Exception:
                pass
        shutil.rmtree(self.dir, ignore_errors=True)


def write_sigfile(path, sigs):
    with open(path, "w") as fp:
        save_signatures_to_json(sigs, fp)


def mk_coll(cs, kind, sigs, extra):
    if kind == "linear" and not extra:
        return LinearIndex(sigs)
    if kind == "lazy" and not extra:
        return LazyLinearIndex(LinearIndex(sigs))
    if kind == "multi" and not extra:
        return MultiIndex.load([LinearIndex(sigs)], [None], None)
    if kind == "multidir" and len(extra) == 1:
        files = intlist(extra[0])
        if len(files) != len(sigs):
            return None
        d = cs.path(".d")
        os.makedirs(d)
        for f in sorted(set(files)):
            write_sigfile(os.path.join(d, f"part{f}.sig"), [s for s, g in zip(sigs, files) if g == f])
        return MultiIndex.load_from_directory(d)
    if kind == "multipl" and not extra:
        half = (len(sigs) + 1) // 2
        p1 = cs.path(".sig")
        write_sigfile(p1, sigs[:half])
        paths = [p1]
        if sigs[half:]:
            p2 = cs.path(".zip")
            with SaveSignaturesToLocation(p2) as save:
                for s in sigs[half:]:
                    save.add(s)
            paths.append(p2)
        pl = cs.path(".txt")
        with open(pl, "w") as fp:
            fp.write("\n".join(paths) + "\n")
        return MultiIndex.load_from_pathlist(pl)
    if kind in ("zip", "zipnm") and not extra:
        p = cs.path(".zip")
        with SaveSignaturesToLocation(p) as save:
            for s in sigs:
                save.add(s)
        return ZipFileLinearIndex.load(p, use_manifest=(kind == "zip"))
    if kind in ("smi", "sqlmf") and len(extra) == 1:
        files = intlist(extra[0])
        if len(files) != len(sigs):
            return None
        d = cs.path(".d")
        os.makedirs(d)
        rows = []
        for s, f in zip(sigs, files):
            rows.append(CollectionManifest.make_manifest_row(s, f"part{f}.sig", include_signature=False))
        for f in sorted(set(files)):
            write_sigfile(os.path.join(d, f"part{f}.sig"), [s for s, g in zip(sigs, files) if g == f])
        mf = CollectionManifest(rows)
        if kind == "smi":
            mp = os.path.join(d, "mf.csv")
            with open(mp, "w", newline="") as fp:
                mf.write_to_csv(fp, write_header=True)
            return StandaloneManifestIndex.load(mp)
        mp = os.path.join(d, "mf.sqlmf")
        mf.write_to_filename(mp, database_format="sql")
        idx = sourmash.load_file_as_index(mp)
        assert isinstance(idx, StandaloneManifestIndex), type(idx)
        cs.open.append(idx.manifest.conn)
        return idx
    if kind in ("sbt", "sbtz") and not extra:
        t = create_sbt_index()
        for s in sigs:
            t.insert(s)
        if kind == "sbt":
            return t
        p = cs.path(".sbt.zip")
        t.save(p)
        t2 = load_sbt_index(p)
        assert t2.manifest is not None
        return t2
    if kind == "lca" and len(extra) == 3:
        db = LCA_Database(int(extra[0]), int(extra[2]), extra[1])
        for s in sigs:
            db.insert(s)
        return db
    if kind == "sqlite" and not extra:
        p = cs.path(".sqldb")
        db = SqliteIndex.create(p)
        for s in sigs:
            db.insert(s)
        cs.open.append(db)
        return db
    return None


META = ("manifest", "gather", "prefetch", "search")
SIMPLE = ("md5", "md5prefix8", "md5short", "name", "ident", "identprefix")


def load_picklist(path, coltype, style, column=""):
    pl = SignaturePicklist.from_picklist_args(f"{path}:{column}:{coltype}:{'include' if style == 'inc' else 'exclude'}")
    pl.load(allow_empty=True)
    if pl.pickset is None:
        pl.pickset = set()
    return pl


def main():
    out = sys.stdout
    cs = None
    ncase = 0
    for line in sys.stdin:
        w = line.split()
        if not w:
            out.write("bad-op\n")
            continue
        op = w[0]
        if op == "#":
            if cs is not None:
                cs.close()
            ncase += 1
            cs = Case(ncase)
            out.write("#\n")
            continue
        a = w[1:]
        res = "bad-op"
        try:
            if op == "sig" and len(a) == 9:
                i, k, mol, num, sc, ab, md5, name, hs = a
                if mol not in ("DNA", "protein", "dayhoff", "hp") or ab not in ("0", "1"):
                    raise KeyError
                mh = MinHash(int(num), int(k), scaled=int(sc), track_abundance=(ab == "1"),
                             is_protein=(mol == "protein"), dayhoff=(mol == "dayhoff"), hp=(mol == "hp"))
                mh.add_many(intlist(hs))
                ss = SourmashSignature(mh, name=unhex(name))
                if ss.md5sum() != md5:
                    res = "err md5mismatch " + ss.md5sum()
                else:
                    cs.sigs[int(i)] = ss
                    res = "ok"
            elif op == "coll" and len(a) >= 3:
                c, kind = int(a[0]), a[1]
                sigs = [cs.sigs[i] for i in intlist(a[2])]
                x = mk_coll(cs, kind, sigs, a[3:])
                if x is not None:
                    cs.colls[c] = x
                    res = f"ok {len(sigs)}"
            elif op == "pl" and len(a) >= 3:
                p, ct, sty = int(a[0]), a[1], a[2]
                if sty not in ("inc", "exc") or ct not in META + SIMPLE:
                    raise KeyError
                path = cs.path(".csv")
                with open(path, "w", newline="") as fp:
                    wr = csv.writer(fp)
                    if ct in META:
                        cols = ["match_name", "match_md5"] if ct == "prefetch" else ["name", "md5"]
                        wr.writerow(cols + ["other"])
                        for v in a[3:]:
                            x, y = v.split(":")
                            wr.writerow([unhex(x), unhex(y), "z"])
                        column = ""
                    else:
                        wr.writerow(["col", "other"])
                        for v in a[3:]:
                            wr.writerow([unhex(v), "z"])
                        column = "col"
                cs.pls[p] = load_picklist(path, ct, sty, column)
                res = show_pickset(cs.pls[p])
            elif op == "plfrom" and len(a) == 5:
                p, ct, sty, c, q = int(a[0]), a[1], a[2], int(a[3]), int(a[4])
                if sty not in ("inc", "exc") or ct not in META:
                    raise KeyError
                x = cs.colls[c]
                qs = cs.sigs[q].to_frozen()
                path = cs.path(".csv")
                try:
                    with open(path, "w", newline="") as fp:
                        if ct == "manifest":
                            mf = CollectionManifest.create_manifest(((ss, "loc") for ss in x.signatures()),
                                                                    include_signature=False)
                            mf.write_to_csv(fp, write_header=True)
                        else:
                            if ct == "search":
                                results = search_databases_with_flat_query(
                                    qs, [x], threshold=0.0, do_containment=False, do_max_containment=False,
                                    best_only=False, unload_data=False)
                            elif ct == "prefetch":
                                results = list(prefetch_database(qs, x, 0))
                            else:
                                counters = [x.counter_gather(qs, 0)]
                                results = list(GatherDatabases(qs, counters, threshold_bp=0, ignore_abundance=True))
                            wr = None
                            for r in results:
                                if wr is None:
                                    wr = r.init_dictwriter(fp)
                                r.write(wr)
                    cs.pls[p] = load_picklist(path, ct, sty)
                    res = show_pickset(cs.pls[p])
                except (KeyError, IndexError):
                    raise
                except Exception as e:
                    if os.environ.get("C12_DEBUG"):
                        import traceback
                        traceback.print_exc()
                    res = "err incompatible"
            elif op == "sel" and len(a) >= 2:
                r, c = int(a[0]), int(a[1])
                x = cs.colls[c]
                kw = {}
                for kv in a[2:]:
                    k, v = kv.split("=")
                    if k == "k":
                        kw["ksize"] = None if v == "None" else int(v)
                    elif k == "m":
                        if v not in ("None", "DNA", "protein", "dayhoff", "hp"):
                            raise KeyError
                        kw["moltype"] = None if v == "None" else v
                    elif k == "s":
                        kw["scaled"] = int(v)
                    elif k == "n":
                        kw["num"] = int(v)
                    elif k == "a":
                        kw["abund"] = None if v == "None" else {"0": False, "1": True}[v]
                    elif k == "c":
                        kw["containment"] = {"0": False, "1": True}[v]
                    elif k == "p":
                        kw["picklist"] = cs.pls[int(v)]
                    else:
                        raise KeyError
                try:
                    y = x.select(**kw)
                    cs.colls[r] = y
                    res = "ok"
                except (KeyError, IndexError):
                    raise
                except BaseException as e:
                    if isinstance(e, (KeyboardInterrupt, SystemExit)):
                        raise
                    res = "err " + exc_name(e)
            elif op == "sigs" and len(a) == 1:
                x = cs.colls[int(a[0])]
                try:
                    res = show_sigs(list(x.signatures()))
                except Exception as e:
                    if os.environ.get("C12_DEBUG"):
                        import traceback
                        traceback.print_exc()
                    res = "err " + exc_name(e)
            elif op == "search" and len(a) == 2:
                x = cs.colls[int(a[0])]
                qs = cs.sigs[int(a[1])]
                try:
                    res = show_sigs([r.signature for r in x.search(qs, threshold=0)])
                except Exception as e:
                    if os.environ.get("C12_DEBUG"):
                        import traceback
                        traceback.print_exc()
                    res = "err incompatible"
        except (KeyError, IndexError, ValueError) as e:
            if os.environ.get("C12_DEBUG"):
                import traceback
                traceback.print_exc()
            res = "bad-op"
        out.write(res + "\n")
    if cs is not None:
        cs.close()
    out.flush()


if __name__ == "__main__":
    main()
