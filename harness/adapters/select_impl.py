"""Real-code adapter for the `select` stream (C12): executes each op line against the sourmash
package assembled from /repo's working tree (on PYTHONPATH) and prints one canonical observation
per line.  Files live under <build>/tmp/c12-<pid>/ and are removed."""
import atexit
import csv
import os
import shutil
import sys

import sourmash
from sourmash import MinHash, SourmashSignature
from sourmash.index import (LinearIndex, LazyLinearIndex, MultiIndex, ZipFileLinearIndex,
                            StandaloneManifestIndex)
from sourmash.index.sqlite_index import SqliteIndex
from sourmash.lca.lca_db import LCA_Database
from sourmash.manifest import CollectionManifest
from sourmash.picklist import SignaturePicklist
from sourmash.sbt import SBT
from sourmash.sbtmh import create_sbt_index, load_sbt_index
from sourmash.sourmash_args import SaveSignaturesToLocation
from sourmash.signature import save_signatures_to_json
from sourmash.search import (search_databases_with_flat_query, prefetch_database, GatherDatabases)

VERIF = os.path.dirname(os.path.dirname(os.path.dirname(os.path.abspath(__file__))))
TMPROOT = os.path.join(os.environ.get("VERIF_BUILD", os.path.join(VERIF, ".build")), "tmp", f"c12-{os.getpid()}")


def cleanup():
    shutil.rmtree(TMPROOT, ignore_errors=True)


atexit.register(cleanup)


def unhex(s):
    return "" if s == "-" else bytes.fromhex(s).decode("latin-1")


def hx(s):
    return "-" if not s else s.encode("latin-1").hex()


def exc_name(e):
    for cls in (AssertionError, StopIteration, TypeError, ValueError):
        if isinstance(e, cls):
            return cls.__name__
    return type(e).__name__


def show_sigs(sigs):
    items = sorted(f"{s.md5sum()}:{hx(s.name)}" for s in sigs)
    return f"ok {len(items)} " + ",".join(items)


def show_pickset(pl):
    items = []
    for v in pl.pickset:
        if isinstance(v, tuple):
            items.append(hx(v[0]) + ":" + hx(v[1]))
        else:
            items.append(hx(v))
    items.sort()
    return f"ok {len(items)} " + ",".join(items)


def intlist(s):
    return [] if s == "-" else [int(x) for x in s.split(",")]


class Case:
    def __init__(self, n):
        self.dir = os.path.join(TMPROOT, f"case{n}")
        os.makedirs(self.dir, exist_ok=True)
        self.sigs = {}
        self.pls = {}
        self.colls = {}
        self.nfile = 0
        self.open = []
        self.route = 0          # per-case counter the model does not see
        self.listed = {}        # handle -> keys listed by an earlier `sigs` (re-verified later)
        self.kind = {}

    def path(self, suffix):
        self.nfile += 1
        return os.path.join(self.dir, f"f{self.nfile}{suffix}")

    def close(self):
        for c in self.open:
            try:
                c.close()
            except Exception:
                pass
        shutil.rmtree(self.dir, ignore_errors=True)


def write_sigfile(path, sigs):
    with open(path, "w") as fp:
        save_signatures_to_json(sigs, fp)


def mk_coll(cs, kind, sigs, extra):
    if kind == "linear" and not extra:
        return LinearIndex(sigs)
    if kind == "lazy" and not extra:
        return LazyLinearIndex(LinearIndex(sigs))
    if kind == "multi" and not extra:
        return MultiIndex.load([LinearIndex(sigs)], [None], None)
    if kind == "multidir" and len(extra) == 1:
        files = intlist(extra[0])
        if len(files) != len(sigs):
            return None
        d = cs.path(".d")
        os.makedirs(d)
        for f in sorted(set(files)):
            write_sigfile(os.path.join(d, f"part{f}.sig"), [s for s, g in zip(sigs, files) if g == f])
        return MultiIndex.load_from_directory(d)
    if kind == "multipl" and not extra:
        half = (len(sigs) + 1) // 2
        p1 = cs.path(".sig")
        write_sigfile(p1, sigs[:half])
        paths = [p1]
        if sigs[half:]:
            p2 = cs.path(".zip")
            with SaveSignaturesToLocation(p2) as save:
                for s in sigs[half:]:
                    save.add(s)
            paths.append(p2)
        pl = cs.path(".txt")
        with open(pl, "w") as fp:
            fp.write("\n".join(paths) + "\n")
        return MultiIndex.load_from_pathlist(pl)
    if kind in ("zip", "zipnm") and not extra:
        p = cs.path(".zip")
        with SaveSignaturesToLocation(p) as save:
            for s in sigs:
                save.add(s)
        return ZipFileLinearIndex.load(p, use_manifest=(kind == "zip"))
    if kind in ("smi", "sqlmf") and len(extra) == 1:
        files = intlist(extra[0])
        if len(files) != len(sigs):
            return None
        d = cs.path(".d")
        os.makedirs(d)
        rows = []
        for s, f in zip(sigs, files):
            rows.append(CollectionManifest.make_manifest_row(s, f"part{f}.sig", include_signature=False))
        for f in sorted(set(files)):
            write_sigfile(os.path.join(d, f"part{f}.sig"), [s for s, g in zip(sigs, files) if g == f])
        mf = CollectionManifest(rows)
        if kind == "smi":
            mp = os.path.join(d, "mf.csv")
            with open(mp, "w", newline="") as fp:
                mf.write_to_csv(fp, write_header=True)
            return StandaloneManifestIndex.load(mp)
        mp = os.path.join(d, "mf.sqlmf")
        mf.write_to_filename(mp, database_format="sql")
        idx = sourmash.load_file_as_index(mp)
        assert isinstance(idx, StandaloneManifestIndex), type(idx)
        cs.open.append(idx.manifest.conn)
        return idx
    if kind in ("sbt", "sbtz") and not extra:
        t = create_sbt_index()
        for s in sigs:
            t.insert(s)
        if kind == "sbt":
            return t
        p = cs.path(".sbt.zip")
        t.save(p)
        t2 = load_sbt_index(p)
        assert t2.manifest is not None
        return t2
    if kind == "lca" and len(extra) == 3:
        db = LCA_Database(int(extra[0]), int(extra[2]), extra[1])
        for s in sigs:
            db.insert(s)
        return db
    if kind == "sqlite" and not extra:
        p = cs.path(".sqldb")
        db = SqliteIndex.create(p)
        for s in sigs:
            db.insert(s)
        cs.open.append(db)
        return db
    return None


from sourmash.index import select_signature  # noqa: E402
from sourmash.index.sqlite_index import SqliteCollectionManifest  # noqa: E402
from sourmash.picklist import PickStyle  # noqa: E402
from sourmash.search import make_jaccard_search_query  # noqa: E402
from sourmash.signature import load_signatures_from_json  # noqa: E402
import io, json as _json  # noqa: E402

INPLACE_TYPES = ()


def keyset(sigs):
    return sorted(f"{s.md5sum()}:{hx(s.name)}" for s in sigs)


def view_checks(x, sigs):
    """several ways of reading the same collection must agree (appended to the observation as ` !what`)"""
    bad = []
    n = len(sigs)
    try:
        again = keyset(x.signatures())
        if again != keyset(sigs):
            bad.append("twice")
    except Exception as e:  # noqa: BLE001
        bad.append("twice:" + type(e).__name__)
    try:
        wl = list(x.signatures_with_location())
        if keyset(ss for ss, _ in wl) != keyset(sigs):
            bad.append("withloc")
    except NotImplementedError:
        pass
    except Exception as e:  # noqa: BLE001
        bad.append("withloc:" + type(e).__name__)
    try:
        ln = len(x)
        if ln != n:
            bad.append(f"len={ln}")
    except (NotImplementedError, TypeError):
        pass
    except Exception as e:  # noqa: BLE001
        bad.append("len:" + type(e).__name__)
    try:
        if bool(x) != (n > 0):
            bad.append(f"bool={int(bool(x))}")
    except (NotImplementedError, TypeError):
        pass
    except Exception as e:  # noqa: BLE001
        bad.append("bool:" + type(e).__name__)
    mf = getattr(x, "manifest", None)
    if mf is not None and type(x).__name__ not in ("SBT", "LCA_Database"):
        try:
            rows = sorted(f"{r['md5']}:{hx(r['name'])}" for r in mf.rows)
            if rows != keyset(sigs):
                bad.append("manifest")
        except Exception as e:  # noqa: BLE001
            bad.append("manifest:" + type(e).__name__)
    return bad


def row_vs_signature(parent_sigs, kw):
    """`CollectionManifest._select` and the SQL of `SqliteCollectionManifest` must agree, row for signature, with
    `select_signature` on every signature of the collection the select is applied to"""
    bad = []
    try:
        ref = [bool(select_signature(ss, **kw)) for ss in parent_sigs]
    except ValueError:
        return bad                     # the reference refuses (containment without scaled): nothing to compare
    rows = [CollectionManifest.make_manifest_row(ss, f"loc{i}", include_signature=False) for i, ss in enumerate(parent_sigs)]
    try:
        got = {r["internal_location"] for r in CollectionManifest(rows)._select(**kw)}
        if [f"loc{i}" in got for i in range(len(rows))] != ref:
            bad.append("rowsig")
    except Exception as e:  # noqa: BLE001
        bad.append("rowsig:" + type(e).__name__)
    try:
        smf = SqliteCollectionManifest.load_from_manifest(CollectionManifest(rows))
        got = {r["internal_location"] for r in smf.select_to_manifest(**kw).rows}
        if [f"loc{i}" in got for i in range(len(rows))] != ref:
            bad.append("sqlsig")
        smf.conn.close()
    except Exception as e:  # noqa: BLE001
        bad.append("sqlsig:" + type(e).__name__)
    return bad


META = ("manifest", "gather", "prefetch", "search")
SIMPLE = ("md5", "md5prefix8", "md5short", "name", "ident", "identprefix")


def load_picklist(path, coltype, style, column="", route=0):
    """four spellings that must give the same picklist: the argument string with / without an explicit `:include`,
    the constructor + load(), and init()/add() with the values the loader would have produced"""
    ps = PickStyle.INCLUDE if style == "inc" else PickStyle.EXCLUDE
    route %= 4
    if route == 1 and style == "inc":
        pl = SignaturePicklist.from_picklist_args(f"{path}:{column}:{coltype}")          # default pickstyle
        pl.load(allow_empty=True)
    elif route == 2:
        pl = SignaturePicklist(coltype, pickfile=path, column_name=column or None, pickstyle=ps)
        pl.load(allow_empty=True)
    elif route == 3:
        ref = SignaturePicklist.from_picklist_args(f"{path}:{column}:{coltype}:{'include' if style == 'inc' else 'exclude'}")
        ref.load(allow_empty=True)
        vals = sorted(ref.pickset or [], key=str)
        pl = SignaturePicklist(coltype, pickstyle=ps)
        pl.init(vals[:1])
        for v in vals[1:]:
            pl.add(v)
    else:
        pl = SignaturePicklist.from_picklist_args(f"{path}:{column}:{coltype}:{'include' if style == 'inc' else 'exclude'}")
        pl.load(allow_empty=True)
    if pl.pickset is None:
        pl.pickset = set()
    return pl


def do_search(x, qs, route):
    """routes that all mean 'shares a hash with the query' at threshold 0"""
    route %= 4
    scaled = bool(qs.minhash.scaled)
    if route == 1 and scaled:
        return [r.signature for r in x.search(qs, threshold=0, do_containment=True)]
    if route == 2 and scaled:
        try:
            return [r.signature for r in x.prefetch(qs, 0)]
        except ValueError as e:
            if "no signatures to search" in str(e):
                return []
            raise
    if route == 3:
        return [r.signature for r in x.find(make_jaccard_search_query(threshold=0.0), qs)]
    return [r.signature for r in x.search(qs, threshold=0)]


def main():
    out = sys.stdout
    cs = None
    ncase = 0
    for line in sys.stdin:
        w = line.split()
        if not w:
            out.write("bad-op\n")
            continue
        op = w[0]
        if op == "#":
            if cs is not None:
                cs.close()
            ncase += 1
            cs = Case(ncase)
            out.write("#\n")
            continue
        a = w[1:]
        res = "bad-op"
        try:
            if op == "sig" and len(a) == 9:
                i, k, mol, num, sc, ab, md5, name, hs = a
                if mol not in ("DNA", "protein", "dayhoff", "hp") or ab not in ("0", "1"):
                    raise KeyError
                mh = MinHash(int(num), int(k), scaled=int(sc), track_abundance=(ab == "1"),
                             is_protein=(mol == "protein"), dayhoff=(mol == "dayhoff"), hp=(mol == "hp"))
                mh.add_many(intlist(hs))
                ss = SourmashSignature(mh, name=unhex(name))
                if ss.md5sum() != md5:
                    res = "err md5mismatch " + ss.md5sum()
                else:
                    cs.sigs[int(i)] = ss
                    res = "ok"
            elif op == "coll" and len(a) >= 3:
                c, kind = int(a[0]), a[1]
                sigs = [cs.sigs[i] for i in intlist(a[2])]
                x = mk_coll(cs, kind, sigs, a[3:])
                if x is not None:
                    cs.colls[c] = x
                    res = f"ok {len(sigs)}"
            elif op == "pl" and len(a) >= 3:
                p, ct, sty = int(a[0]), a[1], a[2]
                if sty not in ("inc", "exc") or ct not in META + SIMPLE:
                    raise KeyError
                path = cs.path(".csv")
                with open(path, "w", newline="") as fp:
                    wr = csv.writer(fp)
                    if ct in META:
                        cols = ["match_name", "match_md5"] if ct == "prefetch" else ["name", "md5"]
                        wr.writerow(cols + ["other"])
                        for v in a[3:]:
                            x, y = v.split(":")
                            wr.writerow([unhex(x), unhex(y), "z"])
                        column = ""
                    else:
                        wr.writerow(["col", "other"])
                        for v in a[3:]:
                            wr.writerow([unhex(v), "z"])
                        column = "col"
                cs.route += 1
                cs.pls[p] = load_picklist(path, ct, sty, column, cs.route)
                res = show_pickset(cs.pls[p])
            elif op == "plarg" and len(a) == 1:
                arg = unhex(a[0])
                try:
                    pl = SignaturePicklist.from_picklist_args(arg)
                    res = (f"ok {pl.coltype} {'exc' if pl.pickstyle == PickStyle.EXCLUDE else 'inc'} "
                           f"{hx(pl.orig_colname or '')} {hx(pl.pickfile or '')}")
                except Exception as e:  # noqa: BLE001
                    res = "err " + exc_name(e)
            elif op == "plfrom" and len(a) == 5:
                p, ct, sty, c, q = int(a[0]), a[1], a[2], int(a[3]), int(a[4])
                if sty not in ("inc", "exc") or ct not in META:
                    raise KeyError
                x = cs.colls[c]
                qs = cs.sigs[q].to_frozen()
                path = cs.path(".csv")
                try:
                    with open(path, "w", newline="") as fp:
                        if ct == "manifest":
                            mf = CollectionManifest.create_manifest(((ss, "loc") for ss in x.signatures()),
                                                                    include_signature=False)
                            mf.write_to_csv(fp, write_header=True)
                        else:
                            if ct == "search":
                                results = search_databases_with_flat_query(
                                    qs, [x], threshold=0.0, do_containment=False, do_max_containment=False,
                                    best_only=False, unload_data=False)
                            elif ct == "prefetch":
                                results = list(prefetch_database(qs, x, 0))
                            else:
                                counters = [x.counter_gather(qs, 0)]
                                results = list(GatherDatabases(qs, counters, threshold_bp=0, ignore_abundance=True))
                            wr = None
                            for r in results:
                                if wr is None:
                                    wr = r.init_dictwriter(fp)
                                r.write(wr)
                    cs.pls[p] = load_picklist(path, ct, sty)
                    res = show_pickset(cs.pls[p])
                except (KeyError, IndexError):
                    raise
                except Exception as e:
                    if os.environ.get("C12_DEBUG"):
                        import traceback
                        traceback.print_exc()
                    res = "err incompatible"
            elif op == "sel" and len(a) >= 2:
                r, c = int(a[0]), int(a[1])
                x = cs.colls[c]
                kw = {}
                for kv in a[2:]:
                    k, v = kv.split("=")
                    if k == "k":
                        kw["ksize"] = None if v == "None" else int(v)
                    elif k == "m":
                        if v not in ("None", "DNA", "protein", "dayhoff", "hp", "dna", "Protein"):
                            raise KeyError
                        kw["moltype"] = None if v == "None" else v
                    elif k == "s":
                        kw["scaled"] = int(v)
                    elif k == "n":
                        kw["num"] = int(v)
                    elif k == "a":
                        kw["abund"] = None if v == "None" else {"0": False, "1": True}[v]
                    elif k == "c":
                        kw["containment"] = {"0": False, "1": True}[v]
                    elif k == "p":
                        kw["picklist"] = cs.pls[int(v)]
                    else:
                        raise KeyError
                flags = []
                if "moltype" not in kw or kw["moltype"] in (None, "DNA", "protein", "dayhoff", "hp"):
                    try:
                        parent = list(x.signatures())
                    except Exception:  # noqa: BLE001
                        parent = None
                    if parent is not None:
                        flags = row_vs_signature(parent, kw)
                        if "picklist" in kw:
                            # `picklist.filter(iterable)` is `ss in picklist` spelt on the picklist
                            pl_ = kw["picklist"]
                            if keyset(pl_.filter(parent)) != keyset(ss for ss in parent if ss in pl_):
                                flags.append("plfilter")
                try:
                    cs.route += 1
                    y = None
                    if type(x) is LinearIndex and set(kw) <= {"ksize", "moltype"} and cs.route % 3 == 0 \
                            and all(v is not None for v in kw.values()) and kw.get("moltype", "DNA") in ("DNA", "protein", "dayhoff", "hp") \
                            and all(ss.minhash.moltype == "DNA" for ss in x.signatures()):
                        # (DNA members only: for protein/dayhoff/hp the loader's ksize means the stored 3k, known finding C09.1)
                        # another route to the same selection: the loader's own ksize / moltype selector (native code)
                        buf = io.StringIO()
                        save_signatures_to_json(list(x.signatures()), buf)
                        y = LinearIndex(load_signatures_from_json(buf.getvalue(), ksize=kw.get("ksize"),
                                                                  select_moltype=kw.get("moltype")))
                    if y is None:
                        y = x.select(**kw)
                    cs.colls[r] = y
                    res = "ok" + "".join(" !" + f for f in flags)
                except (KeyError, IndexError):
                    raise
                except BaseException as e:
                    if isinstance(e, (KeyboardInterrupt, SystemExit)):
                        raise
                    res = "err " + exc_name(e)
            elif op == "sigs" and len(a) == 1:
                h = int(a[0])
                x = cs.colls[h]
                try:
                    cs.route += 1
                    if cs.route % 2:
                        sl = list(x.signatures())
                    else:
                        try:
                            sl = [ss for ss, _ in x.signatures_with_location()]
                        except NotImplementedError:
                            sl = list(x.signatures())
                    flags = view_checks(x, sl)
                    # histories: every collection listed earlier in this case must still list the same
                    inplace = type(x).__name__ in ("SBT", "LCA_Database")
                    for h2, (obj, keys) in list(cs.listed.items()):
                        if type(obj).__name__ in ("SBT", "LCA_Database"):
                            continue
                        try:
                            if keyset(obj.signatures()) != keys:
                                flags.append(f"history{h2}")
                        except Exception as e:  # noqa: BLE001
                            flags.append(f"history{h2}:{type(e).__name__}")
                    if not inplace:
                        cs.listed[h] = (x, keyset(sl))
                        if len(cs.listed) > 6:
                            cs.listed.pop(next(iter(cs.listed)))
                    res = show_sigs(sl) + "".join(" !" + f for f in flags)
                except Exception as e:
                    if os.environ.get("C12_DEBUG"):
                        import traceback
                        traceback.print_exc()
                    res = "err " + exc_name(e)
            elif op == "search" and len(a) == 2:
                x = cs.colls[int(a[0])]
                qs = cs.sigs[int(a[1])]
                try:
                    cs.route += 1
                    first = do_search(x, qs, cs.route)
                    flags = []
                    # the same question asked another way, and once more
                    second = do_search(x, qs, cs.route + 1)
                    if keyset(first) != keyset(second):
                        flags.append("routes")
                    if qs.minhash.scaled and first is not None:
                        try:
                            best = x.best_containment(qs, threshold_bp=0)
                        except ValueError:
                            best = None
                        if (best is None) != (not first) and type(x).__name__ != "LazyLinearIndex":
                            flags.append("best")
                        elif best is not None and f"{best.signature.md5sum()}:{hx(best.signature.name)}" not in keyset(first):
                            flags.append("best")
                    res = show_sigs(first) + "".join(" !" + f for f in flags)
                except Exception as e:
                    if os.environ.get("C12_DEBUG"):
                        import traceback
                        traceback.print_exc()
                    res = "err incompatible"
        except (KeyError, IndexError, ValueError) as e:
            if os.environ.get("C12_DEBUG"):
                import traceback
                traceback.print_exc()
            res = "bad-op"
        out.write(res + "\n")
    if cs is not None:
        cs.close()
    out.flush()


if __name__ == "__main__":
    main()
