"""Real-code adapter for the `gather` / `partition` streams (C07, C08): executes each op
line against the sourmash package assembled from /repo's working tree and prints one
canonical observation per line.

Observation points: public API (`LinearIndex`, `counter_gather`, `CounterGather.peek/consume`,
`GatherDatabases`, `GatherResult` attributes) plus the plain Python attributes
`CounterGather.counter` / `.scaled` and `GatherDatabases.query/.counters/.cmp_scaled`.
"""
import os
import shutil
import struct
import sys
import tempfile

import sourmash
from sourmash import MinHash, SourmashSignature
from sourmash.index import LinearIndex
from sourmash.search import GatherDatabases, search_databases_with_flat_query

VERIF = os.path.dirname(os.path.dirname(os.path.dirname(os.path.abspath(__file__))))
TMPROOT = os.path.join(VERIF, ".build", "tmp")


def canonF(x):
    """a non-negative double as <odd mantissa>p<exponent> (what F64.toStr prints)"""
    x = float(x)
    if x == 0:
        return "0p0"
    n, d = x.as_integer_ratio()
    e = 0
    if d == 1:
        while n % 2 == 0:
            n //= 2
            e += 1
    else:
        e = -(d.bit_length() - 1)
    return f"{n}p{e}"


def bitsF(x):
    return "~" + str(struct.unpack("<Q", struct.pack("<d", float(x)))[0])


def exc_name(e):
    if isinstance(e, ValueError) and "varN" in str(e):
        return "ValueError:varN<0"          # distance_utils.var_n_mutated (finding D16 of C17)
    for cls in (KeyError, TypeError, RuntimeError, AssertionError, ZeroDivisionError, ValueError, OverflowError):
        if isinstance(e, cls):
            return cls.__name__
    return type(e).__name__


def join(l):
    return ",".join(str(x) for x in l)


def show_counter(c):
    return f"{c.scaled}:" + ",".join(f"{int(k, 16)}={v}" for k, v in c.counter.items())


def show_cobj(o):
    return show_counter(o) if hasattr(o, "counter") else "i"


def show_gd(g):
    return f"q={join(sorted(g.query.minhash.hashes))} c=" + ";".join(show_cobj(c) for c in g.counters)


def opt(f, v):
    return "-" if v is None else f(v)


def show_res(r):
    nuw = getattr(r, "n_unique_weighted_found", None)
    return (f"rank={r.gather_result_rank} name={r.match.name} md5={int(r.match.md5sum(), 16)} sc={r.cmp_scaled}"
            f" ibp={r.intersect_bp} ubp={r.unique_intersect_bp}"
            f" fo={canonF(r.f_orig_query)} fm{bitsF(r.f_match)} fmo{bitsF(r.f_match_orig)}"
            f" fu={canonF(r.f_unique_to_query)} fw={canonF(r.f_unique_weighted)}"
            f" avg={opt(canonF, r.average_abund)} med={opt(canonF, r.median_abund)}"
            f" std{opt(bitsF, r.std_abund)} rem={r.remaining_bp} nuw={opt(str, nuw)}"
            f" swf={r.sum_weighted_found} twh={r.total_weighted_hashes} qbp={r.query_bp} qn={r.query_n_hashes}"
            f" qab={int(bool(r.query_abundance))} io={join(sorted(r.cmp.intersect_mh.hashes))}"
            f" iu={join(sorted(r.gather_comparison.intersect_mh.hashes))}")


class BadOp(Exception):
    pass


_tmpdir = None


def tmpdir():
    global _tmpdir
    if _tmpdir is None:
        os.makedirs(TMPROOT, exist_ok=True)
        _tmpdir = tempfile.mkdtemp(prefix="gather_impl_", dir=TMPROOT)
    return _tmpdir


def cleanup():
    global _tmpdir
    if _tmpdir is not None:
        shutil.rmtree(_tmpdir, ignore_errors=True)
        _tmpdir = None


_n = [0]


def build_container(kind, sigs):
    """zip / sbt / lca / sql collections of the given signatures, inserted in this order"""
    _n[0] += 1
    if kind == "lin":
        return LinearIndex(sigs)           # (`xdb lin` goes through build_linear: see the op)
    if kind == "lazy":
        from sourmash.index import LazyLinearIndex
        return LazyLinearIndex(LinearIndex(sigs))       # what `--linear` wraps every database in
    if kind == "zip":
        from sourmash.sourmash_args import SaveSignaturesToLocation
        p = os.path.join(tmpdir(), f"c{_n[0]}.zip")
        with SaveSignaturesToLocation(p) as sv:
            for x in sigs:
                sv.add(x)
        return sourmash.load_file_as_index(p)
    if kind == "sbt":
        from sourmash.sbtmh import create_sbt_index
        t = create_sbt_index()
        for x in sigs:
            t.insert(x)
        return t
    if kind == "lca":
        from sourmash.lca import LCA_Database
        db = LCA_Database(21, sigs[0].minhash.scaled, "DNA")
        for x in sigs:
            db.insert(x)
        return db
    if kind == "sql":
        from sourmash.index.sqlite_index import SqliteIndex
        p = os.path.join(tmpdir(), f"c{_n[0]}.sqldb")
        db = SqliteIndex.create(p)
        for x in sigs:
            db.insert(x)
        db.commit()
        return db
    raise BadOp(kind)


def rows(l):
    """(score, signature) rows in result order"""
    return ",".join(f"{sig.name}:{int(sig.md5sum(), 16)}:{canonF(sc)}" for sc, sig in l)


def canon_rows(l, best_only=False):
    """the same rows as a canonical multiset: sorted by (score desc, md5), names dropped"""
    r = sorted(((-float(sc), int(sig.md5sum(), 16)) for sc, sig in l))
    if best_only:
        return canonF(-r[0][0]) if r else ""
    return ",".join(f"{m}:{canonF(-sc)}" for sc, m in r)


ST = {"j": {}, "c": {"do_containment": True}, "m": {"do_max_containment": True}}


def xres(r):
    """the columns of a gather round that do not depend on which of several identical sketches is named"""
    return (f"md5={int(r.match.md5sum(), 16)} sc={r.cmp_scaled} ibp={r.intersect_bp} ubp={r.unique_intersect_bp}"
            f" fo={canonF(r.f_orig_query)} fm{bitsF(r.f_match)} fu={canonF(r.f_unique_to_query)}"
            f" fw={canonF(r.f_unique_weighted)} rem={r.remaining_bp} swf={r.sum_weighted_found}"
            f" twh={r.total_weighted_hashes} rank={r.gather_result_rank}"
            f" iu={join(sorted(r.gather_comparison.intersect_mh.hashes))}")


class Table(dict):
    def __missing__(self, k):
        raise BadOp(k)


class State:
    def __init__(self):
        self.sigs = Table()
        self.dbs = Table()
        self.cnts = Table()
        self.gd = None
        self.dead = False
        self.xgd = None
        self.route = 0          # per-case counter the model does not see: which of several equivalent routes to take
        self.hist = []          # every GatherResult handed out in this case (uncopied) with its first observation
        self.gd_noid = None


def route(S, n):
    S.route += 1
    return S.route % n


def build_linear(S, sigs):
    """the same LinearIndex by four routes: constructor, empty + insert(), save() + load(), MultiIndex of two halves"""
    r = route(S, 4) if sigs else 0
    if r == 0:
        return LinearIndex(sigs)
    if r == 1:
        idx = LinearIndex()
        for x in sigs:
            idx.insert(x)
        return idx
    if r == 2:
        _n[0] += 1
        p = os.path.join(tmpdir(), f"lin{_n[0]}.sig")
        LinearIndex(sigs).save(p)
        return LinearIndex.load(p)
    from sourmash.index import MultiIndex
    h = (len(sigs) + 1) // 2
    parts = [LinearIndex(sigs[:h])] + ([LinearIndex(sigs[h:])] if sigs[h:] else [])
    return MultiIndex.load(parts, [None] * len(parts), parent="")


def md5s(sigs):
    return sorted(x.md5sum() for x in sigs)


def view_db(db, sigs):
    """everything that can be read about a collection must agree: len / bool / signatures() /
    signatures_with_location() / the manifest (when there is one)"""
    n = len(sigs)
    if len(db) != n:
        return "len"
    if bool(db) != (n > 0):
        return "bool"
    want = md5s(sigs)
    if md5s(db.signatures()) != want:
        return "signatures"
    if md5s(x for x, _ in db.signatures_with_location()) != want:
        return "signatures_with_location"
    m = getattr(db, "manifest", None)
    if m is not None and sorted(r["md5"] for r in m.rows) != want:
        return "manifest"
    return None


def view_counter(cn):
    """CounterGather: counter / siglist / locations carry the same keys, signatures() lists them, union_found is
    the same on a second reading and is the union of the stored matches intersected with the original query"""
    if set(cn.counter) != set(cn.siglist) or set(cn.siglist) != set(cn.locations):
        return "counter-keys"
    if md5s(cn.signatures()) != sorted(cn.siglist):
        return "signatures"
    u1 = set(cn.union_found.hashes)
    u2 = set(cn.union_found.hashes)
    if u1 != u2:
        return "union_found-twice"
    return None


def view_result(r, g, noid):
    """a GatherResult against the objects it was built from and against the iterator's state"""
    if r.md5 != r.match.md5sum() or r.name != r.match.name:
        return "match-identity"
    if r.intersect_bp != len(r.cmp.intersect_mh) * r.cmp_scaled:
        return "intersect_bp"
    if r.unique_intersect_bp != len(r.gather_comparison.intersect_mh) * r.gather_comparison.cmp_scaled:
        return "unique_intersect_bp"
    left = len(g.query.minhash) * g.query.minhash.scaled
    if noid is not None:
        left += len(noid.downsample(scaled=g.query.minhash.scaled)) * g.query.minhash.scaled
    if r.remaining_bp != left:
        return "remaining_bp"
    nuw = getattr(r, "n_unique_weighted_found", None)
    if nuw is not None and r.total_weighted_hashes and r.f_unique_weighted != nuw / r.total_weighted_hashes:
        return "f_unique_weighted"
    return None


def recheck_history(S):
    """earlier results must still read as they did when they were handed out"""
    for r, first in S.hist:
        if show_res(r) != first:
            return "history:result-changed"
    return None


def parse_cobj(S, w):
    if w[0] == "c":
        return S.cnts[int(w[1:])]
    if w[0] == "i":
        return S.dbs[int(w[1:])]
    raise BadOp(w)


def opt_mh(S, w):
    return None if w == "-" else S.sigs[int(w)].minhash


def main():
    S = State()
    out = sys.stdout
    for line in sys.stdin:
        w = line.split()
        if not w:
            out.write("bad-op L=ok\n")
            continue
        op = w[0]
        a = w[1:]
        try:
            if op == "#":
                S = State()
                out.write("#\n")
                continue
            if op == "sig":
                slot, name, md5, scaled, track = int(a[0]), a[1], int(a[2]), int(a[3]), bool(int(a[4]))
                ps = [(int(p.split(":")[0]), int(p.split(":")[1])) for p in a[5:]]
                mh = MinHash(0, 21, scaled=scaled, track_abundance=track, seed=42)
                if track:
                    mh.set_abundances(dict(ps))
                else:
                    mh.add_many([h for h, _ in ps])
                ss = SourmashSignature(mh, name=name).to_frozen()
                if int(ss.md5sum(), 16) != md5:
                    res = "bad-md5"
                else:
                    S.sigs[slot] = ss
                    res = f"ok n={len(mh)} sc={mh.scaled}"
            elif op == "db":
                slot = int(a[0])
                members = [S.sigs[int(x)] for x in a[1:]]
                S.dbs[slot] = build_linear(S, members)
                res = f"ok {len(S.dbs[slot])}"
                v = view_db(S.dbs[slot], members)
                if v:
                    res += " V=db:" + v
            elif op == "cg":
                c, d, q, thr = map(int, a)
                cn = S.dbs[d].counter_gather(S.sigs[q], float(thr) if route(S, 2) else thr)
                S.cnts[c] = cn
                res = "ok " + show_counter(cn)
                v = view_counter(cn)
                if v is None and route(S, 4) == 0:
                    # the same call with the query as a mutable SourmashSignature (every other entry point of the
                    # index accepts one)
                    try:
                        c2 = S.dbs[d].counter_gather(S.sigs[q].to_mutable(), thr)
                        if show_counter(c2) != show_counter(cn):
                            v = "mutable-query"
                    except AttributeError:
                        v = "rejects-mutable-query:AttributeError"
                if v:
                    res += " V=counter:" + v
            elif op == "peek":
                c, q, thr = map(int, a)
                cn = S.cnts[c]

                def peek_line():
                    mh = S.sigs[q].minhash
                    r = cn.peek(mh.to_mutable() if route(S, 2) else mh, threshold_bp=thr)
                    if not r:
                        return f"ok none sc={cn.scaled}"
                    sr, inter = r
                    return (f"ok name={sr.signature.name} md5={int(sr.signature.md5sum(), 16)} score{bitsF(sr.score)}"
                            f" sc={cn.scaled} inter={join(sorted(inter.hashes))}")
                res = peek_line()
                before = show_counter(cn)
                if peek_line() != res or show_counter(cn) != before:
                    res += " V=peek-twice"          # peek is read-only up to the (idempotent) refresh of stale counters
            elif op == "consume":
                c, q = map(int, a)
                cn = S.cnts[c]
                cn.consume(S.sigs[q].minhash)
                res = "ok " + show_counter(cn)
            elif op == "split":
                # the bookkeeping lines of commands.gather / multigather (prefetch branch)
                islot, nslot, q = int(a[0]), int(a[1]), int(a[2])
                prefetch_query = S.sigs[q].copy()
                if prefetch_query.minhash.track_abundance:
                    with prefetch_query.update() as prefetch_query:
                        prefetch_query.minhash = prefetch_query.minhash.flatten()
                noident_mh = prefetch_query.minhash.to_mutable()
                ident_mh = noident_mh.copy_and_clear()
                for x in a[3:]:
                    counter = S.cnts[int(x)]
                    union_found = counter.union_found
                    ident_mh.add_many(union_found)
                    noident_mh.remove_many(union_found)
                S.sigs[islot] = SourmashSignature(ident_mh).to_frozen()
                S.sigs[nslot] = SourmashSignature(noident_mh).to_frozen()
                res = f"ok ident={join(sorted(ident_mh.hashes))} noident={join(sorted(noident_mh.hashes))}"
            elif op == "gd":
                q, thr, ign = int(a[0]), int(a[1]), bool(int(a[2]))
                noid, ident = opt_mh(S, a[3]), opt_mh(S, a[4])
                cs = [parse_cobj(S, x) for x in a[5:]]
                qsig = S.sigs[q]
                S.gd = None
                S.dead = True
                g = GatherDatabases(qsig, cs, threshold_bp=float(thr) if route(S, 2) else thr, ignore_abundance=ign,
                                    noident_mh=noid, ident_mh=ident)
                S.gd = g
                S.gd_noid = noid
                S.hist = []
                S.dead = False
                res = f"ok cmp={g.cmp_scaled} twh={g.total_weighted_hashes} nsum={g.noident_query_sum_abunds} " + show_gd(g)
            elif op == "xdb":
                slot, kind = int(a[0]), a[1]
                members = [S.sigs[int(x)] for x in a[2:]]
                S.dbs[slot] = build_linear(S, members) if kind == "lin" else build_container(kind, members)
                res = f"ok {len(a) - 2}"
                v = view_db(S.dbs[slot], members)
                if v:
                    res += " V=db:" + v
            elif op in ("search", "searchc"):
                kw = dict(ST[a[0]])
                bo, tnum, tden, q = bool(int(a[1])), int(a[2]), int(a[3]), int(a[4])
                dbs = [S.dbs[int(x)] for x in a[5:]]
                r = search_databases_with_flat_query(S.sigs[q], dbs, threshold=tnum / tden, best_only=bo, **kw)
                l = [(x.similarity, x.match) for x in r]
                res = "ok " + (rows(l) if op == "search" else canon_rows(l, bo))
                for x in r:
                    dd = dict(x.resultdict)
                    if dd != dict(x.resultdict) or dd["similarity"] != x.similarity or dd["md5"] != x.match.md5sum():
                        res += " V=search-resultdict"
                        break
            elif op in ("pfall", "pfallc"):
                q, thr = int(a[0]), int(a[1])
                query = S.sigs[q]
                if query.minhash.track_abundance:
                    with query.update() as query:
                        query.minhash = query.minhash.flatten()
                l = []
                dbl = [S.dbs[int(d)] for d in a[2:]]
                for db in dbl:
                    if not db:
                        continue
                    for r in db.prefetch(query, thr):
                        l.append((r.score, r.signature))
                res = "ok " + (rows(l) if op == "pfall" else canon_rows(l))
                if op == "pfallc" and route(S, 2):
                    # a read-only entry point called again on the same objects, the collections in the other order
                    l2 = []
                    for db in reversed(dbl):
                        if not db:
                            continue
                        for r in db.prefetch(query, thr):
                            l2.append((r.score, r.signature))
                    if canon_rows(l2) != canon_rows(l):
                        res += " V=prefetch-twice"
            elif op == "xsa":
                from sourmash.search import search_databases_with_abund_query
                bo, tnum, tden, q = bool(int(a[0])), int(a[1]), int(a[2]), int(a[3])
                dbs = [S.dbs[int(x)] for x in a[4:]]
                try:
                    r = search_databases_with_abund_query(S.sigs[q], dbs, threshold=tnum / tden, best_only=bo)
                    res = "x ok " + canon_rows([(x.similarity, x.match) for x in r], bo)
                except BadOp:
                    raise
                except BaseException as e:      # noqa: BLE001
                    res = "x err " + exc_name(e)
            elif op == "xpfc":
                # what `sourmash prefetch` reports: search.prefetch_database over every collection (the rows of
                # Index.prefetch that pass PrefetchResult.pass_threshold), query flattened as the command does
                from sourmash.search import prefetch_database
                q, thr = int(a[0]), int(a[1])
                query = S.sigs[q]
                if query.minhash.track_abundance:
                    with query.update() as query:
                        query.minhash = query.minhash.flatten()
                l = []
                vbad = None
                dbl = [S.dbs[int(d)] for d in a[2:]]        # (resolve every slot first, as the model does)
                try:
                    for db in dbl:
                        if not db:
                            continue
                        for r in prefetch_database(query, db, thr):
                            l.append((r.f_match_query, r.match))
                            d1 = dict(r.prefetchresultdict)      # the CSV view against the attributes, read twice
                            if d1 != dict(r.prefetchresultdict) or d1["match_md5"] != r.match.md5sum()[:8] \
                                    or d1["f_match_query"] != r.f_match_query or d1["intersect_bp"] != r.intersect_bp:
                                vbad = "prefetchresultdict"
                    res = "x ok " + canon_rows(l) + (" V=" + vbad if vbad else "")
                except BadOp:
                    raise
                except BaseException as e:      # noqa: BLE001
                    res = "x err " + exc_name(e)
            elif op == "xgd":
                q, thr, ign, mode = int(a[0]), int(a[1]), bool(int(a[2])), a[3]
                dbs = [S.dbs[int(x)] for x in a[4:]]
                qsig = S.sigs[q]
                S.xgd = None
                if mode == "p":
                    pq = qsig
                    if pq.minhash.track_abundance:
                        with pq.update() as pq:
                            pq.minhash = pq.minhash.flatten()
                    cs = []
                    for db in dbs:
                        try:
                            cs.append(db.counter_gather(pq, thr))
                        except ValueError:
                            continue            # commands.gather: empty database / unattainable threshold
                else:
                    cs = dbs
                S.xgd = GatherDatabases(qsig, cs, threshold_bp=thr, ignore_abundance=ign)
                res = "x ok"
            elif op == "xnext":
                if S.xgd is None:
                    res = "x dead"
                else:
                    try:
                        res = "x ok " + xres(next(S.xgd))
                    except StopIteration:
                        res = "x stop"
                    except BaseException as e:      # noqa: BLE001
                        S.xgd = None
                        res = "x err " + exc_name(e)
            elif op == "next":
                if S.dead:
                    res = "dead"
                elif S.gd is None:
                    res = "bad-op"
                else:
                    try:
                        r = S.gd.__next__() if route(S, 2) else next(S.gd)
                        first = show_res(r)
                        res = "ok " + first + " " + show_gd(S.gd)
                        v = view_result(r, S.gd, S.gd_noid) or recheck_history(S)
                        S.hist.append((r, first))
                        if v:
                            res += " V=result:" + v
                    except StopIteration:
                        res = "stop " + show_gd(S.gd)
                        v = recheck_history(S)
                        if v is None and S.hist:
                            # two readers in sequence on one object: the CSV view of a result must not depend on
                            # whether its prefetch view was read before
                            r0 = S.hist[0][0]
                            d1 = dict(r0.gatherresultdict)
                            r0.prefetchresultdict
                            d2 = dict(r0.gatherresultdict)
                            if d1 != d2:
                                v = "gatherresultdict-after-prefetchresultdict:" + ",".join(
                                    k for k in d1 if d1[k] != d2.get(k))
                        if v:
                            res += " V=" + v
                    except BaseException:
                        S.dead = True
                        raise
            else:
                res = "bad-op"
        except BadOp:
            res = "bad-op"
        except BaseException as e:          # noqa: BLE001
            res = "err " + exc_name(e)
        out.write(res + " L=ok\n")
    out.flush()
    cleanup()


if __name__ == "__main__":
    main()
