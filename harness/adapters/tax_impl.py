"""Real-code adapter for the `tax` stream (C19).

Runs under /venv/bin/python with PYTHONPATH = the package assembled from /repo's
working tree.  One case = one taxonomy + one gather result.  The gather result is
produced by RUNNING gather (`LinearIndex.counter_gather` + `GatherDatabases`, the
same calls `sourmash gather` makes) on sketches built from the `scn` line; the
`q`/`r` lines (what the model is driven with) are checked against that output.

Also used by the stream generator (`--gather`): prints the `q`/`r` lines gather
produces for each `scn` line read on stdin.
"""
import csv
import io
import os
import shutil
import sys
import tempfile

import sourmash  # noqa: F401
from sourmash import MinHash, SourmashSignature
from sourmash.index import LinearIndex
from sourmash.search import GatherDatabases
from sourmash.tax import tax_utils
from sourmash.tax.tax_utils import MultiLineageDB
from sourmash.logging import set_quiet

set_quiet(True, True)

STD = list(tax_utils.NCBI_RANKS)
ICTV = list(tax_utils.ICTV_RANKS)
KSIZE = 31


def dec(s):
    return "" if s == "-" else s.replace("~", " ")


def enc(s):
    return "-" if s == "" else s.replace(" ", "~")


def canon(x):
    """canonical text of a double: odd mantissa, binary exponent (as Model/Float64 `toStr`)"""
    x = float(x)
    if x == 0:
        return "0p0"
    n, d = abs(x).as_integer_ratio()
    e = -(d.bit_length() - 1)
    while n % 2 == 0:
        n //= 2
        e += 1
    return ("-" if x < 0 else "") + f"{n}p{e}"


def parse_hashes(s):
    out = []
    if s in ("", "-"):
        return out
    for part in s.split(","):
        if "-" in part:
            a, b = part.split("-")
            out.extend(range(int(a), int(b) + 1))
        else:
            out.append(int(part))
    return out


def run_gather(scn, qname="query1"):
    """scn: ['scn', scaled, nq, ab, name=hashes, ...] -> (csv text, rows)"""
    scaled = int(scn[1])
    nq = int(scn[2])
    ab = None if scn[3] == "-" else [int(x) for x in scn[3].split(",")]
    q = MinHash(0, KSIZE, scaled=scaled, track_abundance=ab is not None)
    hs = list(range(1, nq + 1))
    if ab is None:
        q.add_many(hs)
    else:
        q.set_abundances(dict(zip(hs, ab)))
    qs = SourmashSignature(q, name=qname, filename=qname + ".sig").to_frozen()
    sigs = []
    for i, spec in enumerate(scn[4:]):
        name, _, hl = spec.partition("=")
        m = MinHash(0, KSIZE, scaled=scaled)
        m.add_many(parse_hashes(hl))
        m.add_many(range(10 ** 6 + 1000 * i, 10 ** 6 + 1000 * i + 2))     # private hashes
        sigs.append(SourmashSignature(m, name=dec(name), filename=f"m{i}.sig").to_frozen())
    db = LinearIndex(sigs)
    # as sourmash.commands.gather does (prefetch on):
    pq = qs.copy()
    if pq.minhash.track_abundance:
        with pq.update() as pq:
            pq.minhash = pq.minhash.flatten()
    noident = pq.minhash.to_mutable()
    ident = noident.copy_and_clear()
    counter = db.counter_gather(pq, 0)
    ident.add_many(counter.union_found)
    noident.remove_many(counter.union_found)
    it = GatherDatabases(qs, [counter], threshold_bp=0, noident_mh=noident, ident_mh=ident)
    out = io.StringIO()
    w = None
    for r in it:
        if w is None:
            w = r.init_dictwriter(out)
        r.write(w)
    text = out.getvalue()
    rows = list(csv.DictReader(io.StringIO(text)))
    return text, rows


def qr_lines(rows):
    """the integers gather's rows are made of: N, W, scaled; k_i, w_i, name_i"""
    if not rows:
        return []
    r0 = rows[0]
    N = int(r0["query_n_hashes"])
    sc = int(r0["scaled"])
    W = int(r0["total_weighted_hashes"])
    out = [f"q {N} {W} {sc}"]
    for r in rows:
        k = int(r["unique_intersect_bp"]) // sc
        w = r.get("n_unique_weighted_found")
        w = int(w) if w not in (None, "") else k
        out.append(f"r {k} {w} {enc(r['name'])}")
    return out


def err_tag(e):
    s = str(e)
    if isinstance(e, ValueError):
        for pat, tag in (("> 100%", "gt100"), ("<=0%", "le0"), ("multiple lineages", "multi"),
                         ("fail-on-missing-taxonomy", "missing"), ("threshold must be between", "thr"),
                         ("no ranks remain", "noranks"), ("No gather results loaded", "empty"), ("Is file empty", "empty"), ("found in more than one CSV", "dupq"),
                         ("missing columns needed", "cols"),
                         ("not in summarized rank", "rank"), ("not available for any matching", "rank"),
                         ("not in available ranks", "rank"), ("not present in summarized ranks", "rank"),
                         ("not available for aggregation", "rank"), ("not available for this lineage", "rankavail"), ("one of the provided lingroups", "nolingroup")):
            if pat in s:
                return "ValueError:" + tag
        return "ValueError:other"
    return type(e).__name__


class Case:
    def __init__(self, tmp):
        self.tmp = tmp
        self.mode = "std"
        self.nranks = 8
        self.kf = self.kv = self.force = self.fail = False
        self.tax = []
        self.gather_text = None
        self.gather_rows = []
        self.order = None
        self.used = []
        self.done = []          # earlier queries of a multi-query run: csv lines (header + selected rows)
        self.layout = None      # files, each a list of (query index, row index)
        self.drop = []          # gather CSV columns removed before loading
        self.route = 0          # per-case counter the model does not see: alternates equivalent spellings / file shapes
        self.hist = []          # every result object earlier ops returned, with what was printed from it

    # ---- files ----
    def ranks(self):
        if self.mode == "ictv":
            return ICTV
        if self.mode == "lin":
            return None
        return STD

    def write_files(self):
        """the taxonomy CSV and the current query's gather CSV.  Equivalent shapes alternate with `self.route`:
        identifier column called ident / identifiers / accession, an unrelated extra column, rank columns in another
        order, a `taxpath` column of NCBI-style taxids (standard ranks), gather `name` column called `match_name`"""
        self.route += 1
        rt = self.route
        t = os.path.join(self.tmp, "tax.csv")
        idcol = ["ident", "identifiers", "accession"][rt % 3]
        with open(t, "w", newline="") as f:
            if self.mode == "lin":
                cols = [idcol, "lin"] + (["notes"] if rt % 2 else [])
                w = csv.DictWriter(f, cols)
                w.writeheader()
                for ident, cells in self.tax:
                    w.writerow({idcol: ident, "lin": cells[0] if cells else "", "notes": "x"} if rt % 2 else
                               {idcol: ident, "lin": cells[0] if cells else ""})
            else:
                ncol = max([len(c) for _, c in self.tax] + [7 if self.mode == "std" else 16])
                rcols = self.ranks()[:ncol]
                with_taxpath = self.mode == "std" and rt % 4 in (1, 2)
                cols = [idcol] + (list(reversed(rcols)) if rt % 5 == 3 else list(rcols))
                if rt % 2:
                    cols.insert(1, "notes")
                if with_taxpath:
                    cols.append("taxpath")
                w = csv.DictWriter(f, cols)
                w.writeheader()
                for ident, cells in self.tax:
                    cells = cells + [""] * (ncol - len(cells))
                    row = {idcol: ident, "notes": "n/a"} if rt % 2 else {idcol: ident}
                    row.update(zip(rcols, cells))
                    if with_taxpath:
                        # a taxid per (rank, names down to it): the same lineage prefix always gets the same id
                        import zlib
                        clean = ["" if c.strip() in ("", "NA", "na", "null", "[Blank]") else c for c in cells]
                        row["taxpath"] = "|".join(str(zlib.crc32(";".join(clean[:i + 1]).encode()) % 10 ** 7 + 1)
                                                  for i in range(ncol))
                    w.writerow(row)
        g = os.path.join(self.tmp, "gather.csv")
        self.write_csv(g, self.current_lines())
        return t, g

    def load_tax(self, t):
        """the taxonomy through one of the routes the package offers"""
        lins = self.mode == "lin"
        ictv = self.mode == "ictv"
        kw = dict(keep_full_identifiers=self.kf, keep_identifier_versions=self.kv, force=self.force, lins=lins, ictv=ictv)
        if self.route % 3 == 1:
            db = tax_utils.LineageDB.load(t, **kw)
            tax = MultiLineageDB()
            tax.add(db)
        else:
            tax = MultiLineageDB.load([t], **kw)
        if not tax:
            raise ValueError("No gather results loaded: empty taxonomy")      # CLI: exits with an error
        return tax

    def write_csv(self, path, lines):
        """the given CSV lines, minus the columns an older / foreign gather output would not have; on every other
        route the match name column is called `match_name` (sourmash 4.x prefetch/gather naming) and an extra column is added"""
        text = "".join(x + "\r\n" for x in lines)
        alt = self.route % 2 == 0 and bool(lines)
        if (self.drop or alt) and lines:
            rows = list(csv.reader(io.StringIO(text)))
            keep = [i for i, c in enumerate(rows[0]) if c not in self.drop]
            out = io.StringIO()
            wr = csv.writer(out)
            for j, r in enumerate(rows):
                vals = [r[i] for i in keep]
                if alt:
                    if j == 0:
                        vals = ["match_name" if c == "name" else c for c in vals] + ["extra_col"]
                    else:
                        vals = vals + ["zzz"]
                wr.writerow(vals)
            text = out.getvalue()
        with open(path, "w", newline="") as f:
            f.write(text)

    def current_lines(self):
        lines = (self.gather_text or "").split("\r\n")
        if lines and lines[-1] == "":
            lines = lines[:-1]
        if lines:
            sel = [self.used[i] for i in self.order] if self.order is not None else list(self.used)
            lines = [lines[0]] + [lines[1 + i] for i in sel]
        return lines

    def write_all_files(self):
        t, _ = self.write_files()
        files = []
        per_q = self.done + [self.current_lines()]
        if self.layout is None:
            contents = per_q
        else:
            # any delivery of the same rows: several queries interleaved in one CSV, a query split over files, repeats
            header = next((l[0] for l in per_q if l), None)
            contents = [([header] if header is not None else []) + [per_q[qi][1 + ri] for qi, ri in f] for f in self.layout]
        for i, lines in enumerate(contents):
            g = os.path.join(self.tmp, f"gather{i}.csv")
            self.write_csv(g, lines)
            files.append(g)
        return t, files

    def load_all(self):
        """every query of a multi-query run, one gather CSV per query, as `tax metagenome -g a.csv b.csv` reads them"""
        t, files = self.write_all_files()
        lins = self.mode == "lin"
        ictv = self.mode == "ictv"
        tax = self.load_tax(t)
        res = tax_utils.check_and_load_gather_csvs(files, tax, force=False, fail_on_missing_taxonomy=self.fail,
                                                   keep_full_identifiers=self.kf,
                                                   keep_identifier_versions=self.kv, lins=lins, ictv=ictv)
        for q in res:
            q.build_summarized_result()
        return res

    def load(self):
        t, g = self.write_files()
        lins = self.mode == "lin"
        ictv = self.mode == "ictv"
        tax = self.load_tax(t)
        kw = dict(fail_on_missing_taxonomy=self.fail, keep_full_identifiers=self.kf,
                  keep_identifier_versions=self.kv, lins=lins, ictv=ictv)
        if self.route % 4 == 3:
            # the single-file loader directly (what check_and_load_gather_csvs calls per file)
            d, _hdr = tax_utils.load_gather_results(g, tax, **kw)
            res = list(d.values())
        else:
            res = tax_utils.check_and_load_gather_csvs([g] if self.route % 2 else g, tax, force=False, **kw)
        assert len(res) == 1
        return res[0]

    def rank_name(self, q, r):
        if self.mode == "lin":
            return str(r)
        return self.ranks()[r] if r < len(self.ranks()) else f"norank{r}"


def check_views(q, cls=False):
    """whatever can be read about a QueryTaxResult through two routes must agree (raises AssertionError)"""
    assert len(q.raw_taxresults) >= q.n_missed + q.n_skipped
    assert q.n_missed == sum(1 for t in q.raw_taxresults if t.missed_ident), "n_missed vs the rows flagged missed"
    assert set(q.missed_idents) == {t.match_ident for t in q.raw_taxresults if t.missed_ident}
    for rank, results in q.summarized_lineage_results.items():
        if not results:
            continue
        classified = [r for r in results if r.lineage.filled_ranks]
        uncl = [r for r in results if not r.lineage.filled_ranks]
        assert len(uncl) <= 1, "two unclassified entries at one rank"
        assert q.total_bp_classified[rank] == sum(r.bp_match_at_rank for r in classified), \
            f"total_bp_classified[{rank}] {q.total_bp_classified[rank]} != sum of the classified entries"
        for r in classified:
            assert q.sum_uniq_bp[rank][r.lineage] == r.bp_match_at_rank, "sum_uniq_bp vs the entry"
            assert r.rank == rank
        if uncl:
            assert sum(r.bp_match_at_rank for r in results) == q.query_info.query_bp, \
                f"rank {rank}: classified + unclassified bp != query bp"
            assert uncl[0].bp_match_at_rank == q.query_info.query_bp - q.total_bp_classified[rank]
    for rank in q.summarized_ranks:
        assert rank in q.sum_uniq_bp, "summarized rank without sums"
    c = q.classification_result if cls else None       # (a stored classification is a snapshot: only checked when fresh)
    if c is not None:
        assert c.rank in q.classified_ranks
        assert q.sum_uniq_bp[c.rank][c.lineage] == c.bp_match_at_rank
        hdr, rows = q.make_full_summary(classification=True)
        assert rows[0]["status"] == c.status and rows[0]["rank"] == c.rank
        assert float(rows[0]["fraction"]) == c.fraction and rows[0]["bp_match_at_rank"] == str(c.bp_match_at_rank)
        hum = q.make_human_summary(display_rank=c.rank, classification=True)
        assert hum[0]["lineage"] == rows[0]["lineage"] and hum[0]["status"] == c.status
        if q.krona_classified is not None:
            assert q.krona_classified[0] == c.fraction


def show_res(q, res):
    lin = res.lineage.display_lineage(null_as_unclassified=True)
    r = list(q.ranks).index(res.rank)
    return f"{r}|{enc(lin)}|{canon(res.fraction)}|{canon(res.f_weighted_at_rank)}|{res.bp_match_at_rank}"


def table(q):
    out = []
    for rank in q.summarized_ranks[::-1]:
        for res in q.summarized_lineage_results[rank]:
            out.append(show_res(q, res))
    return out


def csv_table(q):
    """csv_summary through the real writer, parsed back"""
    fp = io.StringIO()
    tax_utils.write_summary([q], fp)
    out = []
    for row in csv.DictReader(io.StringIO(fp.getvalue())):
        r = list(q.ranks).index(row["rank"])
        out.append(f"{r}|{enc(row['lineage'])}|{canon(float(row['fraction']))}|"
                   f"{canon(float(row['f_weighted_at_rank']))}|{row['bp_match_at_rank']}")
    return out


def krona_table(qs, rank):
    res, header = tax_utils.format_for_krona(qs, rank)
    fp = io.StringIO()
    tax_utils.write_krona(header, res, fp)
    rows = list(csv.reader(io.StringIO(fp.getvalue()), delimiter="\t"))
    out = []
    for row in rows[1:]:
        names = row[1:]
        lin = "unclassified" if all(n == "unclassified" for n in names) else ";".join(names)
        out.append(f"{enc(lin)}|{canon(float(row[0]))}")
    return out


def lsum_table(qs, rank):
    lineageD, qnames = tax_utils.aggregate_by_lineage_at_rank(qs, rank, by_query=True)
    fp = io.StringIO()
    tax_utils.write_lineage_sample_frac(qnames, lineageD, fp, sep="\t")
    rows = list(csv.reader(io.StringIO(fp.getvalue()), delimiter="\t"))
    return [f"{enc(row[0])}|{canon(float(row[1]))}" for row in rows[1:]]


def writer_on(case, q, name, a):
    """one writer on the given (possibly already used) QueryTaxResult"""
    if name == "csv":
        if not q.summarized_lineage_results:
            return "ok"
        t = csv_table(q)
    elif name in ("krona", "lsum"):
        rank = case.rank_name(q, int(a[0]))
        if rank not in q.summarized_ranks:
            return "ok"
        t = krona_table([q], rank) if name == "krona" else lsum_table([q], rank)
    elif name == "kreport":
        if not q.summarized_lineage_results:
            return "ok"
        header, rows = q.make_kreport_results()
        fp = io.StringIO()
        tax_utils.write_output(header, rows, fp, sep="\t", write_header=False)
        t = ["|".join([row[0], row[1], row[2], row[3], enc(row[5].strip())])
             for row in csv.reader(io.StringIO(fp.getvalue()), delimiter="\t")]
    elif name == "bioboxes":
        if case.mode != "std":
            return "bad-op"
        if not q.summarized_lineage_results:
            return "ok"
        hl, rows = q.make_cami_bioboxes()
        t = [f"{r[1]}|{enc(r[3].replace('|', ';'))}|{r[4]}" for r in rows]
    elif name == "human":
        if not q.summarized_lineage_results:
            return "ok"
        rank = case.rank_name(q, int(a[0]))
        fp = io.StringIO()
        tax_utils.write_human_summary([q], fp, rank)
        t = []
        for line in fp.getvalue().split("\n")[2:]:
            f = line.split()
            if f:
                t.append(f"{enc(f[-1])}|{f[1].rstrip('%')}")
    else:
        return "bad-op"
    return "ok " + " ".join(t) if t else "ok"


def recheck(case):
    """every result object earlier ops returned is looked at again: nothing a later call did may have changed it"""
    n = 0
    for q, kind, _, out in case.hist:
        if kind == "table":
            now = table(q)
            assert now == out, f"an earlier summarised table changed after later calls: {out[:2]} -> {now[:2]}"
            check_views(q)
        elif kind == "cls":
            c = q.classification_result
            assert (c.status, c.rank, c.fraction, c.bp_match_at_rank) == out, "an earlier classification changed after later calls"
        n += 1
    return n


def float_op(op, a):
    a, b, c, d = map(int, a)
    if b == 0 or d == 0:
        return "bad-op"
    x, y = a / b, c / d
    return "ok " + canon(x + y if op == "fa" else x - y if op == "fs" else x * y)


def cli(case, argv):
    """run the real command line in-process; returns (exit code, files written)"""
    from sourmash.__main__ import main
    set_quiet(True, True)
    old = sys.stdout
    sys.stdout = buf = io.StringIO()
    try:
        try:
            rc = main(argv)
            rc = 0 if rc is None else rc
        except SystemExit as e:
            rc = e.code if isinstance(e.code, int) else (0 if e.code is None else 1)
    finally:
        sys.stdout = old
        set_quiet(True, True)
        case.last_stdout = buf.getvalue()
    return rc


def do_x(case, w):
    """impl-only observations (formats the model does not write, ANI threshold, the CLI)"""
    op = w[0]
    q = case.load()
    if op == "xkreport":
        q.build_summarized_result()
        header, rows = q.make_kreport_results()
        fp = io.StringIO()
        tax_utils.write_output(header, rows, fp, sep="\t", write_header=False)
        out = []
        for row in csv.reader(io.StringIO(fp.getvalue()), delimiter="\t"):
            out.append("|".join([row[0], row[1], row[2], row[3], enc(row[5].strip())]))
        return "ok " + " ".join(out)
    if op == "xbioboxes":
        q.build_summarized_result()
        hl, rows = q.make_cami_bioboxes()
        return "ok " + " ".join(f"{r[1]}|{enc(r[3].replace('|', ';'))}|{r[4]}" for r in rows)
    if op == "xbioboxesw":
        q.build_summarized_result()
        hl, rows = q.make_cami_bioboxes()
        fp = io.StringIO()
        tax_utils.write_bioboxes(hl, rows, fp, sep="\t")
        return f"ok lines={len(fp.getvalue().splitlines())}"
    if op == "xhuman":
        q.build_summarized_result()
        rank = case.rank_name(q, int(w[1]))
        fp = io.StringIO()
        tax_utils.write_human_summary([q], fp, rank)
        out = []
        for line in fp.getvalue().split("\n")[2:]:
            f = line.split()
            if f:
                out.append(f"{enc(f[-1])}|{f[1]}")
        return "ok " + " ".join(out)
    if op == "xclsani":
        rank = None if w[1] == "-" else case.rank_name(q, int(w[1]))
        thr = int(w[2]) / int(w[3])
        q.build_classification_result(rank=rank, ani_threshold=thr, containment_threshold=None)
        c = q.classification_result
        # the evidence the decision rests on: best lineage, fraction and ANI per rank (lowest first)
        best = []
        for rk in q.summarized_ranks:
            items = sorted(q.sum_uniq_to_query[rk].items(), key=lambda x: -x[1])
            lin, f = items[0]
            best.append(f"{list(q.ranks).index(rk)}:{canon(f)}")
        return (f"ok {c.status} {list(q.ranks).index(c.rank)} {enc(c.lineage.display_lineage(null_as_unclassified=True))} "
                f"{canon(c.fraction)} {c.query_ani_at_rank!r} {q.query_info.ksize} " + ",".join(best))
    if op == "xlineagecsv":
        rank = None if w[1] == "-" else case.rank_name(q, int(w[1]))
        q.build_classification_result(rank=rank, containment_threshold=int(w[2]) / int(w[3]))
        ranks = [r for r in q.ranks if r != "strain"]
        d = q.classification_result.as_lineage_dict(q.query_info, ranks)
        hdr, res = q.make_full_summary(classification=True)
        return (f"ok {enc(';'.join(d[r] for r in ranks).rstrip(';'))} {res[0]['status']} "
                f"{canon(float(res[0]['fraction']))} {enc(res[0]['lineage'])}")
    if op == "xannot":
        # `tax annotate` through the command line, then its output used as the taxonomy (`-t x.with-lineages.csv`)
        t, g = case.write_files()
        outdir = os.path.join(case.tmp, "annot")
        shutil.rmtree(outdir, ignore_errors=True)
        os.makedirs(outdir)
        argv = ["tax", "annotate", "-g", g, "-t", t, "-o", outdir, "-q"]
        if case.mode == "lin":
            argv.append("--lins")
        if case.mode == "ictv":
            argv.append("--ictv")
        if case.force:
            argv.append("-f")
        rc = cli(case, argv)
        wl = os.path.join(outdir, "gather.with-lineages.csv")
        if rc != 0 or not os.path.exists(wl):
            return f"ok rc={rc}"
        rows = list(csv.DictReader(open(wl, newline="")))
        # the lineage column must be the taxonomy's lineage of that match
        q.build_summarized_result()
        want = {tr.raw.name: (tr.lineageInfo.display_lineage(truncate_empty=True) if not tr.missed_ident else "")
                for tr in q.raw_taxresults}
        namecol = "name" if "name" in rows[0] else "match_name"
        assert all(r["lineage"] == want[r[namecol]] for r in rows), "annotate wrote another lineage than the taxonomy has"
        lins = case.mode == "lin"
        ictv = case.mode == "ictv"
        tax2 = MultiLineageDB.load([wl], lins=lins, ictv=ictv)
        q2 = tax_utils.check_and_load_gather_csvs([g], tax2, lins=lins, ictv=ictv)[0]
        q2.build_summarized_result()
        return "ok rc=0 " + " ".join(table(q2))
    if op == "xsqltax":
        # the taxonomy converted to the sqlite format (`tax prepare -F sql`) and read back
        t, g = case.write_files()
        tax = case.load_tax(t)
        sq = os.path.join(case.tmp, "tax.sqldb")
        if os.path.exists(sq):
            os.unlink(sq)
        tax.save(sq, "sql")
        tax2 = MultiLineageDB.load([sq], keep_full_identifiers=case.kf, keep_identifier_versions=case.kv)
        assert len(tax2) == len(tax) and set(tax2) == set(tax), "identifiers differ after the sqlite round trip"
        q2 = tax_utils.check_and_load_gather_csvs([g], tax2, fail_on_missing_taxonomy=case.fail, keep_full_identifiers=case.kf,
                                                  keep_identifier_versions=case.kv)[0]
        q2.build_summarized_result()
        return "ok " + " ".join(table(q2))
    if op in ("xlingroup", "xclslg"):
        lgf = os.path.join(case.tmp, "lingroups.csv")
        prefixes = [dec(x) for x in (w[1].split(",") if w[1] != "-" else [])]
        with open(lgf, "w", newline="") as f:
            wr = csv.writer(f)
            wr.writerow(["name", "lin"])
            for i, pfx in enumerate(prefixes):
                wr.writerow([f"grp{i}", pfx])
        lingroups = tax_utils.read_lingroups(lgf)
        if op == "xlingroup":
            q.build_summarized_result()
            header, rows = q.make_lingroup_results(lingroups)
            fp = io.StringIO()
            tax_utils.write_output(header, rows, fp, sep="\t", write_header=True)
            rr = list(csv.DictReader(io.StringIO(fp.getvalue()), delimiter="\t"))
            return "ok " + " ".join(sorted(f"{enc(r['lin'])}|{r['percent_containment']}|{r['num_bp_contained']}" for r in rr))
        lg_ranks, all_lgs = tax_utils.parse_lingroups(lingroups)
        q.build_classification_result(containment_threshold=int(w[2]) / int(w[3]), lingroup_ranks=lg_ranks, lingroups=all_lgs)
        c = q.classification_result
        return (f"ok {c.status} {list(q.ranks).index(c.rank)} {enc(c.lineage.display_lineage(null_as_unclassified=True))} "
                f"{canon(c.fraction)} {c.bp_match_at_rank}")
    if op == "xcli":
        # xcli metagenome <rank|-> fmt,fmt,...   |   xcli genome <rank|-> <p> <q> fmt,...
        t, g = case.write_files()
        outdir = os.path.join(case.tmp, "cli")
        shutil.rmtree(outdir, ignore_errors=True)
        os.makedirs(outdir)
        sub = w[1]
        rank = None if w[2] == "-" else case.rank_name(q, int(w[2]))
        multi = sub == "metagenome" and len(case.done) > 0
        gfiles = case.write_all_files()[1] if multi else [g]
        argv = ["tax", sub, "-g"] + gfiles + ["-t", t, "-o", "out", "--output-dir", outdir, "-q"]
        if sub == "genome":
            argv += ["--containment-threshold", repr(int(w[3]) / int(w[4]))]
            fmts = w[5].split(",")
        else:
            fmts = w[3].split(",")
        variant = w[-1] if w[-1] in ("fromfile", "dupg", "forcebad", "stdout") else None
        if variant == "fromfile":
            pl = os.path.join(case.tmp, "gather_files.txt")
            with open(pl, "w") as f:
                f.write("".join(x + "\n" for x in gfiles + gfiles[:1]))        # one path listed twice
            # the first CSV also on the command line: a path given both ways counts once
            gi = argv.index("-g")
            argv = argv[:gi] + ["-g", gfiles[0], "--from-file", pl] + argv[gi + 1 + len(gfiles):]
        elif variant == "dupg":
            gi = argv.index("-g")
            argv = argv[:gi + 1] + gfiles + gfiles[:1] + argv[gi + 1 + len(gfiles):]
        elif variant == "forcebad":
            badf = os.path.join(case.tmp, "bad.csv")
            open(badf, "w").write("")
            gi = argv.index("-g")
            argv = argv[:gi + 1] + gfiles + [badf] + argv[gi + 1 + len(gfiles):] + ["-f"]
        elif variant == "stdout":
            oi = argv.index("-o")
            argv = argv[:oi] + argv[oi + 4:]          # default output base '-': csv_summary goes to stdout, floats cut to 3 decimals
        argv += ["-F"] + fmts
        if rank is not None:
            argv += ["-r", rank]
        if case.kf:
            argv.append("--keep-full-identifiers")
        if case.kv:
            argv.append("--keep-identifier-versions")
        if case.force:
            argv.append("-f")
        if case.fail:
            argv.append("--fail-on-missing-taxonomy")
        if case.mode == "lin":
            argv.append("--lins")
        if case.mode == "ictv":
            argv.append("--ictv")
        rc = cli(case, argv)
        parts = [f"rc={rc}"]
        ranks = list(q.ranks)
        if variant == "stdout" and rc == 0:
            rows = list(csv.DictReader(io.StringIO(case.last_stdout)))
            parts.append("csvlim=" + ",".join(
                f"{ranks.index(r['rank'])}|{enc(r['lineage'])}|{r['fraction']}|{r['f_weighted_at_rank']}|{r['bp_match_at_rank']}"
                for r in rows))
        p = os.path.join(outdir, "out.summarized.csv")
        if os.path.exists(p):
            rows = list(csv.DictReader(open(p, newline="")))
            pre = (lambda r: f"{int(r['query_name'][5:]) - 1}:") if multi else (lambda r: "")
            parts.append("csv=" + ",".join(
                f"{pre(r)}{ranks.index(r['rank'])}|{enc(r['lineage'])}|{canon(float(r['fraction']))}|"
                f"{canon(float(r['f_weighted_at_rank']))}|{r['bp_match_at_rank']}" for r in rows))
        p = os.path.join(outdir, "out.krona.tsv")
        if os.path.exists(p):
            rows = list(csv.reader(open(p, newline=""), delimiter="\t"))[1:]
            parts.append("krona=" + ",".join(
                enc("unclassified" if all(n == "unclassified" for n in r[1:]) else ";".join(r[1:])) + "|" + canon(float(r[0]))
                for r in rows))
        p = os.path.join(outdir, "out.lineage_summary.tsv")
        if os.path.exists(p):
            rows = list(csv.reader(open(p, newline=""), delimiter="\t"))[1:]
            parts.append("lsum=" + ",".join(enc(r[0]) + "|" + "|".join(canon(float(x)) for x in r[1:]) for r in rows))
        p = os.path.join(outdir, "out.kreport.txt")
        if os.path.exists(p):
            rows = list(csv.reader(open(p, newline=""), delimiter="\t"))
            parts.append("kreport=" + ",".join("|".join([r[0], r[1], r[2], r[3], enc(r[5].strip())]) for r in rows))
        p = os.path.join(outdir, "out.bioboxes.profile")
        if os.path.exists(p):
            rows = [l.rstrip("\n").split("\t") for l in open(p) if l.strip() and not l.startswith(("#", "@"))]
            parts.append("bioboxes=" + ",".join(f"{r[1]}|{enc(r[3].replace('|', ';'))}|{r[4]}" for r in rows))
        p = os.path.join(outdir, "out.human.txt")
        if os.path.exists(p):
            hs = []
            for line in open(p):
                f = line.split()
                if f and f[0] not in ("sample", "-----------"):
                    hs.append(f"{enc(f[-1])}|{f[1].rstrip('%')}")
            parts.append("human=" + ",".join(hs))
        p = os.path.join(outdir, "out.classifications.csv")
        if os.path.exists(p):
            rows = list(csv.DictReader(open(p, newline="")))
            parts.append("cls=" + ",".join(
                f"{r['status']}|{ranks.index(r['rank'])}|{enc(r['lineage'])}|{canon(float(r['fraction']))}|"
                f"{canon(float(r['f_weighted_at_rank']))}|{r['bp_match_at_rank']}" for r in rows))
        return "ok " + " ".join(parts)
    return "bad-op"


def step(case, w):
    op = w[0]
    a = w[1:]
    if op == "opt":
        mode, nr, kf, kv, fo, fm = a
        if mode not in ("std", "ictv", "lin") or any(x not in ("0", "1") for x in (kf, kv, fo, fm)):
            return "bad-op"
        case.mode = mode
        case.nranks = int(nr)
        case.kf, case.kv, case.force, case.fail = (x == "1" for x in (kf, kv, fo, fm))
        return "ok"
    if op == "t":
        case.tax.append((dec(a[0]), [dec(x) for x in a[1:]]))
        return "ok"
    if op == "mfiles":
        per_q = case.done + [case.current_lines()]
        files = []
        for f in a:
            toks = [] if f == "-" else [tuple(int(x) for x in t.split(".")) for t in f.split(",")]
            if any(len(t) != 2 for t in toks):
                return "bad-op"
            files.append(toks)
        if not all(qi < len(per_q) and ri < len(per_q[qi]) - 1 for f in files for qi, ri in f):
            return "bad-op"
        case.layout = files
        return "ok"
    if op == "dropcols":
        if len(a) != 2 or not a[0].isdigit() or a[1] not in ("0", "1"):
            return "bad-op"
        case.drop = ([["query_md5"], ["f_unique_weighted"], ["scaled"], ["ksize"]][(int(a[0]) - 1) % 4] if int(a[0]) > 0 else []) + \
            (["total_weighted_hashes", "query_n_hashes", "sum_weighted_found", "n_unique_weighted_found"] if a[1] == "1" else [])
        return "ok"
    if op == "nextq":
        if not hasattr(case, "N") or case.gather_text is None:
            return "bad-op"
        case.done.append(case.current_lines())
        case.gather_text, case.gather_rows, case.order, case.used = None, [], None, []
        del case.N
        return "ok"
    if op in ("mkrona", "mlsum", "mcsv"):
        qs = case.load_all()
        if op == "mcsv":
            fp = io.StringIO()
            # a query none of whose matches has a lineage has nothing to write (make_full_summary refuses it)
            tax_utils.write_summary([q for q in qs if q.summarized_lineage_results], fp)
            out = []
            for row in csv.DictReader(io.StringIO(fp.getvalue())):
                r = list(qs[0].ranks).index(row["rank"])
                out.append(f"{int(row['query_name'][5:]) - 1}:{r}|{enc(row['lineage'])}|{canon(float(row['fraction']))}|"
                           f"{canon(float(row['f_weighted_at_rank']))}|{row['bp_match_at_rank']}")
            return "ok " + " ".join(out) if out else "ok"
        rank = case.rank_name(qs[0], int(a[0]))
        if op == "mkrona":
            t = krona_table(qs, rank)
        else:
            lineageD, qnames = tax_utils.aggregate_by_lineage_at_rank(qs, rank, by_query=True)
            fp = io.StringIO()
            tax_utils.write_lineage_sample_frac(qnames, lineageD, fp, sep="\t")
            rows = list(csv.reader(io.StringIO(fp.getvalue()), delimiter="\t"))
            t = [enc(row[0]) + "|" + "|".join(canon(float(x)) for x in row[1:]) for row in rows[1:]]
        return "ok " + " ".join(t) if t else "ok"
    if op == "scn":
        case.gather_text, case.gather_rows = run_gather(w, qname=f"query{len(case.done) + 1}")
        case.expected = qr_lines(case.gather_rows)
        case.used = []
        return "ok"
    if op in ("q", "r") and case.gather_text is None:
        return "bad-op"         # no gather run to take rows from (shrunk case)
    if op in ("q", "r"):
        # the integers the model is given must be the ones gather produced
        if op == "q":
            exp = case.expected[0] if case.expected else None
            if len(a) != 3 or int(a[0]) == 0 or int(a[1]) == 0:
                return "bad-op"
            N, W, sc = map(int, a)
            r0 = case.gather_rows[0]
            case.N, case.W, case.sc = N, W, sc
            if " ".join(w) != exp or int(r0["query_bp"]) != N * sc:
                return f"gather-mismatch expected `{exp}`"
            return "ok"
        # any sub-list of gather's rows may be given (a shrunk case): rows are matched by content
        line = " ".join(w)
        i = None
        for j in range(len(case.gather_rows)):
            if j not in case.used and case.expected[1 + j] == line:
                i = j
                break
        if not hasattr(case, "N"):
            return "bad-op"
        if i is None:
            return "gather-mismatch no such row in gather's output"
        case.used.append(i)
        row = case.gather_rows[i]
        k, wt = int(a[0]), int(a[1])
        if float(row["f_unique_to_query"]) != k / case.N or float(row["f_unique_weighted"]) != wt / case.W:
            return "gather-mismatch fractions are not k/N, w/W"
        return "ok"
    if op == "perm":
        idx = [int(x) for x in a]
        n = len(case.used)
        cur = case.order if case.order is not None else list(range(n))
        if len(idx) != n or any(i >= n for i in idx):
            return "bad-op"
        case.order = [cur[i] for i in idx]
        return "ok"
    if op == "load":
        q = case.load()
        return f"ok rows={len(q.raw_taxresults)} missed={q.n_missed}"
    if op == "sum":
        q = case.load()
        single = case.rank_name(q, int(a[0])) if a else None
        if case.route % 2:
            q.summarize_up_ranks(single_rank=single)        # the two-step spelling
        q.build_summarized_result(single_rank=single)
        check_views(q)
        t = table(q)
        assert t == table(q), "reading the summarised table twice gives different rows"
        case.hist.append((q, "table", None, list(t)))
        return "ok " + " ".join(t) if t else "ok"
    if op == "sopen":
        case.sess = None
        q = case.load()
        q.build_summarized_result()
        case.sess = q
        check_views(q)
        return "ok"
    if op == "snew":
        case.sess = None
        case.sess = case.load()
        return "ok"
    if op == "sbuild":
        q = getattr(case, "sess", None)
        if q is None or len(a) != 2 or a[1] not in ("0", "1"):
            return "bad-op"
        single = None if a[0] == "-" else case.rank_name(q, int(a[0]))
        q.build_summarized_result(single_rank=single, force_resummarize=a[1] == "1")
        check_views(q)
        return "ok"
    if op == "scls":
        q = getattr(case, "sess", None)
        if q is None or len(a) != 4 or a[3] not in ("0", "1") or (a[1] != "none" and int(a[2]) == 0):
            return "bad-op"
        rank = None if a[0] == "-" else case.rank_name(q, int(a[0]))
        thr = None if a[1] == "none" else int(a[1]) / int(a[2])
        q.build_classification_result(rank=rank, containment_threshold=thr, ani_threshold=None,
                                      force_resummarize=a[3] == "1")
        check_views(q, cls=True)
        c = q.classification_result
        return (f"ok {c.status} {list(q.ranks).index(c.rank)} {enc(c.lineage.display_lineage(null_as_unclassified=True))} "
                f"{canon(c.fraction)} {canon(c.f_weighted_at_rank)} {c.bp_match_at_rank}")
    if op in ("scsv", "shuman", "skrona", "slsum", "skreport", "sbioboxes"):
        # the writers on ONE QueryTaxResult, in whatever order the case asks for (as one `tax metagenome -F a b c` does)
        q = getattr(case, "sess", None)
        if q is None:
            return "bad-op"
        return writer_on(case, q, op[1:], a)
    if op == "csv":
        q = case.load()
        q.build_summarized_result()
        if not q.summarized_lineage_results:
            return "ok"
        t = csv_table(q)
        return "ok " + " ".join(t) if t else "ok"
    if op in ("krona", "lsum"):
        q = case.load()
        q.build_summarized_result()
        rank = case.rank_name(q, int(a[0]))
        if rank not in q.summarized_ranks:
            return "ok"
        t = krona_table([q], rank) if op == "krona" else lsum_table([q], rank)
        return "ok " + " ".join(t) if t else "ok"
    if op == "cls":
        r, p, qq = a
        if p != "none" and int(qq) == 0:
            return "bad-op"
        thr = None if p == "none" else int(p) / int(qq)
        q = case.load()
        rank = None if r == "-" else case.rank_name(q, int(r))
        q.build_classification_result(rank=rank, containment_threshold=thr, ani_threshold=None)
        check_views(q, cls=True)
        c = q.classification_result
        case.hist.append((q, "cls", None, (c.status, c.rank, c.fraction, c.bp_match_at_rank)))
        return (f"ok {c.status} {list(q.ranks).index(c.rank)} {enc(c.lineage.display_lineage(null_as_unclassified=True))} "
                f"{canon(c.fraction)} {canon(c.f_weighted_at_rank)} {c.bp_match_at_rank}")
    if op == "kreport":
        q = case.load()
        q.build_summarized_result()
        if not q.summarized_lineage_results:
            return "ok"
        header, rows = q.make_kreport_results()
        fp = io.StringIO()
        tax_utils.write_output(header, rows, fp, sep="\t", write_header=False)
        out = []
        for row in csv.reader(io.StringIO(fp.getvalue()), delimiter="\t"):
            out.append("|".join([row[0], row[1], row[2], row[3], enc(row[5].strip())]))
        return "ok " + " ".join(out) if out else "ok"
    if op == "bioboxes":
        if case.mode != "std":
            return "bad-op"
        q = case.load()
        q.build_summarized_result()
        if not q.summarized_lineage_results:
            return "ok"
        hl, rows = q.make_cami_bioboxes()
        t = [f"{r[1]}|{enc(r[3].replace('|', ';'))}|{r[4]}" for r in rows]
        return "ok " + " ".join(t) if t else "ok"
    if op == "human":
        q = case.load()
        q.build_summarized_result()
        if not q.summarized_lineage_results:
            return "ok"
        rank = case.rank_name(q, int(a[0]))
        fp = io.StringIO()
        tax_utils.write_human_summary([q], fp, rank)
        out = []
        for line in fp.getvalue().split("\n")[2:]:
            f = line.split()
            if f:
                out.append(f"{enc(f[-1])}|{f[1].rstrip('%')}")
        return "ok " + " ".join(out) if out else "ok"
    if op in ("fa", "fs", "fm"):
        return float_op(op, a) if len(a) == 4 else "bad-op"
    if op == "ident":
        kf, kv, s = a
        s = dec(s)
        g1 = tax_utils.get_ident(s, keep_full_identifiers=kf == "1", keep_identifier_versions=kv == "1")

        class Raw:
            name = s
        tr = tax_utils.BaseTaxResult.__new__(tax_utils.BaseTaxResult)
        tr.raw = Raw
        tr.keep_full_identifiers = kf == "1"
        tr.keep_identifier_versions = kv == "1"
        tax_utils.BaseTaxResult.get_ident(tr)
        return f"ok {enc(g1)} {enc(tr.match_ident)}"
    if op == "xrecheck":
        return f"ok {recheck(case)}"
    if op.startswith("x"):
        return do_x(case, w)
    return "bad-op"


def main():
    base = os.path.join(os.path.dirname(os.path.dirname(os.path.dirname(os.path.abspath(__file__)))), ".build", "tmp")
    os.makedirs(base, exist_ok=True)
    tmp = tempfile.mkdtemp(prefix="tax_", dir=base)
    out = sys.stdout
    try:
        if "--gather" in sys.argv:
            for line in sys.stdin:
                w = line.split()
                try:
                    _, rows = run_gather(w)
                    out.write("\t".join(qr_lines(rows)) + "\n")
                except BaseException as e:      # noqa: BLE001
                    out.write(f"ERR {type(e).__name__} {e}\n")
                out.flush()
            return
        case = Case(tmp)
        for line in sys.stdin:
            w = line.split()
            if not w:
                out.write("bad-op\n")
                continue
            if w[0] == "#":
                case = Case(tmp)
                out.write("#\n")
                continue
            try:
                res = step(case, w)
            except (KeyError, IndexError) as e:
                res = "bad-op" if w[0] in ("opt", "t", "q", "r", "perm") else "err " + type(e).__name__
            except BaseException as e:          # noqa: BLE001
                if os.environ.get("TAXDBG"): import traceback; traceback.print_exc()
                res = "err " + err_tag(e)
            out.write(res + "\n")
        out.flush()
    finally:
        shutil.rmtree(tmp, ignore_errors=True)


if __name__ == "__main__":
    main()
