"""Real-code adapter for the `mh` stream: executes each op line against the
sourmash package assembled from /repo's working tree (on PYTHONPATH) and
prints one canonical observation per line."""
import pickle
import sys

import sourmash
from sourmash import MinHash, SourmashSignature
from sourmash._lowlevel import lib
from sourmash.utils import decode_str


NROUTE = [0]


def show(mh):
    hs = mh.hashes
    keys = list(hs.keys())
    assert keys == sorted(keys), "hashes not ascending"
    # the Python-side views of one sketch must agree with each other (seeded C01d memoised `.hashes` and forgot one
    # of the mutators): len() and iteration go to the native sketch directly, `.hashes` builds a dict
    assert len(mh) == len(keys), "len(mh) != len(mh.hashes)"
    assert list(mh) == keys if hasattr(type(mh), "__iter__") else True, "iter(mh) != mh.hashes"
    mins = ",".join(str(k) for k in keys)
    if mh.track_abundance:
        ab = ",".join(str(hs[k]) for k in keys)
    else:
        ab = "-"
    return (f"ok num={mh.num} mh={mh._max_hash} sc={mh.scaled} tr={int(mh.track_abundance)}"
            f" mins={mins} ab={ab}")


def exc_name(e):
    for cls in (TypeError, RuntimeError, ValueError, AssertionError, OverflowError):
        if isinstance(e, cls):
            return cls.__name__
    return type(e).__name__


def sigobs(ss):
    mh = ss.minhash
    keys = list(mh.hashes.keys())
    k = mh.ksize if mh.is_dna else mh.ksize * 3
    shown = repr(ss)
    return (f"sig md5={ss.md5sum()} mhmd5={decode_str(mh._methodcall(lib.kmerminhash_md5sum))} k={k} "
            f"repr={shown.split('(')[1].rstrip(')').split(', ')[-1]} name={ss.name!r} mins={','.join(map(str, keys))}")


def main():
    T = {}
    G = {}
    out = sys.stdout
    for line in sys.stdin:
        w = line.split()
        if not w:
            out.write("bad-op\n")
            continue
        op = w[0]
        try:
            if op == "#":
                T = {}
                G = {}
                NROUTE[0] = 0
                out.write("#\n")
                continue
            a = w[1:]
            if op in ("sig", "sigsetmh", "sigmd5", "sigadd", "sigcopy"):
                # modelled signature-object ops
                si = int(a[0])
                if op == "sig":
                    G[si] = SourmashSignature(T[int(a[1])])
                elif op == "sigsetmh":
                    G[si].minhash = T[int(a[1])]
                elif op == "sigmd5":
                    G[si].md5sum(); hash(G[si]); str(G[si])
                elif op == "sigadd":
                    G[si].add_sequence(a[1], bool(int(a[2])))
                elif op == "sigcopy":
                    G[si] = pickle.loads(pickle.dumps(G[int(a[1])]))
                ss = G[si]
                mh = ss.minhash
                keys = list(mh.hashes.keys())
                k = mh.ksize if mh.is_dna else mh.ksize * 3
                out.write(f"sig k={k} mins={','.join(map(str, keys))} md5 {ss.md5sum()} | "
                          f"md5 {decode_str(ss.minhash._methodcall(lib.kmerminhash_md5sum))}\n")
                continue
            if op.startswith("@"):
                # signature-object ops: implementation only (no model counterpart)
                if op == "@sig":
                    G[int(a[0])] = SourmashSignature(T[int(a[1])], name=("" if len(a) < 3 else a[2]))
                elif op == "@sigadd":
                    G[int(a[0])].add_sequence(a[1], True)
                elif op == "@sigaddprot":
                    G[int(a[0])].add_protein(a[1])
                elif op == "@sigsetmh":
                    G[int(a[0])].minhash = T[int(a[1])]
                elif op == "@sigmd5":
                    G[int(a[0])].md5sum(); hash(G[int(a[0])]); str(G[int(a[0])])
                elif op == "@sigcopy":
                    G[int(a[0])] = G[int(a[1])].to_mutable() if a[2:] == ["mut"] else pickle.loads(pickle.dumps(G[int(a[1])]))
                elif op == "@sigfreeze":
                    G[int(a[0])] = G[int(a[1])].to_frozen()
                else:
                    raise KeyError(op)
                out.write(sigobs(G[int(a[0])]) + "\n")
                continue
            if op == "new":
                r, num, scaled, track, ksize, seed = map(int, a)
                T[r] = MinHash(num, ksize, track_abundance=bool(track), seed=seed, scaled=scaled)
                res = show(T[r])
            elif op == "newmh":
                r, num, mx, track, ksize, seed = map(int, a)
                T[r] = MinHash(num, ksize, track_abundance=bool(track), seed=seed, max_hash=mx)
                res = show(T[r])
            elif op == "add":
                h, v = map(int, a)
                T[h].add_hash(v)
                res = show(T[h])
            elif op == "addab":
                h, v, ab = map(int, a)
                T[h].add_hash_with_abundance(v, ab)
                res = show(T[h])
            elif op == "addmany":
                h = int(a[0])
                T[h].add_many([int(x) for x in a[1:]])
                res = show(T[h])
            elif op == "addfrom":
                h, g = map(int, a)
                T[h].add_many(T[g])
                res = show(T[h])
            elif op == "rm":
                h = int(a[0])
                T[h].remove_many([int(x) for x in a[1:]])
                res = show(T[h])
            elif op == "rmfrom":
                h, g = map(int, a)
                T[h].remove_many(T[g])
                res = show(T[h])
            elif op == "setab":
                h, clear = int(a[0]), bool(int(a[1]))
                vals = {}
                for p in a[2:]:
                    k, v = p.split(":")
                    vals[int(k)] = int(v)
                T[h].set_abundances(vals, clear=clear)
                res = show(T[h])
            elif op == "clear":
                h = int(a[0])
                T[h].clear()
                res = show(T[h])
            elif op == "merge":
                # one modelled operation, two API routes (`merge()` and `+=` both end in kmerminhash_merge); which one
                # is used alternates with a counter the model does not see
                h, g = map(int, a)
                NROUTE[0] += 1
                if NROUTE[0] % 2:
                    T[h].merge(T[g])
                else:
                    t = T[h]
                    t += T[g]
                    assert t is T[h], "+= returned another object"
                res = show(T[h])
            elif op == "plus":
                r, h, g = map(int, a)
                NROUTE[0] += 1
                T[r] = (T[h] + T[g]) if NROUTE[0] % 2 else (T[h] | T[g])
                res = show(T[r])
            elif op == "copy":
                r, h = map(int, a)
                T[r] = T[h].copy()
                res = show(T[r])
            elif op == "pickle":
                r, h = map(int, a)
                T[r] = pickle.loads(pickle.dumps(T[h]))
                res = show(T[r])
            elif op == "down":
                r, h, sc = map(int, a)
                T[r] = T[h].downsample(scaled=sc)
                res = show(T[r])
            elif op == "downnum":
                r, h, n = map(int, a)
                T[r] = T[h].downsample(num=n)
                res = show(T[r])
            elif op == "flat":
                r, h = map(int, a)
                # may return T[h] itself for a flat sketch (aliasing is C15's subject);
                # the generator never mutates result handles
                T[r] = T[h].flatten()
                res = show(T[r])
            elif op == "inter":
                r, h, g = map(int, a)
                T[r] = T[h].intersection(T[g])
                res = show(T[r])
            elif op == "inflate":
                r, h, g = map(int, a)
                T[r] = T[h].inflate(T[g])
                res = show(T[r])
            elif op == "md5raw":
                h = int(a[0])
                res = "md5 " + decode_str(T[h]._methodcall(lib.kmerminhash_md5sum))
            elif op == "md5":
                h = int(a[0])
                res = "md5 " + SourmashSignature(T[h]).md5sum()
            elif op == "cc":
                h, g, ds = map(int, a)
                res = f"ok {T[h].count_common(T[g], bool(ds))}"
            elif op == "iu":
                h, g = map(int, a)
                c, u = T[h].intersection_and_union_size(T[g])
                res = f"ok {c} {u}"
            elif op == "show":
                res = show(T[int(a[0])])
            else:
                res = "bad-op"
        except KeyError:
            res = "bad-op"
        except BaseException as e:          # noqa: BLE001  (panics arrive as SourmashError subclasses)
            res = "err " + exc_name(e)
        out.write(res + "\n")
    out.flush()


if __name__ == "__main__":
    main()
