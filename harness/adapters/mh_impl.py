"""Real-code adapter for the `mh` stream: executes each op line against the
sourmash package assembled from /repo's working tree (on PYTHONPATH) and
prints one canonical observation per line.

Periphery (none of it visible to the model, which has value semantics):
* ROUTES: one modelled operation is issued through one of several spellings of the Python layer that end in the same
  native call or helper (operator / method / keyword default / argument type / frozen or mutable receiver / helper
  function / constructor taking an existing collection); the choice rotates with a per-case counter (`route(n)`).
* VIEWS: after every operation everything that can be read about the touched sketch through two routes must agree
  (`show`: hashes / len / deprecated accessors / membership / derived statistics / `==`), and for a signature every
  md5-derived view (md5sum, hash, str, repr, manifest row md5 + md5short, JSON md5sum field, copies).
* HISTORIES: every object a call returned is kept; an object no handle refers to any more must keep the observation it
  had when it was replaced (`retired`), re-verified after every operation; read-only entry points are called twice
  and with the operands in both orders.
A disagreement surfaces as `err AssertionError` in the line of the operation (a correspondence disagreement with a
concrete replay) or, for md5 views, as a wrong md5 in the signature line (judged by the property oracle).
"""
import collections
import copy as copymod
import io
import json
import pickle
import sys

import sourmash
from sourmash import MinHash, SourmashSignature
from sourmash._lowlevel import lib
from sourmash.manifest import CollectionManifest
from sourmash.minhash import (FrozenMinHash, flatten_and_downsample_num, flatten_and_downsample_scaled,
                              flatten_and_intersect_scaled)
from sourmash.utils import decode_str, rustcall


import random

NROUTE = [0]
_RNG = [random.Random(0), 0]


def new_case():
    """a fresh, reproducible stream of route choices for every case (the n-th case of an adapter run)"""
    _RNG[1] += 1
    _RNG[0] = random.Random(_RNG[1])
    NROUTE[0] = 0


def route(n):
    """choice among n spellings of one modelled operation (the model does not see it): pseudo-random per case, so
    that choices made in one operation are not correlated with each other"""
    NROUTE[0] += 1
    return _RNG[0].randrange(n)


def raw_md5(mh):
    return decode_str(mh._methodcall(lib.kmerminhash_md5sum))


def show(mh):
    hs = mh.hashes
    keys = list(hs.keys())
    assert keys == sorted(keys), "hashes not ascending"
    # the Python-side views of one sketch must agree with each other (seeded C01d memoised `.hashes` and forgot one
    # of the mutators): len() goes to the native sketch directly, `.hashes` builds a dict
    n = len(mh)
    assert n == len(keys) == len(hs), "len(mh) != len(mh.hashes)"
    assert bool(mh) == (n > 0), "truth value"
    if hasattr(type(mh), "__iter__"):
        assert list(mh) == keys, "iter(mh) != mh.hashes"
    if hasattr(type(mh), "__contains__"):
        assert all(k in mh for k in keys[:3]), "`in` disagrees with hashes"
    # deprecated accessors and the mapping wrapper
    assert list(mh.get_mins()) == keys and list(mh.get_hashes()) == keys, "get_mins / get_hashes != hashes"
    assert dict(mh.get_mins(with_abundance=True)) == dict(hs), "get_mins(with_abundance) != hashes"
    assert all(k in hs for k in keys[:3]) and (keys[-1] + 1 if keys and keys[-1] < 2 ** 64 - 1 else -1) not in hs
    assert mh.max_hash == mh._max_hash, "max_hash != _max_hash"
    # second read: a read must not change what is read
    hs2 = mh.hashes
    assert dict(hs2) == dict(hs) and hs2 == hs, "two reads of .hashes differ"
    tr = mh.track_abundance
    if tr:
        vals = [hs[k] for k in keys]
        assert mh.sum_abundances == sum(vals), "sum_abundances"
        if vals and max(vals) < 2 ** 40:
            assert abs(mh.mean_abundance - sum(vals) / len(vals)) <= 1e-6 * max(vals), "mean_abundance"
            sv = sorted(vals)
            med = sv[len(sv) // 2] if len(sv) % 2 else (sv[len(sv) // 2 - 1] + sv[len(sv) // 2]) / 2
            assert abs(mh.median_abundance - med) <= 1e-6 * max(vals), "median_abundance"
            assert mh.std_abundance >= 0
        ab = ",".join(str(v) for v in vals)
    else:
        assert all(v == 1 for v in hs.values()), "flat sketch reports abundances"
        assert mh.sum_abundances is None
        ab = "-"
    if mh.scaled:
        assert mh.unique_dataset_hashes == n * mh.scaled, "unique_dataset_hashes"
    assert mh.is_compatible(mh)
    assert repr(hs) == repr(dict(hs)), "repr of the hashes view"
    try:
        hs[1] = 1
        raise AssertionError("the hashes view accepted an assignment")
    except RuntimeError:
        pass
    mins = ",".join(str(k) for k in keys)
    return (f"ok num={mh.num} mh={mh._max_hash} sc={mh.scaled} tr={int(tr)}"
            f" mins={mins} ab={ab}")


def own_assertion(e):
    """an AssertionError raised by one of the adapters' OWN checks (views / histories / routes disagree), as opposed to
    an `assert` inside the package under test"""
    if not isinstance(e, AssertionError):
        return False
    tb = e.__traceback__
    while tb is not None and tb.tb_next is not None:
        tb = tb.tb_next
    import os
    return tb is not None and os.path.basename(tb.tb_frame.f_code.co_filename) in ("mh_impl.py", "setops_impl.py")


def exc_name(e):
    if own_assertion(e):
        # two views / two routes / two moments of the real code disagree: judged by the property oracle
        return "ViewDisagreement " + "_".join(str(e).split())[:200]
    for cls in (TypeError, RuntimeError, ValueError, AssertionError, OverflowError):
        if isinstance(e, cls):
            return cls.__name__
    return type(e).__name__


def sigobs(ss):
    mh = ss.minhash
    keys = list(mh.hashes.keys())
    k = mh.ksize if mh.is_dna else mh.ksize * 3
    shown = repr(ss)
    return (f"sig md5={ss.md5sum()} mhmd5={decode_str(mh._methodcall(lib.kmerminhash_md5sum))} k={k} "
            f"repr={shown.split('(')[1].rstrip(')').split(', ')[-1]} name={ss.name!r} mins={','.join(map(str, keys))}")


def sig_md5_views(ss):
    """every md5-derived view of a signature, as (label, md5 or md5 prefix)"""
    v = []
    v.append(("md5sum", ss.md5sum()))
    v.append(("minhash", raw_md5(ss.minhash)))
    v.append(("md5sum-again", ss.md5sum()))
    row = CollectionManifest.make_manifest_row(ss, None, include_signature=False)
    v.append(("manifest-md5", row["md5"]))
    v.append(("manifest-md5short", row["md5short"]))
    assert row["n_hashes"] == len(ss.minhash) and row["ksize"] == ss.minhash.ksize, "manifest row n_hashes / ksize"
    if not ss.name and not ss.filename:
        v.append(("str", str(ss)))
        v.append(("repr", repr(ss).split("(")[1].rstrip(")").split(", ")[-1]))
    js = json.loads(sourmash.save_signatures_to_json([ss]))
    v.append(("json-md5sum", js[0]["signatures"][0]["md5sum"]))
    v.append(("copy", copymod.copy(ss).md5sum()))
    v.append(("frozen", ss.to_frozen().md5sum()))
    v.append(("pickle", pickle.loads(pickle.dumps(ss)).md5sum()))
    assert len(ss) == 1, "len(signature)"
    fz = ss.to_frozen()
    for attempt in (lambda: setattr(fz, "minhash", ss.minhash), lambda: setattr(fz, "name", "x"),
                    lambda: setattr(fz, "filename", "x"), lambda: setattr(fz, "_name", "x"),
                    lambda: fz.add_sequence("ACGT" * 8), lambda: fz.add_protein("MKV"), lambda: fz.__setstate__(("", "", ss.minhash))):
        try:
            attempt()
            raise AssertionError("a frozen signature accepted a modification")
        except ValueError:
            pass
    assert fz.to_frozen() is fz and copymod.copy(fz) is fz
    fz.into_frozen()
    assert fz.filename == ss.filename and fz.license == ss.license
    v.append(("frozen-after-refusals", fz.md5sum()))
    return v


def sig_line(ss):
    """`sig k=.. mins=.. md5 X | md5 Y`: X = sig.md5sum(); Y = the first md5 view that disagrees with X (else the md5 of
    sig.minhash): the property oracle recomputes the digest from k and mins and compares both"""
    mh = ss.minhash
    keys = list(mh.hashes.keys())
    k = mh.ksize if mh.is_dna else mh.ksize * 3
    x = ss.md5sum()
    y = raw_md5(ss.minhash)
    for label, m in sig_md5_views(ss):
        if m != x[:len(m)]:
            y = m + "(" + label + ")"
            break
    assert hash(ss) == hash(x), "hash(sig) is not the hash of its md5"
    return f"sig k={k} mins={','.join(map(str, keys))} md5 {x} | md5 {y}"


class Retired:
    """objects no handle refers to any more, with the observation they had when they were replaced"""

    def __init__(self):
        self.items = []

    def note(self, obj, table):
        if obj is None or any(obj is v for v in table.values()) or any(obj is o for o, _ in self.items):
            return
        try:
            self.items.append((obj, show(obj)))
        except BaseException:      # noqa: BLE001
            pass
        if len(self.items) > 24:
            self.items.pop(0)

    def verify(self):
        for obj, was in self.items:
            now = show(obj)
            assert now == was, f"an object returned earlier changed: {was[:60]} -> {now[:60]}"


def frozen_refuses(mh):
    """a frozen copy refuses every mutator and keeps its content"""
    f = mh.to_frozen()
    was = show(f)
    calls = [lambda: f.add_hash(1), lambda: f.add_many([1]), lambda: f.remove_many([1]), lambda: f.clear(),
             lambda: f.add_hash_with_abundance(1, 1), lambda: f.set_abundances({1: 1}), lambda: f.add_sequence("ACGT" * 8),
             lambda: f.add_kmer("A" * f.ksize), lambda: f.add_protein("MKV"), lambda: f.merge(mh),
             lambda: f.__iadd__(mh), lambda: setattr(f, "track_abundance", not f.track_abundance)]
    for c in calls:
        try:
            c()
            raise AssertionError("a frozen sketch accepted a modification")
        except TypeError:
            pass
    assert f.to_frozen() is f and f.copy() is f
    f.into_frozen()
    assert show(f) == was, "a frozen sketch changed"
    return f


def put(T, R, r, obj):
    old = T.get(r)
    T[r] = obj
    if old is not None and old is not obj:
        R.note(old, T)


def stable(*mhs):
    """routes that rebuild a sketch through `max_hash -> scaled -> max_hash` once more than the modelled spelling are
    only the same operation where that round trip is the identity: scaled <= 2^31 (C03; above it: known finding D22)"""
    return all(m.scaled <= 2 ** 31 for m in mhs)


def valid_dna(seq):
    return all(c in "ACGT" for c in seq)


def main():
    T = {}
    G = {}
    R = Retired()
    out = sys.stdout
    for line in sys.stdin:
        w = line.split()
        if not w:
            out.write("bad-op\n")
            continue
        op = w[0]
        try:
            if op == "#":
                T = {}
                G = {}
                R = Retired()
                new_case()
                out.write("#\n")
                continue
            a = w[1:]
            if op in ("sig", "sigsetmh", "sigmd5", "sigadd", "sigcopy"):
                # modelled signature-object ops
                si = int(a[0])
                if op == "sig":
                    src = T[int(a[1])]
                    c = route(3)
                    if c == 0:
                        G[si] = SourmashSignature(src)
                    elif c == 1:
                        G[si] = SourmashSignature(src, name="", filename="")
                    else:
                        # build around another sketch first, then hand the sketch over through the setter
                        g = SourmashSignature(src.copy_and_clear())
                        g.minhash = src
                        G[si] = g
                elif op == "sigsetmh":
                    G[si].minhash = T[int(a[1])]
                    src = T[int(a[1])]
                if op in ("sig", "sigsetmh"):
                    # the signature holds the sketch it was given: parameters, hashes AND abundances
                    got = G[si].minhash
                    assert (got.num, got._max_hash, got.track_abundance, got.ksize, got.seed, dict(got.hashes)) == \
                        (src.num, src._max_hash, src.track_abundance, src.ksize, src.seed, dict(src.hashes)), \
                        "the signature does not hold the sketch it was given"
                elif op == "sigmd5":
                    G[si].md5sum(); hash(G[si]); str(G[si]); repr(G[si])
                elif op == "sigadd":
                    seq, force = a[1], bool(int(a[2]))
                    c = route(3) if valid_dna(seq) else 0
                    if c == 0:
                        G[si].add_sequence(seq, force)
                    elif c == 1:
                        # read the sketch out, change it, hand it back
                        mh = G[si].minhash.to_mutable()
                        mh.add_sequence(seq, force)
                        G[si].minhash = mh
                    else:
                        with G[si].to_frozen().update() as s2:
                            s2.add_sequence(seq, force)
                        G[si] = s2.to_mutable()
                elif op == "sigcopy":
                    src = G[int(a[1])]
                    c = route(5)
                    if c == 0:
                        G[si] = pickle.loads(pickle.dumps(src))
                    elif c == 1:
                        G[si] = copymod.copy(src)
                    elif c == 2:
                        G[si] = src.to_mutable()
                    elif c == 3:
                        G[si] = src.to_frozen().to_mutable()
                    else:
                        txt = sourmash.save_signatures_to_json([src])
                        G[si] = list(sourmash.load_signatures_from_json(io.BytesIO(txt)))[0].to_mutable()
                    assert G[si] == src and not (G[si] != src), "a copy of a signature does not compare equal to it"
                out.write(sig_line(G[si]) + "\n")
                continue
            if op.startswith("@"):
                # implementation only (no model counterpart): the property oracle judges the observation
                if op == "@sigpush":
                    # a signature holding SEVERAL sketches (signature_push_mh): every sketch of the JSON text carries
                    # its own md5sum, which must be the digest of its own k and hashes
                    ss = SourmashSignature(T[int(a[0])])
                    for x in a[1:]:
                        rustcall(lib.signature_push_mh, ss._get_objptr(), T[int(x)]._get_objptr())
                    js = json.loads(sourmash.save_signatures_to_json([ss]))
                    parts = []
                    for sk in js[0]["signatures"]:
                        parts.append(f"k={sk['ksize']};md5={sk['md5sum']};mins={','.join(map(str, sk['mins']))}")
                    assert len(parts) == len(a) == len(ss), "not every pushed sketch is in the JSON text / len(signature)"
                    out.write("sigs " + " | ".join(parts) + "\n")
                    continue
                if op == "@sig":
                    G[int(a[0])] = SourmashSignature(T[int(a[1])], name=("" if len(a) < 3 else a[2]))
                elif op == "@sigadd":
                    G[int(a[0])].add_sequence(a[1], True)
                elif op == "@sigaddprot":
                    G[int(a[0])].add_protein(a[1])
                elif op == "@sigsetmh":
                    G[int(a[0])].minhash = T[int(a[1])]
                elif op == "@sigmd5":
                    G[int(a[0])].md5sum(); hash(G[int(a[0])]); str(G[int(a[0])])
                elif op == "@sigcopy":
                    G[int(a[0])] = G[int(a[1])].to_mutable() if a[2:] == ["mut"] else pickle.loads(pickle.dumps(G[int(a[1])]))
                elif op == "@sigfreeze":
                    G[int(a[0])] = G[int(a[1])].to_frozen()
                else:
                    raise KeyError(op)
                out.write(sigobs(G[int(a[0])]) + "\n")
                continue
            if op == "new":
                r, num, scaled, track, ksize, seed = map(int, a)
                c = route(3)
                if c == 2 and track:
                    mh = MinHash(num, ksize, track_abundance=False, seed=seed, scaled=scaled)
                    mh.track_abundance = True       # kmerminhash_enable_abundance (allowed on an empty sketch)
                elif c == 0 or scaled == 0:
                    mh = MinHash(num, ksize, track_abundance=bool(track), seed=seed, scaled=scaled)
                else:
                    mh = MinHash(n=num, ksize=ksize, is_protein=False, dayhoff=False, hp=False,
                                 track_abundance=bool(track), seed=seed, max_hash=0, mins=None, scaled=scaled)
                put(T, R, r, mh)
                res = show(T[r])
            elif op == "newmh":
                r, num, mx, track, ksize, seed = map(int, a)
                put(T, R, r, MinHash(num, ksize, track_abundance=bool(track), seed=seed, max_hash=mx))
                res = show(T[r])
            elif op == "add":
                h, v = map(int, a)
                mh = T[h]
                c = route(5)
                if c == 0:
                    mh.add_hash(v)
                elif c == 1:
                    mh.add_many([v])
                elif c == 2:
                    mh.add_many((v,))
                elif c == 3 and mh.track_abundance:
                    mh.add_hash_with_abundance(v, 1)
                elif c == 4 and mh.track_abundance:
                    mh.set_abundances({v: 1}, clear=False)
                else:
                    mh.add_hash(v)
                res = show(T[h])
            elif op == "addab":
                h, v, ab = map(int, a)
                mh = T[h]
                if route(2) and mh.track_abundance:
                    # set_abundances(clear=False) ADDS to the count of a hash that is present; 0 removes
                    mh.set_abundances({v: ab}, clear=False)
                else:
                    mh.add_hash_with_abundance(v, ab)
                res = show(T[h])
            elif op == "addmany":
                h = int(a[0])
                vs = [int(x) for x in a[1:]]
                mh = T[h]
                c = route(6)
                nodup = len(set(vs)) == len(vs) or not mh.track_abundance
                if c == 1:
                    mh.add_many(tuple(vs))
                elif c == 2 and nodup:
                    mh.add_many(set(vs))
                elif c == 3 and nodup:
                    mh.add_many(dict.fromkeys(vs))
                elif c == 4:
                    for v in vs:
                        mh.add_many([v])
                elif c == 5 and nodup:
                    mh.add_many(frozenset(vs))
                else:
                    mh.add_many(vs)
                res = show(T[h])
            elif op == "addfrom":
                h, g = map(int, a)
                c = route(3)
                if c == 0:
                    T[h].add_many(T[g])
                elif c == 1:
                    T[h].add_many(list(T[g].hashes))
                else:
                    T[h].add_many(T[g].hashes)              # the mapping view: its keys
                res = show(T[h])
            elif op == "rm":
                h = int(a[0])
                vs = [int(x) for x in a[1:]]
                c = route(5)
                if c == 0:
                    T[h].remove_many(vs)
                elif c == 1:
                    T[h].remove_many(tuple(vs))
                elif c == 2:
                    T[h].remove_many(set(vs))
                elif c == 3:
                    for v in vs:
                        T[h].remove_many([v])
                else:
                    for v in vs:        # the single-hash entry point (exported, not used by the Python layer)
                        T[h]._methodcall(lib.kmerminhash_remove_hash, v)
                res = show(T[h])
            elif op == "rmfrom":
                h, g = map(int, a)
                c = route(3)
                if c == 0:
                    T[h].remove_many(T[g])
                elif c == 1:
                    T[h].remove_many(list(T[g].hashes))
                else:
                    T[h].remove_many(T[g].hashes)
                res = show(T[h])
            elif op == "setab":
                h, clear = int(a[0]), bool(int(a[1]))
                vals = {}
                for p in a[2:]:
                    k, v = p.split(":")
                    vals[int(k)] = int(v)
                c = route(3)
                if c == 1:
                    vals = dict(reversed(list(vals.items())))
                elif c == 2:
                    vals = collections.OrderedDict(sorted(vals.items()))
                if clear and route(2):
                    T[h].set_abundances(vals)               # clear=True is the default
                else:
                    T[h].set_abundances(vals, clear=clear)
                res = show(T[h])
            elif op == "clear":
                h = int(a[0])
                mh = T[h]
                c = route(3)
                if c == 1 and mh.track_abundance:
                    mh.set_abundances({})
                elif c == 2:
                    mh.remove_many(list(mh.hashes))
                else:
                    mh.clear()
                res = show(T[h])
            elif op == "merge":
                # one modelled operation, two API routes (`merge()` and `+=` both end in kmerminhash_merge); which one
                # is used alternates with a counter the model does not see
                h, g = map(int, a)
                if route(2):
                    T[h].merge(T[g])
                else:
                    t = T[h]
                    t += T[g]
                    assert t is T[h], "+= returned another object"
                res = show(T[h])
            elif op == "plus":
                r, h, g = map(int, a)
                c = route(4)
                if c == 0:
                    x = T[h] + T[g]
                elif c == 1:
                    x = T[h] | T[g]
                elif c == 2:
                    x = T[h].__add__(T[g])
                elif stable(T[h], T[g]):
                    x = T[h].to_frozen() + T[g].to_frozen()
                else:
                    x = T[h] + T[g]
                put(T, R, r, x)
                res = show(T[r])
            elif op == "copy":
                r, h = map(int, a)
                c = route(5)
                if c == 0:
                    x = T[h].copy()
                elif c == 1:
                    x = copymod.copy(T[h])
                elif c == 2:
                    x = T[h].to_mutable()
                elif c == 3 and stable(T[h]):
                    x = frozen_refuses(T[h]).to_mutable()
                else:
                    x = T[h].__copy__()
                assert not stable(T[h]) or (x == T[h] and T[h] == x), "a copy does not compare equal to its source"
                put(T, R, r, x)
                res = show(T[r])
            elif op == "pickle":
                r, h = map(int, a)
                src = T[h]
                c = route(5)
                if c == 0:
                    x = pickle.loads(pickle.dumps(src))
                elif c == 4 and stable(src):
                    # a frozen sketch through pickle (FrozenMinHash.__setstate__), made mutable again
                    x = pickle.loads(pickle.dumps(src.to_frozen())).to_mutable()
                elif c == 1:
                    # the constructor taking an existing collection
                    hs = src.hashes
                    x = MinHash(src.num, src.ksize, track_abundance=src.track_abundance, seed=src.seed,
                                max_hash=src._max_hash, mins=(dict(hs) if src.track_abundance else list(hs)))
                elif c == 2:
                    x = copymod.deepcopy(src)
                elif stable(src):
                    f = src.to_frozen()
                    x = MinHash.__new__(MinHash)
                    x.__setstate__(f.__getstate__())
                else:
                    x = pickle.loads(pickle.dumps(src))
                assert not stable(src) or x == src, "a pickled copy does not compare equal to its source"
                put(T, R, r, x)
                res = show(T[r])
            elif op == "down":
                r, h, sc = map(int, a)
                src = T[h]
                c = route(3)
                if c == 1 and stable(src) and sc <= 2 ** 31:
                    x = src.to_frozen().downsample(scaled=sc).to_mutable()
                elif c == 2 and stable(src) and sc <= 2 ** 31 and src.scaled and not src.track_abundance and sc > src.scaled:
                    x = flatten_and_downsample_scaled(src, sc, src.scaled)
                else:
                    x = src.downsample(scaled=sc)
                put(T, R, r, x)
                res = show(T[r])
            elif op == "downnum":
                r, h, n = map(int, a)
                src = T[h]
                c = route(3)
                if c == 1 and stable(src):
                    x = src.to_frozen().downsample(num=n).to_mutable()
                elif c == 2 and src.num and not src.track_abundance and 0 < n < src.num:
                    x = flatten_and_downsample_num(src, n, src.num)
                else:
                    x = src.downsample(num=n)
                put(T, R, r, x)
                res = show(T[r])
            elif op == "flat":
                r, h = map(int, a)
                # may return T[h] itself for a flat sketch (aliasing is C15's subject);
                # the generator never mutates result handles
                c = route(3)
                if c == 0 or not stable(T[h]):
                    x = T[h].flatten()
                elif c == 1:
                    x = T[h].to_frozen().flatten()
                else:
                    x = T[h].copy()
                    x.track_abundance = False       # kmerminhash_disable_abundance
                    x.track_abundance = False
                put(T, R, r, x)
                res = show(T[r])
            elif op == "inter":
                r, h, g = map(int, a)
                A, B = T[h], T[g]
                c = route(4)
                if c == 1:
                    x = A & B
                elif c == 2 and stable(A, B):
                    x = A.to_frozen().intersection(B.to_frozen())
                elif c == 3 and stable(A, B) and A.scaled and A.scaled == B.scaled and not A.track_abundance \
                        and not B.track_abundance and A.is_compatible(B):
                    x = flatten_and_intersect_scaled(A, B)
                else:
                    x = A.intersection(B)
                put(T, R, r, x)
                res = show(T[r])
            elif op == "inflate":
                r, h, g = map(int, a)
                if route(2) or not stable(T[h], T[g]):
                    x = T[h].inflate(T[g])
                else:
                    x = T[h].to_frozen().inflate(T[g].to_frozen())
                put(T, R, r, x)
                res = show(T[r])
            elif op == "addseq":
                h, seq, force = int(a[0]), a[1], bool(int(a[2]))
                mh = T[h]
                c = route(3) if valid_dna(seq) and len(seq) >= mh.ksize else 0
                if c == 1:
                    for i in range(len(seq) - mh.ksize + 1):
                        mh.add_kmer(seq[i:i + mh.ksize])
                elif c == 2:
                    mh.add_many(mh.seq_to_hashes(seq, force=force))
                else:
                    mh.add_sequence(seq, force)
                res = show(T[h])
            elif op == "md5raw":
                h = int(a[0])
                m1 = raw_md5(T[h])
                assert raw_md5(T[h]) == m1, "two md5 queries in a row differ"
                res = "md5 " + m1
            elif op == "md5":
                h = int(a[0])
                c = route(3)
                if c == 0:
                    res = "md5 " + SourmashSignature(T[h]).md5sum()
                elif c == 1:
                    res = "md5 " + CollectionManifest.make_manifest_row(SourmashSignature(T[h]), None)["md5"]
                else:
                    ss = SourmashSignature(T[h])
                    res = "md5 " + raw_md5(ss.minhash)
            elif op == "cc":
                h, g, ds = map(int, a)
                n1 = T[h].count_common(T[g], bool(ds))
                try:
                    n2 = T[g].count_common(T[h], bool(ds))
                except BaseException:       # noqa: BLE001
                    n2 = n1
                assert n1 == n2, "count_common is not symmetric"
                res = f"ok {n1}"
            elif op == "iu":
                h, g = map(int, a)
                c, u = T[h].intersection_and_union_size(T[g])
                assert (c, u) == tuple(T[h].intersection_and_union_size(T[g])), "two size queries in a row differ"
                res = f"ok {c} {u}"
            elif op == "show":
                res = show(T[int(a[0])])
                assert res == show(T[int(a[0])])
            else:
                res = "bad-op"
            if res != "bad-op":
                R.verify()
        except KeyError:
            res = "bad-op"
        except BaseException as e:          # noqa: BLE001  (panics arrive as SourmashError subclasses)
            res = "err " + exc_name(e)
        out.write(res + "\n")
    out.flush()


if __name__ == "__main__":
    main()
