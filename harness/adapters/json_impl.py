"""Real-code adapter for the `json` stream (C09): executes each op line against the
sourmash package assembled from /repo's working tree and prints one canonical
observation per line.  Token syntax: see lean/SmVerif/Model/DriverJson.lean."""
import copy
import gzip
import hashlib
import io
import json
import os
import pickle
import shutil
import sys
import tempfile

import sourmash  # noqa: F401
from sourmash import MinHash, SourmashSignature
from sourmash.minhash import FrozenMinHash
from sourmash.signature import (FrozenSourmashSignature, load_signatures_from_json, save_signatures_to_json,
                                _detect_input_type, SigInput)
from sourmash._lowlevel import lib
from sourmash.utils import decode_str

VERIF = os.path.dirname(os.path.dirname(os.path.dirname(os.path.abspath(__file__))))
LIT = "sourmash_signature"


def xs(s):
    return "x" + s.encode("utf-8").hex()


def unx(t):
    assert t.startswith("x")
    return bytes.fromhex(t[1:]).decode("utf-8")


def md5_of_pre(ksize, mins):
    h = hashlib.md5()
    h.update(str(ksize).encode())
    for m in mins:
        h.update(str(m).encode())
    return h.hexdigest()


def exc_name(e):
    for cls in (TypeError, RuntimeError, AssertionError, OverflowError, UnicodeError):
        if isinstance(e, cls):
            return cls.__name__
    n = type(e).__name__
    if isinstance(e, ValueError) and n == "ValueError":
        return "ValueError"
    return n


def mh_fields(mh):
    try:
        k = str(mh.ksize)
    except AssertionError:
        k = "!"
    hs = mh.hashes
    items = ",".join(f"{a}:{b}" for a, b in hs.items())
    md5 = decode_str(mh._methodcall(lib.kmerminhash_md5sum))
    return (f"mol={mh.moltype} k={k} seed={mh.seed} num={mh.num} mx={mh._max_hash} sc={mh.scaled} "
            f"tr={int(mh.track_abundance)} n={len(mh)} md5=R{md5.encode('utf-8').hex()} hs={items}")


def show(o):
    if isinstance(o, MinHash):
        return f"ok mh fr={int(isinstance(o, FrozenMinHash))} " + mh_fields(o)
    fr = int(isinstance(o, FrozenSourmashSignature))
    mh = o.minhash
    f = mh_fields(mh)
    # the signature's own md5sum() must be the sketch's
    sm = o.md5sum()
    assert ("md5=R" + sm.encode("utf-8").hex()) in f, "signature md5sum differs from its sketch's"
    return f"ok sig fr={fr} name={xs(o.name)} fn={xs(o.filename)} lic={xs(o.license)} " + f


# ---- documents -----------------------------------------------------------

def fld_tok(tok, conv):
    if tok in ("-", "~", "!"):
        return tok
    return conv(tok)


class Absent:
    pass


ABSENT = Absent()


def parse_val(tok, kind):
    """token -> python value for json.dumps (ABSENT = drop the key)"""
    if tok == "-":
        return ABSENT
    if tok == "~":
        return None
    if tok == "!":
        return {"str": 7, "nat": "seven", "nats": [1.5], "md5": 3}[kind]
    if kind == "str":
        return unx(tok)
    if kind == "nat":
        return int(tok)
    if kind == "nats":
        return [int(x) for x in tok.split(",")] if tok else []
    if kind == "md5":
        if tok.startswith("P"):
            k, ms = tok[1:].split(":")
            return md5_of_pre(int(k), [int(x) for x in ms.split(",")] if ms else [])
        assert tok.startswith("R")
        return bytes.fromhex(tok[1:]).decode("utf-8")
    raise ValueError(kind)


def kvs(tokens, keys):
    out = []
    for key, tok in zip(keys, tokens):
        assert tok.startswith(key + "="), (key, tok)
        out.append(tok[len(key) + 1:])
    return out


SIG_KEYS = ["cls", "email", "hf", "fn", "name", "lic", "ver", "nsk"]
SIG_JSON = ["class", "email", "hash_function", "filename", "name", "license", "version"]
SK_KEYS = ["num", "ksize", "seed", "mh", "mins", "md5", "ab", "mol"]
SK_JSON = [("num", "nat"), ("ksize", "nat"), ("seed", "nat"), ("max_hash", "nat"), ("mins", "nats"),
           ("md5sum", "md5"), ("abundances", "nats"), ("molecule", "str")]


def build_doc(tokens):
    """tokens after `doc <d> <n>` -> list of dicts in canonical key order"""
    out = []
    i = 0
    while i < len(tokens):
        assert tokens[i] == "S"
        cls, email, hf, fn, name, lic, ver, nsk = kvs(tokens[i + 1:i + 9], SIG_KEYS)
        i += 9
        d = {}
        vals = {"class": parse_val(cls, "str"), "email": parse_val(email, "str"),
                "hash_function": parse_val(hf, "str"), "filename": parse_val(fn, "str"),
                "name": parse_val(name, "str"), "license": parse_val(lic, "str")}
        for key in ("class", "email", "hash_function", "filename", "name", "license"):
            if vals[key] is not ABSENT:
                d[key] = vals[key]
        if nsk == "-":
            pass
        elif nsk == "~":
            d["signatures"] = None
        elif nsk == "!":
            d["signatures"] = 5
        else:
            sks = []
            for _ in range(int(nsk)):
                assert tokens[i] == "K"
                toks = kvs(tokens[i + 1:i + 9], SK_KEYS)
                i += 9
                sk = {}
                for (jk, kind), t in zip(SK_JSON, toks):
                    v = parse_val(t, kind)
                    if v is not ABSENT:
                        sk[jk] = v
                sks.append(sk)
            d["signatures"] = sks
        v = parse_val(ver, "str")
        if v is None:
            d["version"] = None
        elif v is ABSENT:
            pass
        elif isinstance(v, int):
            d["version"] = "0.4"           # wrong type for an f64
        else:
            d["version"] = float(v)
        out.append(d)
    return out


def dump_fld(d, key, conv, typ):
    if key not in d:
        return "-"
    v = d[key]
    if v is None:
        return "~"
    if not typ(v):
        return "!"
    return conv(v)


def is_nat(v):
    return isinstance(v, int) and not isinstance(v, bool) and v >= 0


def is_nats(v):
    return isinstance(v, list) and all(is_nat(x) for x in v)


def dump_doc(parsed, gz):
    out = [f"ok gz={int(gz)} n={len(parsed)}"]
    for d in parsed:
        s = lambda key: dump_fld(d, key, xs, lambda v: isinstance(v, str))  # noqa: E731
        ver = dump_fld(d, "version", lambda v: xs(repr(float(v))), lambda v: isinstance(v, (int, float)) and not isinstance(v, bool))
        sks = d.get("signatures", ABSENT)
        if sks is ABSENT:
            nsk = "nsk=-"
        elif sks is None:
            nsk = "nsk=~"
        elif not isinstance(sks, list):
            nsk = "nsk=!"
        else:
            nsk = f"nsk={len(sks)}"
        out.append(f"S cls={s('class')} email={s('email')} hf={s('hash_function')} fn={s('filename')} "
                   f"name={s('name')} lic={s('license')} ver={ver} {nsk}")
        if isinstance(sks, list):
            for k in sks:
                n = lambda key: dump_fld(k, key, str, is_nat)  # noqa: E731
                l = lambda key: dump_fld(k, key, lambda v: ",".join(map(str, v)), is_nats)  # noqa: E731
                md5 = dump_fld(k, "md5sum", lambda v: "R" + v.encode("utf-8").hex(), lambda v: isinstance(v, str))
                mol = dump_fld(k, "molecule", xs, lambda v: isinstance(v, str))
                out.append(f"K num={n('num')} ksize={n('ksize')} seed={n('seed')} mh={n('max_hash')} "
                           f"mins={l('mins')} md5={md5} ab={l('abundances')} mol={mol}")
    return " ".join(out)


def main():
    T = {}
    D = {}          # doc handle -> (text bytes, gz bytes or None)
    tmpd = None
    out = sys.stdout
    for line in sys.stdin:
        w = line.split()
        if not w:
            out.write("bad-op\n")
            continue
        op = w[0]
        try:
            if op == "#":
                T = {}
                D = {}
                out.write("#\n")
                continue
            a = w[1:]
            if op == "mh":
                r, hf, k, seed, num, scaled, track = map(int, a[:7])
                ps = [(int(p.split(":")[0]), int(p.split(":")[1])) for p in a[7:]]
                mh = MinHash(num, k, is_protein=(hf == 2), dayhoff=(hf == 3), hp=(hf == 4),
                             track_abundance=bool(track), seed=seed, scaled=scaled)
                if track:
                    mh.set_abundances(dict(ps))
                else:
                    mh.add_many([p[0] for p in ps])
                T[r] = mh
                res = show(mh)
            elif op == "sig":
                r, h = int(a[0]), int(a[1])
                if not isinstance(T[h], MinHash):
                    raise KeyError
                T[r] = SourmashSignature(T[h], name=unx(a[2]), filename=unx(a[3]))
                res = show(T[r])
            elif op == "getmh":
                r, h = int(a[0]), int(a[1])
                if not isinstance(T[h], SourmashSignature):
                    raise KeyError
                T[r] = T[h].minhash
                res = show(T[r])
            elif op == "copy":
                r, h = int(a[0]), int(a[1])
                T[r] = copy.copy(T[h])
                res = show(T[r])
            elif op == "pickle":
                r, h = int(a[0]), int(a[1])
                T[r] = pickle.loads(pickle.dumps(T[h]))
                res = show(T[r])
            elif op == "tomut":
                r, h = int(a[0]), int(a[1])
                T[r] = T[h].to_mutable()
                res = show(T[r])
            elif op == "tofrozen":
                r, h = int(a[0]), int(a[1])
                T[r] = T[h].to_frozen()
                res = show(T[r])
            elif op == "show":
                res = show(T[int(a[0])])
            elif op == "save":
                d, c, fpmode = int(a[0]), int(a[1]), int(a[2])
                sigs = [T[int(h)] for h in a[3:]]
                if not all(isinstance(s, SourmashSignature) for s in sigs):
                    raise KeyError
                if fpmode == 0:
                    raw = save_signatures_to_json(sigs, compression=c)
                elif fpmode == 1:
                    fp = io.BytesIO()
                    assert save_signatures_to_json(sigs, fp, compression=c) is None
                    raw = fp.getvalue()
                else:
                    fp = io.StringIO()
                    assert save_signatures_to_json(sigs, fp, compression=c) is None
                    raw = fp.getvalue().encode("utf-8")
                gz = raw[:2] == b"\x1f\x8b"
                text = gzip.decompress(raw) if gz else raw
                D[d] = (text, raw if gz else None)
                # the document field by field, and the uncompressed text byte for byte
                res = dump_doc(json.loads(text.decode("utf-8")), gz) + " tx=H" + text.hex()
            elif op == "doc":
                d, n = int(a[0]), int(a[1])
                parsed = build_doc(a[2:])
                assert len(parsed) == n
                text = json.dumps(parsed, ensure_ascii=(d % 2 == 0)).encode("utf-8")
                D[d] = (text, None)
                res = dump_doc(json.loads(text.decode("utf-8")), False)
            elif op == "blob":
                d = int(a[0])
                assert a[1].startswith("h")
                blob = bytes.fromhex(a[1][1:])
                D[d] = (blob, None, "blob")
                res = f"ok blob n={len(blob)}"
            elif op == "load":
                r, d, via, k, m, lit, do_raise = int(a[0]), int(a[1]), a[2], a[3], a[4], int(a[5]), int(a[6])
                text, gzb = D[d][0], D[d][1]
                is_blob = len(D[d]) == 3
                if is_blob and via in ("gz", "fgz"):
                    gzb = gzip.compress(text, compresslevel=1 + (r % 9))
                elif is_blob:
                    gzb = text            # never used compressed: raw bytes as they are
                if gzb is None:
                    gzb = gzip.compress(text, compresslevel=1 + (r % 9))
                kw = {}
                if k != "-":
                    kw["ksize"] = int(k)
                if m != "-":
                    kw["select_moltype"] = unx(m)
                kw["do_raise"] = bool(do_raise)
                if via == "str":
                    data = text.decode("utf-8")
                elif via == "bytes":
                    data = text
                elif via == "gz":
                    data = gzb
                elif via in ("path", "ftext", "fbin", "fgz"):
                    if tmpd is None:
                        os.makedirs(os.path.join(VERIF, ".build", "tmp"), exist_ok=True)
                        tmpd = tempfile.mkdtemp(prefix="json_impl_", dir=os.path.join(VERIF, ".build", "tmp"))
                    use_gz = via == "fgz" or (via == "path" and r % 2 == 1 and not is_blob)
                    ext = ".sig.gz" if use_gz else ".sig"
                    if is_blob:           # misleading extensions: the readers must go by content
                        ext = [".sig", ".sig.gz", ".zip", ".json.gz", ".gz", ".bz2", ".sig.xz", ""][r % 8]
                    name = f"d{d}_{r}" + (("_" + LIT) if lit else "") + ext
                    p = os.path.join(tmpd, name)
                    with open(p, "wb") as f:
                        f.write(gzb if use_gz else text)
                    if via == "path":
                        data = p
                    elif via == "ftext":
                        data = open(p, "rt", encoding="utf-8")
                    else:
                        data = open(p, "rb")
                else:
                    raise KeyError
                sigs = list(load_signatures_from_json(data, **kw))
                for i, s in enumerate(sigs):
                    T[r + i] = s
                res = f"ok n={len(sigs)}" + "".join(" ; " + show(s) for s in sigs)
            elif op == "sniff":
                kind, hx, ex = a[0], a[1], int(a[2])
                assert hx.startswith("h")
                raw = bytes.fromhex(hx[1:])
                if kind == "str":
                    data = raw.decode("utf-8")
                elif kind == "bytes":
                    data = raw
                elif kind == "file":
                    data = io.BytesIO(raw)
                elif kind == "other":
                    data = 10 ** 9 if not ex else None
                else:
                    raise KeyError
                if ex and kind in ("str", "bytes"):
                    # the generator promises `ex` only for names that can be created
                    if tmpd is None:
                        os.makedirs(os.path.join(VERIF, ".build", "tmp"), exist_ok=True)
                        tmpd = tempfile.mkdtemp(prefix="json_impl_", dir=os.path.join(VERIF, ".build", "tmp"))
                    cwd = os.getcwd()
                    os.chdir(tmpd)
                    try:
                        with open(data, "wb") as f:
                            f.write(b"x")
                        t = _detect_input_type(data)
                        os.remove(data)
                    finally:
                        os.chdir(cwd)
                elif kind == "other" and ex:
                    # an object without `find` for which os.path.exists answers True: an open fd number
                    fd = os.open(os.devnull, os.O_RDONLY)
                    try:
                        t = _detect_input_type(fd)
                    finally:
                        os.close(fd)
                else:
                    t = _detect_input_type(data)
                res = "ok " + {SigInput.FILE_LIKE: "FILE_LIKE", SigInput.PATH: "PATH", SigInput.BUFFER: "BUFFER",
                               SigInput.UNKNOWN: "UNKNOWN"}[t]
            else:
                res = "bad-op"
        except KeyError:
            res = "bad-op"
        except BaseException as e:          # noqa: BLE001
            res = "err " + exc_name(e)
        out.write(res + "\n")
    out.flush()
    if tmpd is not None:
        shutil.rmtree(tmpd, ignore_errors=True)


if __name__ == "__main__":
    main()
