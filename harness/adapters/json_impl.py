"""Real-code adapter for the `json` stream (C09): executes each op line against the
sourmash package assembled from /repo's working tree and prints one canonical
observation per line.  Token syntax: see lean/SmVerif/Model/DriverJson.lean."""
import copy
import gzip
import hashlib
import io
import json
import os
import pickle
import shutil
import sys
import tempfile
import warnings

import sourmash  # noqa: F401
from sourmash import MinHash, SourmashSignature
from sourmash.minhash import FrozenMinHash
from sourmash.signature import (FrozenSourmashSignature, load_signatures_from_json, load_one_signature_from_json,
                                save_signatures_to_json,
                                _detect_input_type, SigInput)
from sourmash._lowlevel import lib
from sourmash.utils import decode_str

VERIF = os.path.dirname(os.path.dirname(os.path.dirname(os.path.abspath(__file__))))
LIT = "sourmash_signature"
sys.path.insert(0, os.path.dirname(os.path.abspath(__file__)))

# per-case counter the model does not see (reset at `#`): which of several spellings of one operation is used
NROUTE = [0]


UNIQ = [0]           # never reset: names of scratch files


def uniq():
    UNIQ[0] += 1
    return UNIQ[0]


def route(n):
    NROUTE[0] += 1
    return NROUTE[0] % n


class ViewError(Exception):
    """two routes to the same information disagree, or an earlier result changed"""


def check(cond, what):
    if not cond:
        raise ViewError(what)


def xs(s):
    return "x" + s.encode("utf-8").hex()


def unx(t):
    assert t.startswith("x")
    return bytes.fromhex(t[1:]).decode("utf-8")


def md5_of_pre(ksize, mins):
    h = hashlib.md5()
    h.update(str(ksize).encode())
    for m in mins:
        h.update(str(m).encode())
    return h.hexdigest()


def exc_name(e):
    for cls in (TypeError, RuntimeError, AssertionError, OverflowError, UnicodeError):
        if isinstance(e, cls):
            return cls.__name__
    n = type(e).__name__
    if isinstance(e, ValueError) and n == "ValueError":
        return "ValueError"
    return n


def mh_fields(mh):
    try:
        k = str(mh.ksize)
    except AssertionError:
        k = "!"
    hs = mh.hashes
    items = ",".join(f"{a}:{b}" for a, b in hs.items())
    md5 = decode_str(mh._methodcall(lib.kmerminhash_md5sum))
    # ---- several views of one sketch must agree
    with warnings.catch_warnings():
        warnings.simplefilter("ignore")
        mins = mh.get_mins()
        check(list(dict.fromkeys(mins)) == list(hs.keys()), "get_mins() vs hashes")
        if mh.track_abundance:
            wa = mh.get_mins(with_abundance=True)
            check(dict(wa) == dict(hs.items()), "get_mins(with_abundance) vs hashes")
        check(mh.max_hash == mh._max_hash, "max_hash vs _max_hash")
    if k != "!":            # (a stored k that is not a multiple of 3: `.ksize` asserts, and so does __getstate__)
        check(mh == mh, "MinHash.__eq__ reflexive")
    check(list(hs) == list(hs.keys()) and len(hs) == len(list(hs.items())), "_HashesWrapper iteration")
    check((mh.scaled == 0) == (mh._max_hash == 0), "scaled vs max_hash")
    check(mh.is_dna == (mh.moltype == "DNA") and [mh.is_protein, mh.dayhoff, mh.hp].count(True) == (0 if mh.is_dna else 1),
          "moltype vs flags")
    return (f"mol={mh.moltype} k={k} seed={mh.seed} num={mh.num} mx={mh._max_hash} sc={mh.scaled} "
            f"tr={int(mh.track_abundance)} n={len(mh)} md5=R{md5.encode('utf-8').hex()} hs={items}")


def is_params(o):
    return getattr(o, "_verif_params", False)


def show(o):
    if isinstance(o, MinHash):
        return f"ok mh fr={int(isinstance(o, FrozenMinHash))} " + mh_fields(o)
    fr = int(isinstance(o, FrozenSourmashSignature))
    mh = o.minhash
    f = mh_fields(mh)
    # the signature's own md5sum() must be the sketch's
    sm = o.md5sum()
    check(("md5=R" + sm.encode("utf-8").hex()) in f, "signature md5sum vs its sketch's")
    # ---- several views of one signature must agree
    check(o._name == o.name, "_name vs name")
    check(hash(o) == hash(sm), "hash(sig) vs md5sum")
    dn = o._display_name()
    check(dn == (o.name or o.filename or sm[:8]) and str(o) == dn, "str(sig) / _display_name vs name, filename, md5")
    rp = repr(o)
    check(sm[:8] in rp and o.name in rp, "repr(sig) vs name, md5")
    nsk = len(o)
    if not is_params(o):
        # (signatures built by from_params hold B-tree sketches, for which `==` is not implemented: C09.7)
        check(o == o and not (o != o), "sig == sig reflexive")
    if " k=! " not in f:
        check(o.minhash == mh, "sig.minhash twice")
    return f"ok sig fr={fr} nsk={nsk} name={xs(o.name)} fn={xs(o.filename)} lic={xs(o.license)} " + f


# ---- documents -----------------------------------------------------------

def fld_tok(tok, conv):
    if tok in ("-", "~", "!"):
        return tok
    return conv(tok)


class Absent:
    pass


ABSENT = Absent()


def parse_val(tok, kind):
    """token -> python value for json.dumps (ABSENT = drop the key)"""
    if tok == "-":
        return ABSENT
    if tok == "~":
        return None
    if tok == "!":
        return {"str": 7, "nat": "seven", "nats": [1.5], "md5": 3}[kind]
    if kind == "str":
        return unx(tok)
    if kind == "nat":
        return int(tok)
    if kind == "nats":
        return [int(x) for x in tok.split(",")] if tok else []
    if kind == "md5":
        if tok.startswith("P"):
            k, ms = tok[1:].split(":")
            return md5_of_pre(int(k), [int(x) for x in ms.split(",")] if ms else [])
        assert tok.startswith("R")
        return bytes.fromhex(tok[1:]).decode("utf-8")
    raise ValueError(kind)


def kvs(tokens, keys):
    out = []
    for key, tok in zip(keys, tokens):
        assert tok.startswith(key + "="), (key, tok)
        out.append(tok[len(key) + 1:])
    return out


SIG_KEYS = ["cls", "email", "hf", "fn", "name", "lic", "ver", "nsk"]
SIG_JSON = ["class", "email", "hash_function", "filename", "name", "license", "version"]
SK_KEYS = ["num", "ksize", "seed", "mh", "mins", "md5", "ab", "mol"]
SK_JSON = [("num", "nat"), ("ksize", "nat"), ("seed", "nat"), ("max_hash", "nat"), ("mins", "nats"),
           ("md5sum", "md5"), ("abundances", "nats"), ("molecule", "str")]


def build_doc(tokens):
    """tokens after `doc <d> <n>` -> list of dicts in canonical key order"""
    out = []
    i = 0
    while i < len(tokens):
        assert tokens[i] == "S"
        cls, email, hf, fn, name, lic, ver, nsk = kvs(tokens[i + 1:i + 9], SIG_KEYS)
        i += 9
        d = {}
        vals = {"class": parse_val(cls, "str"), "email": parse_val(email, "str"),
                "hash_function": parse_val(hf, "str"), "filename": parse_val(fn, "str"),
                "name": parse_val(name, "str"), "license": parse_val(lic, "str")}
        for key in ("class", "email", "hash_function", "filename", "name", "license"):
            if vals[key] is not ABSENT:
                d[key] = vals[key]
        if nsk == "-":
            pass
        elif nsk == "~":
            d["signatures"] = None
        elif nsk == "!":
            d["signatures"] = 5
        else:
            sks = []
            for _ in range(int(nsk)):
                assert tokens[i] == "K"
                toks = kvs(tokens[i + 1:i + 9], SK_KEYS)
                i += 9
                sk = {}
                for (jk, kind), t in zip(SK_JSON, toks):
                    v = parse_val(t, kind)
                    if v is not ABSENT:
                        sk[jk] = v
                sks.append(sk)
            d["signatures"] = sks
        v = parse_val(ver, "str")
        if v is None:
            d["version"] = None
        elif v is ABSENT:
            pass
        elif isinstance(v, int):
            d["version"] = "0.4"           # wrong type for an f64
        else:
            d["version"] = float(v)
        out.append(d)
    return out


def dump_fld(d, key, conv, typ):
    if key not in d:
        return "-"
    v = d[key]
    if v is None:
        return "~"
    if not typ(v):
        return "!"
    return conv(v)


def is_nat(v):
    return isinstance(v, int) and not isinstance(v, bool) and v >= 0


def is_nats(v):
    return isinstance(v, list) and all(is_nat(x) for x in v)


def dump_doc(parsed, gz):
    out = [f"ok gz={int(gz)} n={len(parsed)}"]
    for d in parsed:
        s = lambda key: dump_fld(d, key, xs, lambda v: isinstance(v, str))  # noqa: E731
        ver = dump_fld(d, "version", lambda v: xs(repr(float(v))), lambda v: isinstance(v, (int, float)) and not isinstance(v, bool))
        sks = d.get("signatures", ABSENT)
        if sks is ABSENT:
            nsk = "nsk=-"
        elif sks is None:
            nsk = "nsk=~"
        elif not isinstance(sks, list):
            nsk = "nsk=!"
        else:
            nsk = f"nsk={len(sks)}"
        out.append(f"S cls={s('class')} email={s('email')} hf={s('hash_function')} fn={s('filename')} "
                   f"name={s('name')} lic={s('license')} ver={ver} {nsk}")
        if isinstance(sks, list):
            for k in sks:
                n = lambda key: dump_fld(k, key, str, is_nat)  # noqa: E731
                l = lambda key: dump_fld(k, key, lambda v: ",".join(map(str, v)), is_nats)  # noqa: E731
                md5 = dump_fld(k, "md5sum", lambda v: "R" + v.encode("utf-8").hex(), lambda v: isinstance(v, str))
                mol = dump_fld(k, "molecule", xs, lambda v: isinstance(v, str))
                out.append(f"K num={n('num')} ksize={n('ksize')} seed={n('seed')} mh={n('max_hash')} "
                           f"mins={l('mins')} md5={md5} ab={l('abundances')} mol={mol}")
    return " ".join(out)


def tmpdir(state):
    if state["tmpd"] is None:
        os.makedirs(os.path.join(VERIF, ".build", "tmp"), exist_ok=True)
        state["tmpd"] = tempfile.mkdtemp(prefix="json_impl_", dir=os.path.join(VERIF, ".build", "tmp"))
    return state["tmpd"]


def frozen_refuses(o, before):
    """a frozen signature refuses every setter and stays what it was (the loader hands out frozen objects)"""
    for what, fn in (("name", lambda: setattr(o, "name", "zz")), ("_name", lambda: setattr(o, "_name", "zz")),
                     ("filename", lambda: setattr(o, "filename", "zz")),
                     ("minhash", lambda: setattr(o, "minhash", o.minhash)),
                     ("__setstate__", lambda: o.__setstate__((o.minhash, "zz", "zz")))):
        try:
            fn()
        except ValueError:
            pass
        else:
            raise ViewError(f"a frozen signature accepted {what}")
    o.into_frozen()
    check(isinstance(o, FrozenSourmashSignature) and show(o) == before, "a refused setter changed a frozen signature")


def put(T, H, r, o):
    """keep EVERY object a call returned until the end of the case, with what it looked like then"""
    T[r] = o
    res = show(o)
    if isinstance(o, FrozenSourmashSignature) and route(4) == 0:
        frozen_refuses(o, res)
    H.append((r, o, res))
    return res


def recheck(H):
    """nothing a later call did may have changed an earlier result (all ops of this stream are read-only
    on existing objects); asked in a different order than they were made"""
    for r, o, res in reversed(H):
        now = show(o)
        check(now == res, f"object first returned as handle {r} changed: was `{res[:160]}` is `{now[:160]}`")
    for r, o, res in H:
        check(show(o) == res, f"object first returned as handle {r} changed on the second pass")


def save_bytes(sigs, c, fpmode, state):
    """the modelled call, then the other spellings of the same operation: all must give the same bytes"""
    if fpmode == 0:
        raw = save_signatures_to_json(sigs, compression=c)
    elif fpmode == 1:
        fp = io.BytesIO()
        assert save_signatures_to_json(sigs, fp, compression=c) is None
        raw = fp.getvalue()
    else:
        fp = io.StringIO()
        assert save_signatures_to_json(sigs, fp, compression=c) is None
        raw = fp.getvalue().encode("utf-8")
    gz = raw[:2] == b"\x1f\x8b"
    text = gzip.decompress(raw) if gz else raw
    # read-only entry point called twice
    again = save_signatures_to_json(tuple(sigs), compression=c)
    check((gzip.decompress(again) if again[:2] == b"\x1f\x8b" else again) == text, "save twice")
    r = route(4)
    if r == 0:
        with warnings.catch_warnings():
            warnings.simplefilter("ignore")
            import sourmash as _sm
            alt = _sm.save_signatures(sigs, compression=c)
        check((gzip.decompress(alt) if alt[:2] == b"\x1f\x8b" else alt) == text, "sourmash.save_signatures vs save_signatures_to_json")
        check((alt[:2] == b"\x1f\x8b") == gz, "sourmash.save_signatures compression")
    elif r == 1:
        from sourmash.sourmash_args import SaveSignaturesToLocation
        for ext, want_gz in ((".sig", False), (".sig.gz", True)):
            pth = os.path.join(tmpdir(state), f"alt{uniq()}{ext}")
            with SaveSignaturesToLocation(pth) as sv:
                for x in sigs:
                    sv.add(x)
            data = open(pth, "rb").read()
            check((data[:2] == b"\x1f\x8b") == want_gz, "SaveSignaturesToLocation: gzip by file name")
            check((gzip.decompress(data) if want_gz else data) == text, "SaveSignaturesToLocation vs save_signatures_to_json")
    elif r == 2:
        # any compression level gives the same document
        for lvl in (1, 5, 9, 200):
            z = save_signatures_to_json(sigs, compression=lvl)
            check(z[:2] == b"\x1f\x8b" and gzip.decompress(z) == text, f"compression={lvl}")
    return raw, gz, text


def fields_of(sigs):
    return [show(x) for x in sigs]


def main():
    T = {}
    D = {}          # doc handle -> (text bytes, gz bytes or None[, "blob"])
    H = []          # history: (handle, object, what it looked like when it was returned)
    state = {"tmpd": None}
    out = sys.stdout
    for line in sys.stdin:
        w = line.split()
        if not w:
            out.write("bad-op\n")
            continue
        op = w[0]
        try:
            if op == "#":
                T = {}
                D = {}
                H = []
                NROUTE[0] = 0
                out.write("#\n")
                continue
            a = w[1:]
            if op == "mh":
                r, hf, k, seed, num, scaled, track = map(int, a[:7])
                ps = [(int(p.split(":")[0]), int(p.split(":")[1])) for p in a[7:]]
                mh = MinHash(num, k, is_protein=(hf == 2), dayhoff=(hf == 3), hp=(hf == 4),
                             track_abundance=bool(track), seed=seed, scaled=scaled)
                if track:
                    mh.set_abundances(dict(ps))
                else:
                    mh.add_many([p[0] for p in ps])
                res = put(T, H, r, mh)
            elif op == "sig":
                r, h = int(a[0]), int(a[1])
                if not isinstance(T[h], MinHash):
                    raise KeyError
                name, fname = unx(a[2]), unx(a[3])
                rt = route(3)
                if rt == 0:
                    o = SourmashSignature(T[h], name=name, filename=fname)
                elif rt == 1:
                    o = SourmashSignature(T[h], name, fname)
                else:
                    # keyword defaults, then the setters (which the constructor uses for non-empty values)
                    o = SourmashSignature(T[h])
                    if name:
                        o._name = name
                    if fname:
                        o.filename = fname
                res = put(T, H, r, o)
            elif op == "params":
                # SourmashSignature.from_params(ComputeParameters(ksizes=[...])): several sketches in ONE signature
                from sourmash.command_compute import ComputeParameters
                r, scaled, num, track, seed = int(a[0]), int(a[1]), int(a[2]), int(a[3]), int(a[4])
                ks = [int(x) for x in a[5].split(",")]
                prm = ComputeParameters(ksizes=ks, seed=seed, protein=False, dayhoff=False, hp=False, dna=True,
                                        num_hashes=num, track_abundance=bool(track), scaled=scaled)
                o = SourmashSignature.from_params(prm)
                o._verif_params = True
                res = put(T, H, r, o)
            elif op == "getmh":
                r, h = int(a[0]), int(a[1])
                if not isinstance(T[h], SourmashSignature):
                    raise KeyError
                res = put(T, H, r, T[h].minhash)
            elif op == "copy":
                r, h = int(a[0]), int(a[1])
                rt = route(3)
                o = copy.copy(T[h]) if rt == 0 else (T[h].copy() if rt == 1 else T[h].__copy__())
                if is_params(T[h]):
                    o._verif_params = False     # the copy holds a plain (first) sketch
                res = put(T, H, r, o)
            elif op == "pickle":
                r, h = int(a[0]), int(a[1])
                rt = route(6)
                if rt == 5:
                    o = copy.deepcopy(T[h])
                else:
                    o = pickle.loads(pickle.dumps(T[h], protocol=[None, 2, 3, 4, 5][rt] if rt else pickle.DEFAULT_PROTOCOL))
                res = put(T, H, r, o)
            elif op == "tomut":
                r, h = int(a[0]), int(a[1])
                res = put(T, H, r, T[h].to_mutable())
            elif op == "tofrozen":
                r, h = int(a[0]), int(a[1])
                src = T[h]
                if route(2) == 0 or isinstance(src, (FrozenMinHash, FrozenSourmashSignature)):
                    o = src.to_frozen()
                else:
                    o = src.copy()
                    o.into_frozen()
                res = put(T, H, r, o)
            elif op == "update":
                r, h = int(a[0]), int(a[1])
                if not isinstance(T[h], FrozenSourmashSignature):
                    raise KeyError
                with T[h].update() as u:
                    pass
                res = put(T, H, r, u)
            elif op == "eq":
                x, y = T[int(a[0])], T[int(a[1])]
                if isinstance(x, MinHash) != isinstance(y, MinHash) or is_params(x) or is_params(y):
                    raise KeyError
                e = bool(x == y)
                check(bool(x != y) == (not e), "!= vs ==")
                if isinstance(x, SourmashSignature):
                    check(bool(y == x) == e, "== symmetric")
                    if e:
                        check(hash(x) == hash(y) and x.md5sum() == y.md5sum(), "equal signatures, different md5 / hash")
                res = f"ok {int(e)}"
            elif op == "eqp":
                # `==` with a from_params signature on the left (B-tree sketches): implementation-only op
                x, y = T[int(a[0])], T[int(a[1])]
                if not (isinstance(x, SourmashSignature) and isinstance(y, SourmashSignature)):
                    raise KeyError
                res = f"ok {int(bool(x == y))}"
            elif op == "recheck":
                recheck(H)
                res = "ok"
            elif op == "show":
                res = show(T[int(a[0])])
            elif op == "save":
                d, c, fpmode = int(a[0]), int(a[1]), int(a[2])
                sigs = [T[int(h)] for h in a[3:]]
                if not all(isinstance(s, SourmashSignature) for s in sigs):
                    raise KeyError
                raw, gz, text = save_bytes(sigs, c, fpmode, state)
                D[d] = (text, raw if gz else None)
                # the document field by field, and the uncompressed text byte for byte
                res = dump_doc(json.loads(text.decode("utf-8")), gz) + " tx=H" + text.hex()
            elif op == "doc":
                d, n = int(a[0]), int(a[1])
                parsed = build_doc(a[2:])
                assert len(parsed) == n
                text = json.dumps(parsed, ensure_ascii=(d % 2 == 0)).encode("utf-8")
                D[d] = (text, None)
                res = dump_doc(json.loads(text.decode("utf-8")), False)
            elif op == "blob":
                d = int(a[0])
                assert a[1].startswith("h")
                blob = bytes.fromhex(a[1][1:])
                D[d] = (blob, None, "blob")
                res = f"ok blob n={len(blob)}"
            elif op in ("load", "loadone"):
                one = op == "loadone"
                if one:
                    r, d, via, k, m = int(a[0]), int(a[1]), a[2], a[3], a[4]
                    lit, do_raise = 0, 0
                else:
                    r, d, via, k, m, lit, do_raise = int(a[0]), int(a[1]), a[2], a[3], a[4], int(a[5]), int(a[6])
                text, gzb = D[d][0], D[d][1]
                is_blob = len(D[d]) == 3
                if is_blob and via in ("gz", "fgz"):
                    gzb = gzip.compress(text, compresslevel=1 + (r % 9))
                elif is_blob:
                    gzb = text            # never used compressed: raw bytes as they are
                if gzb is None:
                    gzb = gzip.compress(text, compresslevel=1 + (r % 9))
                kw = {}
                if k != "-":
                    kw["ksize"] = int(k)
                if m != "-":
                    kw["select_moltype"] = unx(m)
                if not one:
                    kw["do_raise"] = bool(do_raise)

                def make_data():
                    if via == "str":
                        return text.decode("utf-8")
                    if via == "bytes":
                        return text
                    if via == "gz":
                        return gzb
                    if via in ("path", "ftext", "ftexttmp", "fbin", "fgz"):
                        use_gz = via == "fgz" or (via == "path" and r % 2 == 1 and not is_blob)
                        ext = ".sig.gz" if use_gz else ".sig"
                        if is_blob:           # misleading extensions: the readers must go by content
                            ext = [".sig", ".sig.gz", ".zip", ".json.gz", ".gz", ".bz2", ".sig.xz", ""][r % 8]
                        name = f"d{d}_{r}_{uniq()}" + (("_" + LIT) if lit else "") + ext
                        pth = os.path.join(tmpdir(state), name)
                        with open(pth, "wb") as f:
                            f.write(gzb if use_gz else text)
                        if via == "path":
                            return pth
                        if via in ("ftext", "ftexttmp"):
                            return open(pth, "rt", encoding="utf-8")
                        return open(pth, "rb")
                    raise KeyError

                def call(fn, kwargs):
                    try:
                        if via == "ftexttmp":
                            # a text-mode file object nobody else holds a reference to: open(path) as the argument
                            x = fn(make_data(), **kwargs)
                            return ("ok", [x] if one else list(x))
                        keep = make_data()          # (the caller keeps its file object, as in `with open(..) as fp`)
                        x = fn(keep, **kwargs)
                        return ("ok", [x] if one else list(x))
                    except KeyError:
                        raise
                    except BaseException as e:      # noqa: BLE001
                        return ("err", exc_name(e))

                primary_fn = load_one_signature_from_json if one else load_signatures_from_json
                st, val = call(primary_fn, kw)
                # ---- the other spellings of the same call must answer the same
                alts = []
                rt = route(5)
                import sourmash as _sm
                if rt == 0:
                    alts.append((_sm.load_one_signature if one else _sm.load_signatures, dict(kw)))
                elif rt == 1:
                    k2 = dict(kw)
                    if "ksize" in k2:
                        k2["ksize"] = str(k2["ksize"])          # "int-like" strings are accepted
                    if "select_moltype" in k2:
                        try:
                            k2["select_moltype"] = k2["select_moltype"].encode("utf-8")   # bytes pass through
                        except UnicodeError:
                            pass
                    k2["ignore_md5sum"] = True
                    alts.append((primary_fn, k2))
                elif rt == 2:
                    k2 = dict(kw)
                    k2.setdefault("ksize", None)
                    k2.setdefault("select_moltype", None)
                    k2["ignore_md5sum"] = False
                    alts.append((primary_fn, k2))
                elif rt == 3:
                    alts.append((primary_fn, dict(kw)))         # simply twice
                with warnings.catch_warnings():
                    warnings.simplefilter("ignore")
                    for fn, k2 in alts:
                        st2, val2 = call(fn, k2)
                        check(st2 == st, f"{fn.__name__}({sorted(k2)}) answers {st2} {val2 if st2 == 'err' else ''}, the modelled call {st} {val if st == 'err' else ''}")
                        if st == "ok":
                            check(fields_of(val2) == fields_of(val), f"{fn.__name__}({sorted(k2)}) returns other signatures")
                        else:
                            check(val2 == val, f"{fn.__name__} raises {val2}, the modelled call {val}")
                if rt == 4 and st == "ok" and via == "path" and not one and k == "-" and m == "-" and val \
                        and not any(" k=! " in t for t in fields_of(val)):     # (the index layer needs a readable k)
                    # the collection-level route over the same file
                    with warnings.catch_warnings():
                        warnings.simplefilter("ignore")
                        idx = list(_sm.load_file_as_signatures(make_data()))
                    check(fields_of(idx) == fields_of(val), "load_file_as_signatures vs load_signatures_from_json")
                if st == "err":
                    res = "err " + val
                else:
                    sigs = val
                    shown = []
                    for i, x in enumerate(sigs):
                        shown.append(put(T, H, r + i, x))
                    res = (shown[0] if one else f"ok n={len(sigs)}" + "".join(" ; " + t for t in shown))
            elif op == "cli":
                import cli_server
                sub = a[0]
                d_in = int(a[2]) if sub in ("cat", "rename") else int(a[1])
                text, gzb = D[d_in][0], D[d_in][1]
                if len(D[d_in]) == 3:
                    raise KeyError
                td = tmpdir(state)
                NROUTE[0] += 1
                u = uniq()
                inp = os.path.join(td, f"cli{u}_in" + (".sig.gz" if (gzb is not None and NROUTE[0] % 2) else ".sig"))
                with open(inp, "wb") as f:
                    f.write(gzb if inp.endswith(".gz") else text)
                ref = list(load_signatures_from_json(inp, do_raise=True))
                if sub in ("cat", "rename"):
                    d_out = int(a[1])
                    outp = os.path.join(td, f"cli{u}_out" + (".sig.gz" if NROUTE[0] % 3 == 0 else ".sig"))
                    argv = ["sig", sub, inp, "-o", outp, "-q"]
                    if sub == "rename":
                        argv = ["sig", "rename", inp, unx(a[3]), "-o", outp, "-q"]
                    ans = cli_server.run(argv)
                    if ans["rc"] != 0:
                        res = "err CLI"
                    else:
                        raw = open(outp, "rb").read()
                        # the same command again into the SAME output file: a second writer on one location
                        ans2 = cli_server.run(argv)
                        check(ans2["rc"] == 0 and open(outp, "rb").read()[:2] == raw[:2], "second run into the same output failed")
                        r2 = open(outp, "rb").read()
                        un = (lambda b: gzip.decompress(b) if b[:2] == b"\x1f\x8b" else b)
                        check(un(r2) == un(raw), "writing twice to one output file gives another document")
                        gz = raw[:2] == b"\x1f\x8b"
                        check(gz == outp.endswith(".gz"), "CLI output compression goes by the file name")
                        t2 = gzip.decompress(raw) if gz else raw
                        D[d_out] = (t2, None)
                        res = dump_doc(json.loads(t2.decode("utf-8")), False) + " tx=H" + t2.hex()
                elif sub == "describe":
                    csvp = os.path.join(td, f"cli{u}.csv")
                    ans = cli_server.run(["sig", "describe", inp, "--csv", csvp, "-q"])
                    check(ans["rc"] == 0, "sig describe failed: " + ans["err"][-200:])
                    import csv
                    rows = list(csv.DictReader(open(csvp, newline="", encoding="utf-8")))
                    check(len(rows) == len(ref), f"describe lists {len(rows)} signatures, the file holds {len(ref)}")
                    for row, x in zip(rows, ref):
                        mh = x.minhash
                        want = {"md5": x.md5sum(), "ksize": str(mh.ksize), "moltype": mh.moltype, "num": str(mh.num),
                                "scaled": str(mh.scaled), "n_hashes": str(len(mh)), "seed": str(mh.seed),
                                "with_abundance": str(int(mh.track_abundance)), "name": x.name, "filename": x.filename,
                                "license": x.license, "sum_hashes": str(sum(mh.hashes.values()))}
                        for key, v in want.items():
                            got = row[key]
                            # the csv module writes and reads text; \r and \n inside names survive quoted
                            check(got == v, f"describe reports {key}={got[:60]!r}, the loaded signature has {v[:60]!r}")
                    res = f"ok n={len(rows)}"
                elif sub == "split":
                    outd = os.path.join(td, f"cli{u}_split")
                    ans = cli_server.run(["sig", "split", inp, "--output-dir", outd, "-q"])
                    check(ans["rc"] == 0, "sig split failed: " + ans["err"][-200:])
                    got = []
                    for fn in sorted(os.listdir(outd)):
                        got += list(load_signatures_from_json(os.path.join(outd, fn), do_raise=True))
                    check(sorted(fields_of(got)) == sorted(fields_of(ref)), "sig split: the pieces are not the signatures of the file: " + repr([x for x in fields_of(ref) if x not in fields_of(got)])[:200] + " VS " + repr(sorted(os.listdir(outd)))[:300])
                    check(len(os.listdir(outd)) == len(ref), "sig split: one file per signature")
                    res = f"ok n={len(got)}"
                else:
                    raise KeyError
            elif op == "sniff":
                kind, hx, ex = a[0], a[1], int(a[2])
                assert hx.startswith("h")
                raw = bytes.fromhex(hx[1:])
                if kind == "str":
                    data = raw.decode("utf-8")
                elif kind == "bytes":
                    data = raw
                elif kind == "file":
                    data = io.BytesIO(raw)
                elif kind == "other":
                    data = 10 ** 9 if not ex else None
                else:
                    raise KeyError
                if ex and kind in ("str", "bytes"):
                    # the generator promises `ex` only for names that can be created
                    cwd = os.getcwd()
                    os.chdir(tmpdir(state))
                    try:
                        with open(data, "wb") as f:
                            f.write(b"x")
                        t = _detect_input_type(data)
                        os.remove(data)
                    finally:
                        os.chdir(cwd)
                elif kind == "other" and ex:
                    # an object without `find` for which os.path.exists answers True: an open fd number
                    fd = os.open(os.devnull, os.O_RDONLY)
                    try:
                        t = _detect_input_type(fd)
                    finally:
                        os.close(fd)
                else:
                    t = _detect_input_type(data)
                res = "ok " + {SigInput.FILE_LIKE: "FILE_LIKE", SigInput.PATH: "PATH", SigInput.BUFFER: "BUFFER",
                               SigInput.UNKNOWN: "UNKNOWN"}[t]
            else:
                res = "bad-op"
        except KeyError:
            res = "bad-op"
        except ViewError as e:
            res = "err ViewError " + str(e)[:300].replace("\n", " ")
        except BaseException as e:          # noqa: BLE001
            res = "err " + exc_name(e)
        out.write(res + "\n")
    out.flush()
    if state["tmpd"] is not None:
        shutil.rmtree(state["tmpd"], ignore_errors=True)


if __name__ == "__main__":
    main()
