"""Real-code adapter for the `twin` stream (C14): pipes the op lines through the out-of-tree Rust
harness (rust-harness/src/main.rs, module `twin`), which applies every op to a KmerMinHash and a
KmerMinHashBTree of /repo's working tree and prints both observations."""
import os
import subprocess
import sys

VERIF = os.path.dirname(os.path.dirname(os.path.dirname(os.path.abspath(__file__))))
BUILD = os.environ.get("VERIF_BUILD", os.path.join(VERIF, ".build"))


def main():
    exe = os.path.join(BUILD, "rh_target", "release", "smharness")
    if not os.path.exists(exe):
        sys.stderr.write("rust harness not built: run harness/rust_harness.py\n")
        sys.exit(2)
    r = subprocess.run([exe, "twin"], stdin=sys.stdin, stdout=sys.stdout)
    sys.exit(r.returncode)


if __name__ == "__main__":
    main()
