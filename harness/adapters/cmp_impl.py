"""Real-code adapter for the `cmp` stream (C05): builds pairs of sketches through the
public Python API of the package assembled from /repo's working tree and prints one
canonical observation per comparison op.

Floats are printed exactly, as `<odd mantissa>p<binary exponent>` (the text `F64.toStr`
produces on the Lean side); nothing is rounded or formatted through repr().

Periphery (the model sees none of this; a per-case counter, reset at `#`, drives it):
* ROUTES  - every modelled comparison is issued through alternating spellings that end in the
  same native call: positional / keyword / defaulted arguments, MinHash-level vs
  SourmashSignature-level wrapper, `jaccard()` vs `similarity(ignore_abundance=True)`,
  mutable / frozen / pickled / copied operands;
* VIEWS   - what can be read through two routes must agree: len() vs .hashes vs get_mins(),
  intersection_and_union_size vs count_common vs len(a & b) / len(a | b), is_compatible in both
  directions, the comparison dataclass' properties vs the MinHash-level values on its
  `mh1_cmp` / `mh2_cmp`, cosine_similarity vs angular_similarity;
* HISTORY - every read-only call is made twice and must answer the same; the operands must be
  unchanged afterwards; every comparison object a call returned is kept until the end of the
  case and its properties are re-read after later calls.
A disagreement is printed in place of the observation (`view-mismatch ..`, `unstable ..`,
`operand-changed ..`, `history-mismatch ..`), which the model never prints."""
import math
import pickle
import sys

from sourmash import MinHash, SourmashSignature
from sourmash._lowlevel import lib
from sourmash.sketchcomparison import FracMinHashComparison, NumMinHashComparison

from mh_impl import show, exc_name

NROUTE = [0]


class Mismatch(Exception):
    pass


def fcanon(x):
    """exact canonical text of a Python float"""
    if isinstance(x, int) and not isinstance(x, bool):
        x = float(x)
    if x != x:
        return "nan"
    if x in (float("inf"), float("-inf")):
        return "inf"
    if x == 0:
        return "0p0"
    if x < 0:
        return "neg"
    n, d = x.as_integer_ratio()
    if d == 1:
        e = 0
        while n % 2 == 0:
            n //= 2
            e += 1
        return f"{n}p{e}"
    return f"{n}p-{d.bit_length() - 1}"


def outcome(f):
    """('ok', value) | ('err', class name)"""
    try:
        return ("ok", f())
    except Mismatch:
        raise
    except BaseException as e:      # noqa: BLE001
        return ("err", exc_name(e))


def twice(f, what):
    """read-only entry points are called twice; both calls must answer the same"""
    r1 = outcome(f)
    r2 = outcome(f)
    if r1 != r2 and not (r1[0] == r2[0] == "ok" and r1[1] != r1[1] and r2[1] != r2[1]):
        raise Mismatch(f"unstable {what}: {r1} then {r2}")
    return r1


def txt(r):
    if r[0] == "err":
        return "E." + r[1]
    v = r[1]
    return fcanon(v) if isinstance(v, float) else str(v)


def line_of(r):
    if r[0] == "err":
        return "err " + r[1]
    v = r[1]
    if isinstance(v, tuple):
        return "ok " + " ".join(str(x) for x in v)
    return "ok " + (fcanon(v) if isinstance(v, float) else str(v))


def mk(num, scaled, track, ksize, seed, hf):
    kw = {}
    if hf == 2:
        kw["is_protein"] = True
    elif hf == 3:
        kw["dayhoff"] = True
    elif hf == 4:
        kw["hp"] = True
    return MinHash(num, ksize, track_abundance=bool(track), seed=seed, scaled=scaled, **kw)


def digest(mh):
    hs = mh.hashes
    return (mh.num, mh._max_hash, mh.ksize, mh.seed, mh.moltype, mh.track_abundance, tuple(hs.items()))


def views(mh):
    """the Python-side views of one sketch agree"""
    if len(mh) > 400:
        return
    hs = mh.hashes
    keys = list(hs.keys())
    if not (len(mh) == len(hs) == len(keys) == len(mh.get_mins())):
        raise Mismatch(f"view-mismatch len {len(mh)} {len(hs)} {len(mh.get_mins())}")
    if list(mh.get_mins()) != keys:
        raise Mismatch("view-mismatch get_mins vs hashes")
    if mh.track_abundance:
        if mh.get_mins(with_abundance=True) != dict(hs):
            raise Mismatch("view-mismatch get_mins(with_abundance) vs hashes")


def operand(mh, r):
    """the same sketch through different object routes"""
    k = r % 5
    if k == 1:
        return mh.to_frozen()
    if k == 2:
        return pickle.loads(pickle.dumps(mh))
    if k == 3:
        return mh.copy()
    if k == 4:
        return mh.to_frozen().to_mutable()
    return mh


def frac_fields(c):
    return (f"cs={c.cmp_scaled} n1={len(c.mh1_cmp)} n2={len(c.mh2_cmp)}"
            f" j={txt(outcome(lambda: c.jaccard))} an={txt(outcome(lambda: c.angular_similarity))}"
            f" c12={txt(outcome(lambda: c.mh1_containment_in_mh2))} c21={txt(outcome(lambda: c.mh2_containment_in_mh1))}"
            f" mx={txt(outcome(lambda: c.max_containment))} av={txt(outcome(lambda: c.avg_containment))}"
            f" ti={txt(outcome(lambda: c.total_unique_intersect_hashes))}")


def num_fields(c):
    return (f"cn={c.cmp_num} n1={len(c.mh1_cmp)} n2={len(c.mh2_cmp)}"
            f" j={txt(outcome(lambda: c.jaccard))} an={txt(outcome(lambda: c.angular_similarity))}")


def dataclass_views(c, frac):
    """the dataclass' properties EQUAL the MinHash-level values on the sketches it compares"""
    x, y = c.mh1_cmp, c.mh2_cmp
    pairs = [("jaccard", lambda: c.jaccard, lambda: x.jaccard(y)),
             ("angular", lambda: c.angular_similarity, lambda: x.angular_similarity(y)),
             ("cosine", lambda: c.cosine_similarity, lambda: c.angular_similarity)]
    if frac:
        pairs += [("c12", lambda: c.mh1_containment_in_mh2, lambda: x.contained_by(y)),
                  ("c21", lambda: c.mh2_containment_in_mh1, lambda: y.contained_by(x)),
                  ("max", lambda: c.max_containment, lambda: x.max_containment(y)),
                  ("avg", lambda: c.avg_containment, lambda: x.avg_containment(y)),
                  ("isect", lambda: len(c.intersect_mh), lambda: x.count_common(y)),
                  ("tuih", lambda: c.total_unique_intersect_hashes, lambda: x.count_common(y) * c.cmp_scaled),
                  ("pass", lambda: c.pass_threshold, lambda: x.count_common(y) * c.cmp_scaled >= c.threshold_bp)]
    for name, f, g in pairs:
        a, b = outcome(f), outcome(g)
        if a != b and not (a[0] == b[0] == "ok" and a[1] != a[1] and b[1] != b[1]):
            raise Mismatch(f"view-mismatch dataclass {name}: {a} vs {b}")
    if frac and c.ignore_abundance and (x.track_abundance or y.track_abundance):
        raise Mismatch("view-mismatch dataclass ignore_abundance kept abundances")
    if frac and (x.scaled != c.cmp_scaled or y.scaled != c.cmp_scaled):
        raise Mismatch(f"view-mismatch dataclass scaled {x.scaled} {y.scaled} vs cmp_scaled {c.cmp_scaled}")
    if not frac and (x.num != c.cmp_num or y.num != c.cmp_num):
        raise Mismatch(f"view-mismatch dataclass num {x.num} {y.num} vs cmp_num {c.cmp_num}")


def compare(op, a, x, y, r):
    """one modelled comparison through the route chosen by the counter; returns an outcome"""
    k = r % 4
    # signature-level operands: a fresh signature, a frozen copy of it, or a pickled one
    def sx(m):
        g = SourmashSignature(m)
        if r % 3 == 1:
            return g.to_frozen()
        if r % 3 == 2:
            return pickle.loads(pickle.dumps(g))
        return g
    if op == "cc":
        ds = bool(int(a[2]))
        if k == 0:
            return twice(lambda: x.count_common(y, ds), op)
        if k == 1:
            return twice(lambda: x.count_common(y, downsample=ds), op)
        if k == 2 and not ds:
            return twice(lambda: x.count_common(y), op)
        if k == 2:
            # the FFI entry point itself (flag plumbing)
            return twice(lambda: x._methodcall(lib.kmerminhash_count_common, y._get_objptr(), ds), op)
        return twice(lambda: x.count_common(other=y, downsample=ds), op)
    if op == "iu":
        return twice(lambda: tuple(x.intersection_and_union_size(y)), op)
    if op == "jac":
        ds = bool(int(a[2]))
        if k == 1:
            return twice(lambda: x.jaccard(y, ds), op)
        if k == 2 and x.num == y.num:
            return twice(lambda: x.similarity(y, ignore_abundance=True, downsample=ds), op)
        if k == 3 and x.num == y.num and not ds:
            return twice(lambda: sx(x).jaccard(sx(y)), op)
        return twice(lambda: x.jaccard(y, downsample=ds), op)
    if op in ("sim", "ssim"):
        ia, ds = bool(int(a[2])), bool(int(a[3]))
        if op == "ssim":
            if k % 2:
                return twice(lambda: sx(x).similarity(sx(y), ia, ds), op)
            return twice(lambda: sx(x).similarity(sx(y), ignore_abundance=ia, downsample=ds), op)
        if k == 0:
            return twice(lambda: x.similarity(y, ia, ds), op)
        if k == 1:
            return twice(lambda: x.similarity(y, downsample=ds, ignore_abundance=ia), op)
        if k == 2 and not ds:
            return twice(lambda: x.similarity(y, ia) if ia else x.similarity(y), op)
        if k == 2:
            return twice(lambda: x._methodcall(lib.kmerminhash_similarity, y._get_objptr(), ia, ds), op)
        return twice(lambda: x.similarity(y, ignore_abundance=ia, downsample=ds), op)
    if op == "sjac":
        if k == 2:
            # `kmerminhash_jaccard` is exported but not used by the Python layer: same quantity
            return twice(lambda: x._methodcall(lib.kmerminhash_jaccard, y._get_objptr()), op)
        return twice(lambda: sx(x).jaccard(sx(y)), op)
    if op == "ang":
        if k == 2 and x.track_abundance and y.track_abundance:
            return twice(lambda: x._methodcall(lib.kmerminhash_angular_similarity, y._get_objptr()), op)
        if k == 3 and x.track_abundance and y.track_abundance:
            return twice(lambda: x.similarity(y), op)           # both carry abundances: similarity IS the angular one
        return twice(lambda: x.angular_similarity(y), op)
    if op in ("cb", "scb", "mc", "smc", "ac", "sac"):
        ds = bool(int(a[2]))
        sig = op[0] == "s" or k == 3
        name = {"cb": "contained_by", "scb": "contained_by", "mc": "max_containment", "smc": "max_containment",
                "ac": "avg_containment", "sac": "avg_containment"}[op]
        if sig:
            f = getattr(sx(x), name)
            o = sx(y)
            if k % 2:
                return twice(lambda: f(o, ds), op)
            return twice(lambda: f(o, downsample=ds), op)
        f = getattr(x, name)
        if name == "avg_containment" or k == 1:          # MinHash.avg_containment: keyword-only
            return twice(lambda: f(y, downsample=ds), op)
        if k == 2 and not ds:
            return twice(lambda: f(y), op)
        return twice(lambda: f(y, ds), op)
    raise KeyError(op)


def cross_views(op, a, x, y, res):
    """agreement between entry points that must report the same quantity"""
    if op == "iu" and res[0] == "ok":
        c, u = res[1]
        if x.num == 0 and y.num == 0:
            cc = outcome(lambda: x.count_common(y))
            if cc != ("ok", c):
                raise Mismatch(f"view-mismatch iu common {c} vs count_common {cc}")
        if not x.track_abundance and not y.track_abundance and x.num == y.num and len(x) + len(y) <= 400:
            i = outcome(lambda: len(x & y))
            un = outcome(lambda: len(x | y))
            if i != ("ok", c) or un != ("ok", u):
                raise Mismatch(f"view-mismatch iu {(c, u)} vs len(a&b)={i} len(a|b)={un}")
    if op == "compat":
        if bool(x.is_compatible(y)) != bool(y.is_compatible(x)):
            raise Mismatch("view-mismatch is_compatible asymmetric")


def main():
    T = {}
    KEPT = []        # (kind, object, fields text at creation)
    out = sys.stdout
    for line in sys.stdin:
        w = line.split()
        if not w:
            out.write("bad-op\n")
            continue
        op = w[0]
        try:
            if op == "#":
                T = {}
                KEPT = []
                NROUTE[0] = 0
                out.write("#\n")
                continue
            a = w[1:]
            if op == "newm":
                r, num, scaled, track, ksize, seed, hf = map(int, a)
                if hf < 1 or hf > 4:
                    res = "bad-op"
                else:
                    T[r] = mk(num, scaled, track, ksize, seed, hf)
                    res = show(T[r])
            elif op == "new":
                r, num, scaled, track, ksize, seed = map(int, a)
                T[r] = mk(num, scaled, track, ksize, seed, 1)
                res = show(T[r])
            elif op == "addmany":
                h = int(a[0])
                T[h].add_many([int(x) for x in a[1:]])
                res = show(T[h])
            elif op == "addab":
                h, v, ab = map(int, a)
                T[h].add_hash_with_abundance(v, ab)
                res = show(T[h])
            elif op == "setab":
                h, clear = int(a[0]), bool(int(a[1]))
                vals = {}
                for p in a[2:]:
                    k, v = p.split(":")
                    vals[int(k)] = int(v)
                T[h].set_abundances(vals, clear=clear)
                res = show(T[h])
            elif op == "copy":
                r, h = map(int, a)
                T[r] = T[h].copy()
                res = show(T[r])
            elif op == "down":
                r, h, sc = map(int, a)
                T[r] = T[h].downsample(scaled=sc)
                res = show(T[r])
            elif op == "downnum":
                r, h, n = map(int, a)
                T[r] = T[h].downsample(num=n)
                res = show(T[r])
            elif op == "flat":
                r, h = map(int, a)
                T[r] = T[h].flatten()
                res = show(T[r])
            elif op == "show":
                res = show(T[int(a[0])])
            elif op == "fsqrt":
                # IEEE sqrt on the hardware (what f64::sqrt compiles to): validates the model's exact sqrt
                res = "ok " + fcanon(math.sqrt(float(int(a[0]))))
            elif op == "fcos":
                # the argument handed to acos, recomputed with hardware IEEE operations in the order the
                # Rust code uses: min(prod as f64 / (sqrt(a_sq as f64) * sqrt(b_sq as f64)), 1.)
                pp, aa, bb = (float(int(x)) for x in a)
                if aa == 0 or bb == 0:
                    res = "bad-op"
                else:
                    res = "ok " + fcanon(min(pp / (math.sqrt(aa) * math.sqrt(bb)), 1.0))
            else:
                # ---- read-only comparison ops: routes, views, histories -----------------------------
                NROUTE[0] += 1
                r = NROUTE[0]
                # earlier results are re-read after later calls
                for kind, c, was in KEPT:
                    now = frac_fields(c) if kind == "frac" else num_fields(c)
                    if now != was:
                        raise Mismatch(f"history-mismatch {kind}: was `{was}` now `{now}`")
                ha, hb = int(a[0]), int(a[1])
                A0, B0 = T[ha], T[hb]
                before = (digest(A0), digest(B0))
                views(A0)
                views(B0)
                # operands through alternating object routes (the same handle twice stays the same object)
                x = operand(A0, r)
                y = x if ha == hb else operand(B0, r // 5)
                if op == "compat":
                    rr = twice(lambda: int(bool(x.is_compatible(y))), op)
                    cross_views(op, a, x, y, rr)
                    res = line_of(rr)
                elif op in ("cc", "iu", "jac", "sim", "ssim", "sjac", "ang", "cb", "scb", "mc", "smc", "ac", "sac"):
                    # symmetric ops: the partner order is evaluated first on odd turns (order of calls must not matter)
                    if r % 2 and op in ("cc", "iu", "sim", "mc"):
                        outcome(lambda: compare(op, a, y, x, r))
                    rr = compare(op, a, x, y, r)
                    cross_views(op, a, x, y, rr)
                    res = line_of(rr)
                elif op in ("frac", "@frac"):
                    cs, ia = int(a[2]), bool(int(a[3]))
                    kw = {}
                    if cs or r % 2:
                        kw["cmp_scaled"] = cs or None
                    if ia or r % 3 == 0:
                        kw["ignore_abundance"] = ia
                    if op == "@frac":
                        kw["threshold_bp"] = int(a[4])
                    c = FracMinHashComparison(x, y, **kw)
                    dataclass_views(c, True)
                    fields = frac_fields(c)
                    if fields != frac_fields(c):
                        raise Mismatch("unstable frac properties")
                    KEPT.append(("frac", c, fields))
                    if op == "frac":
                        res = "ok " + fields
                    else:
                        # implementation-only observations (the model answers `skip`): intersect_mh, weighted_intersection
                        # (abundances from the ORIGINAL mh1), pass_threshold
                        im = c.intersect_mh
                        wi = c.weighted_intersection(from_mh=A0)
                        res = (f"ok cs={c.cmp_scaled} pt={int(bool(c.pass_threshold))} im={','.join(map(str, im.hashes))}"
                               f" imtr={int(im.track_abundance)} wi={','.join(f'{h}:{v}' for h, v in wi.hashes.items())}"
                               f" witr={int(wi.track_abundance)}")
                elif op == "numc":
                    cn, ia = int(a[2]), bool(int(a[3]))
                    kw = {}
                    if cn or r % 2:
                        kw["cmp_num"] = cn or None
                    if ia or r % 3 == 0:
                        kw["ignore_abundance"] = ia
                    c = NumMinHashComparison(x, y, **kw)
                    dataclass_views(c, False)
                    fields = num_fields(c)
                    KEPT.append(("num", c, fields))
                    res = "ok " + fields
                else:
                    res = "bad-op"
                if res != "bad-op":
                    if (digest(A0), digest(B0)) != before:
                        raise Mismatch(f"operand-changed by {op}")
        except KeyError:
            res = "bad-op"
        except Mismatch as e:
            res = str(e)
        except BaseException as e:          # noqa: BLE001
            res = "err " + exc_name(e)
        out.write(res + "\n")
    out.flush()


if __name__ == "__main__":
    main()
