"""Real-code adapter for the `cmp` stream (C05): builds pairs of sketches through the
public Python API of the package assembled from /repo's working tree and prints one
canonical observation per comparison op.

Floats are printed exactly, as `<odd mantissa>p<binary exponent>` (the text `F64.toStr`
produces on the Lean side); nothing is rounded or formatted through repr()."""
import math
import sys

from sourmash import MinHash, SourmashSignature
from sourmash.sketchcomparison import FracMinHashComparison, NumMinHashComparison

from mh_impl import show, exc_name


def fcanon(x):
    """exact canonical text of a Python float"""
    if isinstance(x, int) and not isinstance(x, bool):
        x = float(x)
    if x != x:
        return "nan"
    if x in (float("inf"), float("-inf")):
        return "inf"
    if x == 0:
        return "0p0"
    if x < 0:
        return "neg"
    n, d = x.as_integer_ratio()
    if d == 1:
        e = 0
        while n % 2 == 0:
            n //= 2
            e += 1
        return f"{n}p{e}"
    return f"{n}p-{d.bit_length() - 1}"


def fld(f):
    try:
        v = f()
    except BaseException as e:      # noqa: BLE001
        return "E." + exc_name(e)
    if isinstance(v, float):
        return fcanon(v)
    return str(v)


def mk(num, scaled, track, ksize, seed, hf):
    kw = {}
    if hf == 2:
        kw["is_protein"] = True
    elif hf == 3:
        kw["dayhoff"] = True
    elif hf == 4:
        kw["hp"] = True
    return MinHash(num, ksize, track_abundance=bool(track), seed=seed, scaled=scaled, **kw)


def main():
    T = {}
    out = sys.stdout
    for line in sys.stdin:
        w = line.split()
        if not w:
            out.write("bad-op\n")
            continue
        op = w[0]
        try:
            if op == "#":
                T = {}
                out.write("#\n")
                continue
            a = w[1:]
            if op == "newm":
                r, num, scaled, track, ksize, seed, hf = map(int, a)
                if hf < 1 or hf > 4:
                    res = "bad-op"
                else:
                    T[r] = mk(num, scaled, track, ksize, seed, hf)
                    res = show(T[r])
            elif op == "new":
                r, num, scaled, track, ksize, seed = map(int, a)
                T[r] = mk(num, scaled, track, ksize, seed, 1)
                res = show(T[r])
            elif op == "addmany":
                h = int(a[0])
                T[h].add_many([int(x) for x in a[1:]])
                res = show(T[h])
            elif op == "addab":
                h, v, ab = map(int, a)
                T[h].add_hash_with_abundance(v, ab)
                res = show(T[h])
            elif op == "setab":
                h, clear = int(a[0]), bool(int(a[1]))
                vals = {}
                for p in a[2:]:
                    k, v = p.split(":")
                    vals[int(k)] = int(v)
                T[h].set_abundances(vals, clear=clear)
                res = show(T[h])
            elif op == "copy":
                r, h = map(int, a)
                T[r] = T[h].copy()
                res = show(T[r])
            elif op == "down":
                r, h, sc = map(int, a)
                T[r] = T[h].downsample(scaled=sc)
                res = show(T[r])
            elif op == "downnum":
                r, h, n = map(int, a)
                T[r] = T[h].downsample(num=n)
                res = show(T[r])
            elif op == "flat":
                r, h = map(int, a)
                T[r] = T[h].flatten()
                res = show(T[r])
            elif op == "show":
                res = show(T[int(a[0])])
            elif op == "fsqrt":
                # IEEE sqrt on the hardware (what f64::sqrt compiles to): validates the model's exact sqrt
                res = "ok " + fcanon(math.sqrt(float(int(a[0]))))
            elif op == "fcos":
                # the argument handed to acos, recomputed with hardware IEEE operations in the order the
                # Rust code uses: min(prod as f64 / (sqrt(a_sq as f64) * sqrt(b_sq as f64)), 1.)
                pp, aa, bb = (float(int(x)) for x in a)
                if aa == 0 or bb == 0:
                    res = "bad-op"
                else:
                    res = "ok " + fcanon(min(pp / (math.sqrt(aa) * math.sqrt(bb)), 1.0))
            elif op == "compat":
                x, y = T[int(a[0])], T[int(a[1])]
                res = f"ok {int(bool(x.is_compatible(y)))}"
            elif op == "cc":
                x, y = T[int(a[0])], T[int(a[1])]
                res = f"ok {x.count_common(y, bool(int(a[2])))}"
            elif op == "iu":
                x, y = T[int(a[0])], T[int(a[1])]
                c, u = x.intersection_and_union_size(y)
                res = f"ok {c} {u}"
            elif op == "jac":
                x, y = T[int(a[0])], T[int(a[1])]
                res = "ok " + fcanon(x.jaccard(y, downsample=bool(int(a[2]))))
            elif op == "sim":
                x, y = T[int(a[0])], T[int(a[1])]
                res = "ok " + fcanon(x.similarity(y, ignore_abundance=bool(int(a[2])), downsample=bool(int(a[3]))))
            elif op == "ssim":
                x, y = SourmashSignature(T[int(a[0])]), SourmashSignature(T[int(a[1])])
                res = "ok " + fcanon(x.similarity(y, ignore_abundance=bool(int(a[2])), downsample=bool(int(a[3]))))
            elif op == "sjac":
                x, y = SourmashSignature(T[int(a[0])]), SourmashSignature(T[int(a[1])])
                res = "ok " + fcanon(x.jaccard(y))
            elif op == "ang":
                x, y = T[int(a[0])], T[int(a[1])]
                res = "ok " + fcanon(x.angular_similarity(y))
            elif op == "cb":
                x, y = T[int(a[0])], T[int(a[1])]
                res = "ok " + fcanon(x.contained_by(y, downsample=bool(int(a[2]))))
            elif op == "scb":
                x, y = SourmashSignature(T[int(a[0])]), SourmashSignature(T[int(a[1])])
                res = "ok " + fcanon(x.contained_by(y, downsample=bool(int(a[2]))))
            elif op == "mc":
                x, y = T[int(a[0])], T[int(a[1])]
                res = "ok " + fcanon(x.max_containment(y, downsample=bool(int(a[2]))))
            elif op == "ac":
                x, y = T[int(a[0])], T[int(a[1])]
                res = "ok " + fcanon(x.avg_containment(y, downsample=bool(int(a[2]))))
            elif op == "frac":
                x, y, cs, ia = T[int(a[0])], T[int(a[1])], int(a[2]), bool(int(a[3]))
                c = FracMinHashComparison(x, y, cmp_scaled=(cs or None), ignore_abundance=ia)
                res = (f"ok cs={c.cmp_scaled} n1={len(c.mh1_cmp)} n2={len(c.mh2_cmp)}"
                       f" j={fld(lambda: c.jaccard)} an={fld(lambda: c.angular_similarity)}"
                       f" c12={fld(lambda: c.mh1_containment_in_mh2)} c21={fld(lambda: c.mh2_containment_in_mh1)}"
                       f" mx={fld(lambda: c.max_containment)} av={fld(lambda: c.avg_containment)}"
                       f" ti={fld(lambda: c.total_unique_intersect_hashes)}")
            elif op == "numc":
                x, y, cn, ia = T[int(a[0])], T[int(a[1])], int(a[2]), bool(int(a[3]))
                c = NumMinHashComparison(x, y, cmp_num=(cn or None), ignore_abundance=ia)
                res = (f"ok cn={c.cmp_num} n1={len(c.mh1_cmp)} n2={len(c.mh2_cmp)}"
                       f" j={fld(lambda: c.jaccard)} an={fld(lambda: c.angular_similarity)}")
            else:
                res = "bad-op"
        except KeyError:
            res = "bad-op"
        except BaseException as e:          # noqa: BLE001
            res = "err " + exc_name(e)
        out.write(res + "\n")
    out.flush()


if __name__ == "__main__":
    main()
