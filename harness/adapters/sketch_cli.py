"""Thorough tier of C14: run `sourmash sketch dna|protein|translate` (the package assembled from
/repo's working tree, `python -m sourmash`) on temp FASTA files and compare what it writes with
`MinHash(...)` objects created directly from the job's structured specification and fed the same
records.  Input: a JSON file of jobs; output: one JSON line per job with a list of problems."""
import json
import os
import subprocess
import sys

import sourmash
from sourmash import MinHash, SourmashSignature


def direct(spec):
    k, mol, num, scaled, track, seed = spec.split(":")
    return MinHash(n=int(num), ksize=int(k), is_protein=(mol == "protein"), dayhoff=(mol == "dayhoff"),
                   hp=(mol == "hp"), track_abundance=bool(int(track)), seed=int(seed), scaled=int(scaled))


def feed(mh, recs, kind):
    for s in recs:
        if kind == "protein":
            mh.add_protein(s)
        else:
            mh.add_sequence(s, True)


def rec_of(mh, md5):
    hs = mh.hashes
    return {"ksize": mh.ksize, "moltype": mh.moltype, "num": mh.num, "scaled": mh.scaled, "seed": mh.seed,
            "track": bool(mh.track_abundance), "md5": md5,
            "hashes": sorted(hs.items()) if mh.track_abundance else sorted(hs)}


def read_fasta(path):
    names, seqs = [], []
    for line in open(path):
        line = line.rstrip("\n")
        if line.startswith(">"):
            names.append(line[1:])
            seqs.append("")
        elif names:
            seqs[-1] += line
    return names, seqs


def main():
    jobs = json.load(open(sys.argv[1]))
    for job in jobs:
        problems = []
        cmd = [sys.executable, "-m", "sourmash", "sketch", job["sub"]]
        if job["sub"] != "dna":
            if job["mol"] == "dayhoff":
                cmd.append("--dayhoff")
            elif job["mol"] == "hp":
                cmd.append("--hp")
        for s in job["strs"]:
            cmd += ["-p", s]
        cmd += job["files"] + ["-o", job["out"]]
        mode = job["mode"]
        if mode == "merge":
            cmd += ["--merge", "merged-name"]
        elif mode == "singleton":
            cmd.append("--singleton")
        elif mode == "name-from-first":
            cmd.append("--name-from-first")
        r = subprocess.run(cmd, stdout=subprocess.PIPE, stderr=subprocess.PIPE, text=True)
        if r.returncode != 0:
            problems.append(("command-failed", f"`{' '.join(cmd[2:])}` exited {r.returncode}: {r.stderr[-300:]}"))
            print(json.dumps({"j": job["j"], "problems": problems}))
            continue
        got = []
        for ss in sourmash.load_file_as_signatures(job["out"]):
            d = rec_of(ss.minhash, ss.md5sum())
            d["name"] = ss.name
            d["filename"] = ss.filename
            got.append(d)
        # what the documentation promises
        exp = []
        units = []          # (name, filename, records)
        if mode == "merge":
            allrecs = []
            for f in job["files"]:
                allrecs += read_fasta(f)[1]
            units.append(("merged-name", job["files"][-1], allrecs))
        else:
            for f in job["files"]:
                names, seqs = read_fasta(f)
                if mode == "singleton":
                    for n, s in zip(names, seqs):
                        units.append((n, f, [s]))
                elif mode == "name-from-first":
                    units.append((names[0], f, seqs))
                else:
                    units.append(("", f, seqs))
        for name, fn, recs in units:
            for spec in job["D"]:
                mh = direct(spec)
                feed(mh, recs, job["kind"])
                d = rec_of(mh, SourmashSignature(mh).md5sum())
                d["name"] = name
                d["filename"] = fn
                exp.append(d)
        if len(got) != len(exp):
            problems.append(("wrong-sketch-count", f"`{' '.join(cmd[3:])}` wrote {len(got)} sketches, the specification asks for {len(exp)}"))
        else:
            for i, (g, e) in enumerate(zip(got, exp)):
                for key in ("ksize", "moltype", "num", "scaled", "seed", "track", "name", "filename", "hashes", "md5"):
                    if g[key] != e[key]:
                        problems.append(("differs-from-direct:" + key,
                                         f"`{' '.join(cmd[3:])}`: sketch {i} has {key}={str(g[key])[:80]} but the sketch created "
                                         f"directly from the same parameters and records has {str(e[key])[:80]}"))
                        break
        print(json.dumps({"j": job["j"], "problems": problems}))


if __name__ == "__main__":
    main()
