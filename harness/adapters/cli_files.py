"""Write the signatures / collections of a case to files (run under /venv/bin/python with the package
built from /repo's working tree on PYTHONPATH).  usage: cli_files.py <spec.json>
spec = {"dir": ..., "sigs": {slot: {"name", "scaled", "track", "pairs": [[h, a], ...]}},
        "files": [{"path": ..., "kind": "sig|zip|sbt|lca|sql", "sigs": [slots]}]}"""
import json
import os
import sys

from sourmash import MinHash, SourmashSignature
from sourmash.sourmash_args import SaveSignaturesToLocation


def main():
    spec = json.load(open(sys.argv[1]))
    S = {}
    for slot, d in spec["sigs"].items():
        mh = MinHash(0, 21, scaled=d["scaled"], track_abundance=bool(d["track"]), seed=42)
        if d["track"]:
            mh.set_abundances({int(h): int(a) for h, a in d["pairs"]})
        else:
            mh.add_many([int(h) for h, _ in d["pairs"]])
        S[int(slot)] = SourmashSignature(mh, name=str(d["name"]))
    for f in spec["files"]:
        p = os.path.join(spec["dir"], f["path"])
        sigs = [S[int(x)] for x in f["sigs"]]
        kind = f["kind"]
        if kind in ("sig", "zip"):
            with SaveSignaturesToLocation(p) as sv:
                for x in sigs:
                    sv.add(x)
        elif kind == "sbt":
            from sourmash.sbtmh import create_sbt_index
            t = create_sbt_index()
            for x in sigs:
                t.insert(x)
            t.save(p)
        elif kind == "lca":
            from sourmash.lca import LCA_Database
            db = LCA_Database(21, sigs[0].minhash.scaled, "DNA")
            for x in sigs:
                db.insert(x)
            db.save(p)
        elif kind == "sql":
            from sourmash.index.sqlite_index import SqliteIndex
            db = SqliteIndex.create(p)
            for x in sigs:
                db.insert(x)
            db.commit()
            db.close()
        else:
            raise SystemExit("unknown kind " + kind)
    print("ok")


if __name__ == "__main__":
    main()
