"""Write the signatures / collections of a case to files (run under /venv/bin/python with the package
built from /repo's working tree on PYTHONPATH).  usage: cli_files.py <spec.json>
spec = {"dir": ..., "sigs": {slot: {"name", "scaled", "track", "pairs": [[h, a], ...]}},
        "files": [{"path": ..., "kind": "sig|zip|zipnm|dir|sbt|lca|sql|pl|mf|multi", "sigs": [slots]}]}

kinds: sig = one JSON file; zip = zip collection; zipnm = a hand-made zip of signature files without a manifest; dir = a directory of one-signature files; sbt / lca / sql =
indexed databases; pl = a pathlist naming a zip collection and a JSON file (a MultiIndex of collections of different kinds);
mf = a standalone manifest CSV over one-signature files; multi = a directory tree of multi-signature JSON files.
Also imported by cli_server.py (the in-process command-line runner of the quick tiers)."""
import json
import os
import sys

from sourmash import MinHash, SourmashSignature
from sourmash.sourmash_args import SaveSignaturesToLocation


def make_sigs(spec):
    S = {}
    for slot, d in spec["sigs"].items():
        mh = MinHash(0, 21, scaled=d["scaled"], track_abundance=bool(d["track"]), seed=42)
        if d["track"]:
            mh.set_abundances({int(h): int(a) for h, a in d["pairs"]})
        else:
            mh.add_many([int(h) for h, _ in d["pairs"]])
        S[int(slot)] = SourmashSignature(mh, name=str(d["name"]))
    return S


def _save(p, sigs):
    with SaveSignaturesToLocation(p) as sv:
        for x in sigs:
            sv.add(x)


def _one_per_file(d, sigs):
    os.makedirs(d, exist_ok=True)
    files = []
    for k, x in enumerate(sigs):
        f = os.path.join(d, f"{k:03d}.sig")
        _save(f, [x])
        files.append(f)
    return files


def write_file(p, kind, sigs):
    if kind in ("sig", "zip"):
        _save(p, sigs)
    elif kind == "zipnm":
        # a zip archive of signature files made by hand: no SOURMASH-MANIFEST.csv inside
        import io
        import zipfile
        from sourmash import save_signatures_to_json
        with zipfile.ZipFile(p, "w") as z:
            for k, x in enumerate(sigs):
                fp = io.StringIO()
                save_signatures_to_json([x], fp)
                z.writestr(f"sigs/{k:03d}.sig", fp.getvalue())
    elif kind == "dir":
        _one_per_file(p, sigs)
    elif kind == "multi":
        # a directory tree of multi-signature JSON files (loaded as one MultiIndex)
        os.makedirs(os.path.join(p, "sub"), exist_ok=True)
        h = (len(sigs) + 1) // 2
        _save(os.path.join(p, "a.sig"), sigs[:h])
        if sigs[h:]:
            _save(os.path.join(p, "sub", "b.sig"), sigs[h:])
    elif kind == "pl":
        # a pathlist naming collections of different kinds: a zip, a JSON file (MultiIndex of them)
        os.makedirs(p + ".d", exist_ok=True)
        h = (len(sigs) + 1) // 2
        files = [os.path.join(p + ".d", "a.zip")]
        _save(files[0], sigs[:h])
        if sigs[h:]:
            files.append(os.path.join(p + ".d", "b.sig"))
            _save(files[1], sigs[h:])
        with open(p, "w") as fp:
            fp.write("\n".join(files) + "\n")
    elif kind == "mf":
        from sourmash.manifest import CollectionManifest
        files = _one_per_file(p + ".d", sigs)
        m = CollectionManifest.create_manifest(((x, f) for x, f in zip(sigs, files)), include_signature=False)
        with open(p, "w", newline="") as fp:
            m.write_to_csv(fp, write_header=True)
    elif kind == "sbt":
        from sourmash.sbtmh import create_sbt_index
        t = create_sbt_index()
        for x in sigs:
            t.insert(x)
        t.save(p)
    elif kind == "lca":
        from sourmash.lca import LCA_Database
        db = LCA_Database(21, sigs[0].minhash.scaled, "DNA")
        for x in sigs:
            db.insert(x)
        db.save(p)
    elif kind == "sql":
        from sourmash.index.sqlite_index import SqliteIndex
        db = SqliteIndex.create(p)
        for x in sigs:
            db.insert(x)
        db.commit()
        db.close()
    else:
        raise ValueError("unknown kind " + kind)


def distractors(tag):
    """signatures a command run for a k=21 scaled query must ignore: another ksize, a num sketch"""
    a = MinHash(0, 31, scaled=1, seed=42)
    a.add_many([11, 22, 33, 44])
    b = MinHash(5, 21, seed=42)
    b.add_many([1, 2, 3, 4, 5, 6, 7])
    return [SourmashSignature(a, name=f"distractor-k31-{tag}"), SourmashSignature(b, name=f"distractor-num-{tag}")]


def write_spec(spec):
    S = make_sigs(spec)
    for n, f in enumerate(spec["files"]):
        sigs = [S[int(x)] for x in f["sigs"]]
        if spec.get("distract") and f["kind"] in ("sig", "zip", "zipnm", "dir", "multi", "pl", "mf"):
            d = distractors(n)
            sigs = ([d[0]] + sigs + [d[1]]) if f["path"] != "query.sig" else (sigs + [d[0]])
        write_file(os.path.join(spec["dir"], f["path"]), f["kind"], sigs)


def main():
    write_spec(json.load(open(sys.argv[1])))
    print("ok")


if __name__ == "__main__":
    main()
