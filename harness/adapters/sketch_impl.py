"""Real-code adapter for the `sketch` stream (C14): parameter strings through
`_parse_params_str`, `_signatures_for_sketch_factory`, `ComputeParameters`,
`SourmashSignature.from_params` (Rust `build_template`: tree-backed sketches), sequences through
`add_sequence` / `add_protein`, observation through both exits of a tree-backed sketch
(`sig.minhash` = `signature_first_mh` -> `From<&KmerMinHashBTree>`, and the JSON writer = BTree
`Serialize`), next to `MinHash(...)` objects created directly and fed the same sequences."""
import hashlib
import io
import json
import sys
import contextlib

import sourmash
from sourmash import MinHash, SourmashSignature
from sourmash.command_sketch import _parse_params_str, _signatures_for_sketch_factory
from sourmash.command_sketch import ComputeParameters     # the copy the sketch factory uses
from sourmash import signature as sigmod
from sourmash._lowlevel import lib

HF = {"DNA": 1, "protein": 2, "dayhoff": 3, "hp": 4}


class ViewError(Exception):
    """two routes to the same fact about one object disagree, or an object handed out earlier changed"""


# ROUTES: wherever sourmash offers several spellings that end in the same helper / native call the adapter
# alternates among them; the model never sees which.  The choice is a function of the op's text and of a counter
# inside the op (so a shrunk case replays the same routes) plus the per-case op counter parity.
_RS = [0]
CASE_OPS = [0]


def route_seed(line):
    import zlib
    _RS[0] = zlib.crc32(line.encode()) & 0x7FFFFFFF


def pick(n):
    _RS[0] = (_RS[0] * 1103515245 + 12345) & 0x7FFFFFFF
    return (_RS[0] >> 16) % n


# HISTORIES: every object a call returned is kept, uncopied, until the end of the case together with the
# observation made when it was returned; after every later op the observation is made again.
KEPT = []


def keep(what, thunk, seen=None):
    KEPT.append((what, thunk, thunk() if seen is None else seen))
    if len(KEPT) > 40:
        del KEPT[0:len(KEPT) - 40]


def reverify():
    for what, thunk, seen in KEPT:
        now = thunk()
        if now != seen:
            raise ViewError(f"history: {what} was {str(seen)[:120]} when returned and is {str(now)[:120]} after later calls")


def sig_view(sig):
    """everything readable about a signature object, through the JSON writer"""
    return sigmod.save_signatures_to_json([sig])


def unhex(tok):
    return "" if tok == "-" else bytes.fromhex(tok).decode("latin-1")


def exc_name(e):
    import argparse
    if isinstance(e, argparse.ArgumentTypeError):
        return "ArgumentTypeError"
    for cls in (OverflowError, ValueError, TypeError, RuntimeError, AssertionError, KeyError):
        if isinstance(e, cls):
            return cls.__name__
    return type(e).__name__


def reason_of(e):
    """the refusal reason, read off the exception class and message (one code per `raise` site)"""
    import argparse
    m = str(e)
    if isinstance(e, argparse.ArgumentTypeError):
        return "numNegative" if "num value" in m else "scaledNegative" if "scaled value" in m else "?"
    if isinstance(e, OverflowError):
        return "overflow"
    if isinstance(e, ValueError):
        table = [("k takes a parameter", "kNoParam"), ("num takes a parameter", "numNoParam"),
                 ("scaled takes a parameter", "scaledNoParam"), ("seed takes a parameter", "seedNoParam"),
                 ("cannot set both num and scaled", "bothNumScaled"), ("cannot parse num=", "numNotInt"),
                 ("cannot parse scaled=", "scaledNotInt"), ("unknown component", "unknownItem"),
                 ("invalid literal for int()", "notInt"), ("Incompatible sketch type (dna)", "moltypeUnderDna"),
                 ("Incompatible sketch type (", "dnaUnderProtein"), ("No default moltype", "noMoltype"),
                 ("must set either num or scaled", "zeroSize")]
        for pre, code in table:
            if m.startswith(pre):
                return code
    return "?"


def sketches_of(sig):
    """every sketch of a signature, through the JSON writers (BTree Serialize: `signatures_save_buffer` plain and
    gzip, `signature_save_json`) and the reader; the views of one object must agree"""
    import gzip
    from sourmash.utils import rustcall, decode_str
    order = pick(2)
    first = sig.minhash if order == 0 and len(sig) > 0 else None
    js = sigmod.save_signatures_to_json([sig])
    recs = json.loads(js)
    if len(recs) != 1:
        raise ViewError(f"one signature was written as {len(recs)} records")
    route = pick(3)
    if route == 1:
        js2 = gzip.decompress(sigmod.save_signatures_to_json([sig], compression=1 + pick(9)))
        if json.loads(js2) != recs:
            raise ViewError("the gzip writer and the plain writer of signatures_save_buffer disagree")
    elif route == 2:
        one = json.loads(decode_str(rustcall(lib.signature_save_json, sig._get_objptr())))
        if one != recs[0]:
            raise ViewError("signature_save_json and signatures_save_buffer disagree")
    if len(sig) != len(recs[0]["signatures"]):
        raise ViewError(f"len(sig) = {len(sig)} but {len(recs[0]['signatures'])} sketches are written")
    if recs[0].get("license") != "CC0" or sig.license != "CC0":
        raise ViewError(f"license written {recs[0].get('license')!r}, attribute {sig.license!r}")
    if (recs[0].get("name") or "") != sig.name or (recs[0].get("filename") or "") != sig.filename:
        raise ViewError(f"name/filename written ({recs[0].get('name')!r}, {recs[0].get('filename')!r}) "
                        f"!= attributes ({sig.name!r}, {sig.filename!r})")
    written = [sk["md5sum"] for rec in recs for sk in rec["signatures"]]     # BTree md5sum(), as written
    loaded = list(sigmod.load_signatures_from_json(js))
    recomputed = [x.md5sum() for x in loaded]          # the reader does not trust the file: recomputed from the hashes
    if written != recomputed:
        raise ViewError(f"md5 written by the tree-backed sketch {written} != md5 of the hashes read back {recomputed}")
    for x, sk in zip(loaded, recs[0]["signatures"]):
        mh = x.minhash
        if not (len(mh) == len(sk["mins"]) == len(mh.hashes) == len(list(mh.hashes))):
            raise ViewError(f"len {len(mh)} / written mins {len(sk['mins'])} / hashes {len(mh.hashes)} disagree")
        if ("abundances" in sk) != bool(mh.track_abundance):
            raise ViewError("abundances written for a flat sketch or missing for a weighted one")
        if SourmashSignature(mh).md5sum() != x.md5sum() or x.md5sum() != x.md5sum():
            raise ViewError("md5sum of the signature and of its sketch disagree")
    if len(sig) > 0:
        m1 = sig.minhash if first is None else first
        if SourmashSignature(m1).md5sum() != written[0] or sorted(m1.hashes.items()) != sorted(loaded[0].minhash.hashes.items()):
            raise ViewError("sig.minhash (signature_first_mh) and the written first sketch disagree")
    return [x.minhash for x in loaded], written


def params_rec(mh):
    k = mh._methodcall(lib.kmerminhash_ksize)        # internal k (x3 for the protein alphabets)
    return f"{k}:{HF[mh.moltype]}:{mh.num}:{mh._max_hash}:{mh.seed}:{int(mh.track_abundance)}"


def content_rec(mh, md5):
    hs = mh.hashes
    keys = sorted(hs)
    if mh.track_abundance:
        body = ",".join(f"{k}={hs[k]}" for k in keys)
    else:
        body = ",".join(str(k) for k in keys)
    return f"{params_rec(mh)}:{len(keys)}:{md5}:{hashlib.md5(body.encode()).hexdigest()[:12]}"


def mol_arg(tok):
    return None if tok == "-" else tok


def add_all(objs, seqs, input_kind, force):
    """record-major, every sketch object in order; the first exception aborts (the command exits), so what the
    objects hold afterwards is not observable.  Routes: the methods themselves, `add_seq` of command_sketch
    (what `sketch` runs) and `add_seq` of command_compute (what `compute` runs)."""
    from sourmash import command_sketch, command_compute
    for s in seqs:
        r = pick(3)
        if r == 0:
            for obj in objs:
                if input_kind == "protein":
                    obj.add_protein(s)
                else:
                    obj.add_sequence(s, force)
        else:
            (command_sketch if r == 1 else command_compute).add_seq(objs, s, input_kind == "protein", not force)


_NATIVE = None


def native(line):
    """`native` ops go to the Rust harness (module `sketch`): the same ComputeParameters / from_params /
    add_sequence path, without Python in between"""
    global _NATIVE
    import os, subprocess
    if _NATIVE is None:
        build = os.environ.get("VERIF_BUILD") or os.path.join(os.path.dirname(os.path.dirname(
            os.path.dirname(os.path.abspath(__file__)))), ".build")
        exe = os.path.join(build, "rh_target", "release", "smharness")
        _NATIVE = subprocess.Popen([exe, "sketch"], stdin=subprocess.PIPE, stdout=subprocess.PIPE, text=True, bufsize=1)
    _NATIVE.stdin.write(line.rstrip("\n") + "\n")
    _NATIVE.stdin.flush()
    return _NATIVE.stdout.readline().rstrip("\n")


def hexs(t):
    return t.encode("latin-1").hex() if t else "-"


def run_names(w):
    """names <file|first|singleton|merge:NAMEHEX>[+dir|+newdir|+cwd][+rand][+check] <k> F <fnamehex> <namehex>:<seqhex>.. F ..
    the real `_execute_sketch` (-> _compute_individual / _compute_merged) on FASTA files written to a
    temp dir under .build/tmp; what it wrote where: path|name|filename|md5 per signature, sorted by path"""
    import argparse, os, shutil, tempfile
    from sourmash.command_sketch import _execute_sketch
    from sourmash import command_sketch
    mflags = w[1].split("+")
    mode, flags = mflags[0], mflags[1:]
    k = int(w[2])
    files, cur = [], None
    for t in w[3:]:
        if t == "F":
            cur = None
        elif cur is None:
            cur = (unhex(t), [])
            files.append(cur)
        else:
            n, q = t.split(":")
            cur[1].append((unhex(n), unhex(q)))
    base = os.path.join(os.environ.get("VERIF_BUILD") or os.path.join(os.path.dirname(os.path.dirname(
        os.path.dirname(os.path.abspath(__file__)))), ".build"), "tmp")
    os.makedirs(base, exist_ok=True)
    tmp = tempfile.mkdtemp(prefix="c14names", dir=base)
    old = os.getcwd()
    try:
        os.chdir(tmp)
        for fname, recs in files:
            write_input(fname, recs)
        if "dir" in flags:
            os.mkdir("outd")
        preexisting(flags, files)
        inputs = set(f for f, _ in files)
        merge = unhex(mode.split(":")[1]) if mode.startswith("merge:") else ""
        single = not any(f in flags for f in ("dir", "newdir", "cwd"))
        args = argparse.Namespace(filenames=[f for f, _ in files], output="out.sig" if single else None,
                                  output_dir="outd" if ("dir" in flags or "newdir" in flags) else None, merge=merge,
                                  singleton=(mode == "singleton"), name_from_first=(mode == "first"),
                                  input_is_protein=False, check_sequence=("check" in flags),
                                  license=LIC_POOL[pick(len(LIC_POOL))] if "lic" in flags else "CC0", force=("force" in flags),
                                  quiet=True, randomize=("rand" in flags), from_file=None)
        # --randomize is accepted by `sketch dna|protein|translate` but only `compute` acts on it: _execute_sketch
        # ignores the flag, the order of the inputs is kept
        route = pick(3)
        try:
            if route == 0:
                _execute_sketch(args, _signatures_for_sketch_factory([f"k={k},scaled=1"], "dna"))
            elif route == 1:
                args.param_string = [f"k={k},scaled=1"]
                command_sketch.dna(args)
            else:
                from sourmash.__main__ import main as sm_main
                argv = ["sketch", ["dna", "rna"][pick(2)], "-p", f"scaled=1,k={k}"]
                argv += ["-o", "out.sig"] if single else (["--output-dir", args.output_dir] if args.output_dir else [])
                argv += (["--merge", merge] if merge else []) + (["--singleton"] if args.singleton else [])
                argv += (["--name-from-first"] if args.name_from_first else []) + (["--check-sequence"] if args.check_sequence else [])
                argv += (["--license", args.license] if "lic" in flags else []) + (["-f"] if args.force else [])
                argv += (["--randomize"] if args.randomize else []) + args.filenames
                sm_main(argv)
        except SystemExit as e:
            if e.code not in (None, 0):
                return "err SystemExit"
        got = []
        for pth in sorted(output_files(inputs)):
            for ss in file_views(pth):
                got.append(f"{hexs(pth)}|{hexs(ss.name)}|{hexs(ss.filename)}|{ss.md5sum()}")
                keep(f"signature loaded from {pth}", (lambda ss=ss: rec_of(ss)))
        return "ok " + ";".join(got)
    finally:
        os.chdir(old)
        shutil.rmtree(tmp, ignore_errors=True)


MARKER = "[]\n"
LIC_POOL = ["cc0", "GPL", "Cc0", "", "CC0 ", "CC-0", "cc0", "MIT"]          # anything but exactly CC0 is refused


def preexisting(flags, files):
    """`+pre`: the output file of the FIRST input exists before the command runs (per-file layouts only)"""
    import os
    if "pre" in flags and files and ("dir" in flags or "cwd" in flags):
        pth = os.path.basename(files[0][0]) + ".sig"
        if "dir" in flags:
            pth = os.path.join("outd", pth)
        with open(pth, "w") as fh:
            fh.write(MARKER)


def output_files(inputs):
    """the .sig files under the working directory that the command wrote (a pre-existing marker left alone is not one)"""
    import os
    outs = []
    for d, _, fs in os.walk("."):
        for f in fs:
            pth = os.path.normpath(os.path.join(d, f))
            if pth.endswith(".sig") and pth not in inputs and not pth.startswith("alt"):
                if open(pth, "rb").read() == MARKER.encode():
                    continue
                outs.append(pth)
    return outs


def write_input(fname, recs):
    """one input file; the container alternates (screed sniffs the content, not the file name): FASTA, FASTA
    with wrapped sequence lines, FASTQ, and gzip of either - the records are the same"""
    import gzip, os
    if os.path.dirname(fname):
        os.makedirs(os.path.dirname(fname), exist_ok=True)
    plain = any((not n) or (not q) for n, q in recs) or not recs
    fmt = 0 if plain else pick(6)
    if fmt in (2, 5):
        text = "".join(f"@{n}\n{q}\n+\n{'I' * len(q)}\n" for n, q in recs)
    elif fmt in (1, 4):
        w = 1 + pick(9)
        text = "".join(f">{n}\n" + "".join(q[i:i + w] + "\n" for i in range(0, len(q), w)) for n, q in recs)
    else:
        text = "".join(f">{n}\n{q}\n" for n, q in recs)
    if fmt >= 3:
        with gzip.open(fname, "wt", newline="") as fh:
            fh.write(text)
    else:
        with open(fname, "w", newline="") as fh:
            fh.write(text)
    return text


def _parse_files(toks):
    files, cur = [], None
    for t in toks:
        if t == "F":
            cur = None
        elif cur is None:
            cur = (unhex(t), [])
            files.append(cur)
        else:
            n, q = t.split(":")
            cur[1].append((unhex(n), unhex(q)))
    return files


def _tmpdir(prefix):
    import os, tempfile
    base = os.path.join(os.environ.get("VERIF_BUILD") or os.path.join(os.path.dirname(os.path.dirname(
        os.path.dirname(os.path.abspath(__file__)))), ".build"), "tmp")
    os.makedirs(base, exist_ok=True)
    return tempfile.mkdtemp(prefix=prefix, dir=base)


def _cli(argv, stdin_data=None):
    """the command line: sourmash.__main__.main(argv) in this process; with an input read from standard input
    (`-`) a child interpreter, since this process's stdin carries the ops.  None on success or the error token"""
    if stdin_data is not None:
        import os, re, subprocess
        env = dict(os.environ, PYTHONPATH=os.pathsep.join(x for x in sys.path if x))
        r = subprocess.run([sys.executable, "-m", "sourmash"] + argv, input=stdin_data.encode("latin-1"),
                           stdout=subprocess.PIPE, stderr=subprocess.PIPE, env=env)
        if r.returncode == 0:
            return None
        err = r.stderr.decode("latin-1", "replace")
        if "Traceback (most recent call last)" in err:
            last = [l for l in err.strip().splitlines() if l.strip()][-1]
            m = re.match(r"([A-Za-z_.]+)", last)
            return "err " + (m.group(1).split(".")[-1] if m else "?")
        return "err SystemExit"
    import sourmash.__main__
    try:
        with contextlib.redirect_stdout(io.StringIO()):
            sourmash.__main__.main(argv)
    except SystemExit as e:
        if e.code in (None, 0):
            return None
        return "err SystemExit"
    return None


def file_views(pth):
    """a written .sig / .sig.gz file read as text next to the loaded objects: the md5sum FIELD the command wrote
    must be the md5sum() of the loaded signature, the license CC0, name / filename / sizes the attributes"""
    import gzip
    raw = open(pth, "rb").read()
    if raw[:2] == b"\x1f\x8b":
        raw = gzip.decompress(raw)
    recs = json.loads(raw)
    loaded = list(sourmash.load_file_as_signatures(pth))
    flat = [(rec, sk) for rec in recs for sk in rec["signatures"]]
    if len(flat) != len(loaded):
        raise ViewError(f"{pth}: {len(flat)} sketches written, {len(loaded)} signatures loaded")
    for (rec, sk), ss in zip(flat, loaded):
        mh = ss.minhash
        if sk["md5sum"] != ss.md5sum() or SourmashSignature(mh).md5sum() != sk["md5sum"]:
            raise ViewError(f"{pth}: md5sum field {sk['md5sum']} but the loaded signature has {ss.md5sum()}")
        if rec.get("license") != "CC0" or ss.license != "CC0":
            raise ViewError(f"{pth}: license {rec.get('license')!r}")
        if (rec.get("name") or "") != ss.name or (rec.get("filename") or "") != ss.filename:
            raise ViewError(f"{pth}: name/filename fields differ from the attributes")
        if not (len(sk["mins"]) == len(mh) == len(mh.hashes)) or sk["mins"] != sorted(mh.hashes):
            raise ViewError(f"{pth}: mins written / len / hashes disagree")
        if sk["ksize"] != mh._methodcall(lib.kmerminhash_ksize) or sk["seed"] != mh.seed or sk["num"] != mh.num or sk["max_hash"] != mh._max_hash:
            raise ViewError(f"{pth}: parameters written differ from the loaded sketch")
        if ("abundances" in sk) != bool(mh.track_abundance):
            raise ViewError(f"{pth}: abundances field vs track_abundance")
        if mh.track_abundance and sk["abundances"] != [mh.hashes[h] for h in sk["mins"]]:
            raise ViewError(f"{pth}: abundances written differ from the loaded ones")
    return loaded


def rec_of(ss, pth=None):
    body = f"{hexs(ss.name)}|{hexs(ss.filename)}|{params_rec(ss.minhash)}|{ss.md5sum()}"
    return body if pth is None else f"{hexs(pth)}|{body}"


def _collect(inputs):
    got = []
    for pth in sorted(output_files(inputs)):
        for ss in file_views(pth):
            got.append(rec_of(ss, pth))
            keep(f"signature loaded from {pth}", (lambda ss=ss: rec_of(ss)))
    return "ok " + ";".join(got)


def other_formats(argv, stdin_data, canonical):
    """`-o` routes: the same command once more into .sig.gz / .zip / a directory / .sqldb; what is written must
    reload to the sketches the .sig route wrote (exact duplicates collapse in a zip: known finding C10.1; an
    SqliteIndex refuses num sketches), and a zip's manifest rows must describe the signatures they point to"""
    import os
    if "-o" not in argv or stdin_data is not None:
        return
    want = sorted(x.split("|", 1)[1] for x in canonical[3:].split(";") if x)
    alt = ["alt.sig.gz", "alt.zip", "altdir/", "alt.sqldb", "alt2.sig"][pick(5)]
    a2 = list(argv)
    a2[a2.index("-o") + 1] = alt
    try:
        e = _cli(a2)
    except Exception as exc:                    # noqa: BLE001
        e = f"err {exc_name(exc)}: {exc}"
    if e is not None:
        if alt == "alt.sqldb" and (e.startswith("err ValueError") or "SQLite INTEGER" in e):
            return       # an SqliteIndex refuses (ValueError) num sketches, sketches with abundance and a second
                         # scaled value, and dies (OverflowError) on a seed >= 2^63: limits of that container
        raise ViewError(f"-o {alt}: {e} where -o out.sig succeeded")
    if not os.path.exists(alt.rstrip("/")):
        if want:
            raise ViewError(f"-o {alt}: nothing written, -o out.sig wrote {len(want)} sketches")
        return
    if alt.endswith(".sig.gz") or alt.endswith(".sig"):
        got = sorted(rec_of(x) for x in file_views(alt))
    else:
        got = sorted(rec_of(x) for x in sourmash.load_file_as_signatures(alt))
    if alt == "alt.zip":
        if set(got) != set(want) or len(got) > len(want):
            raise ViewError(f"-o {alt} reloads to {got[:4]}.. ({len(got)}), -o out.sig wrote {want[:4]}.. ({len(want)})")
        idx = sourmash.load_file_as_index(alt)
        rows = sorted((r["name"] or "", r["filename"] or "", r["md5"], int(r["ksize"]), r["moltype"], int(r["num"]),
                       int(r["scaled"]), int(r["n_hashes"]), bool(r["with_abundance"])) for r in idx.manifest.rows)
        sigs = sorted((x.name, x.filename, x.md5sum(), x.minhash.ksize, x.minhash.moltype, x.minhash.num,
                       x.minhash.scaled, len(x.minhash), bool(x.minhash.track_abundance))
                      for x in sourmash.load_file_as_signatures("out.sig"))
        if rows != sigs:
            raise ViewError(f"zip manifest rows {rows[:3]}.. do not describe the signatures written {sigs[:3]}..")
    elif got != want:
        raise ViewError(f"-o {alt} reloads to {got[:4]}.. ({len(got)}), -o out.sig wrote {want[:4]}.. ({len(want)})")


def _mode_argv(mode, flags, files):
    """the file-handling options of sketch / compute for a mode+flags token; writes the inputs; an input
    named `-` is standard input.  Returns (argv, stdin text or None)"""
    import os
    argv = []
    stdin_data = None
    for fname, recs in files:
        if fname == "-":
            stdin_data = "".join(f">{n}\n{q}\n" for n, q in recs)
        else:
            write_input(fname, recs)
    if "dir" in flags:
        os.mkdir("outd")
    preexisting(flags, files)
    if "force" in flags:
        argv.append(["-f", "--force"][pick(2)])
    if "dir" in flags or "newdir" in flags:
        argv += ["--output-dir" if pick(2) else "--outdir", "outd"]
    elif "cwd" not in flags:
        argv += ["-o", "out.sig"]
    if mode.startswith("merge:"):
        argv += [["--merge", "--name"][pick(2)], unhex(mode.split(":")[1])]
    elif mode == "singleton":
        argv.append("--singleton")
    elif mode == "first":
        argv.append("--name-from-first")
    if "rand" in flags:
        argv.append("--randomize")
    if "check" in flags:
        argv.append("--check-sequence")
    if "lic" in flags:
        argv += ["--license", LIC_POOL[pick(len(LIC_POOL))]]
    elif pick(4) == 0:
        argv += ["--license", "CC0"]
    names = [f for f, _ in files]
    if "fromfile" in flags:
        with open("inputs.txt", "w") as fh:
            fh.write("\n".join(names) + "\n")
        argv += ["--from-file", "inputs.txt"]
    else:
        argv += names
    return argv, stdin_data


DNA_ALIASES = ("dna", "rna", "nucleotide", "nt")


def run_sk(w):
    """sk <dna|protein|translate> <defmol> <mode+flags> P <hexp>.. F <files>..   -> `sourmash sketch <sub> ...` through main()"""
    import os, shutil
    sub, dm = w[1], w[2]
    mflags = w[3].split("+")
    iF = w.index("F") if "F" in w else len(w)
    ps = [unhex(t) for t in w[5:iF]]
    files = _parse_files(w[iF:])
    tmp = _tmpdir("c14sk")
    old = os.getcwd()
    try:
        os.chdir(tmp)
        argv = ["sketch", sub]           # the op names the subcommand as typed: dna / rna / nucleotide / nt, protein / aa / prot
        if sub not in DNA_ALIASES and dm in ("dayhoff", "hp"):
            argv.append("--" + dm)
        for x in ps:
            argv += [["-p", "--param-string"][pick(2)], x]
        rest, stdin_data = _mode_argv(mflags[0], mflags[1:], files)
        argv += rest
        e = _cli(argv, stdin_data)
        if e:
            return e
        res = _collect(set(f for f, _ in files))
        other_formats(argv, stdin_data, res)
        return res
    finally:
        os.chdir(old)
        shutil.rmtree(tmp, ignore_errors=True)


def run_cmp(w):
    """cmp <ks,> <dna> <protein> <dayhoff> <hp> <num> <scaled|lt1|frac> <track> <seed> <inprot> <mode+flags> F <files>..
    -> `sourmash compute ...` through main()"""
    import os, shutil
    ks, dna, pr, dy, hp, num, sc, tr, seed, inprot = w[1:11]
    mflags = w[11].split("+")
    files = _parse_files(w[12:])
    tmp = _tmpdir("c14cmp")
    old = os.getcwd()
    try:
        os.chdir(tmp)
        argv = ["compute", "-q", ["-k", "--ksizes"][pick(2)], ks]
        if num != "500" or pick(2):
            argv += [["-n", "--num-hashes"][pick(2)], num]
        if seed != "42" or pick(2):
            argv += ["--seed", seed]
        if dna != "1" or pick(2):
            argv.append(["--dna", "--rna", "--nucleotide"][pick(3)] if dna == "1" else ["--no-dna", "--no-rna", "--no-nucleotide"][pick(3)])
        for flag, v in (("protein", pr), ("dayhoff", dy), ("hp", hp)):
            if v == "1":
                argv.append("--" + flag)
            elif pick(3) == 0:
                argv.append("--no-" + flag)
        if sc != "0" or pick(3) == 0:
            argv += ["--scaled", {"lt1": "0.5", "frac": "2.5"}.get(sc, sc)]
        if tr == "1":
            argv.append("--track-abundance")
        if inprot == "1":
            argv.append("--input-is-protein")
        rest, stdin_data = _mode_argv(mflags[0], mflags[1:], files)
        argv += rest
        e = _cli(argv, stdin_data)
        if e:
            return e
        res = _collect(set(f for f, _ in files))
        if not (num == "0" and sc == "0"):
            # `compute -n 0` without --scaled is accepted and writes always-empty sketches with neither num nor scaled
            # (an observation, outside the statement); the savers of the other output formats refuse such a sketch,
            # which is not a property of the command under test
            other_formats(argv, stdin_data, res)
        return res
    finally:
        os.chdir(old)
        shutil.rmtree(tmp, ignore_errors=True)


def fromfile_views(args, built, info, mm):
    """--output-csv-info: one row per (name, file) to build whose -p strings, read back by the parser, are the
    parameters of the signatures built for that name from that file; --output-manifest-matching: rows of the
    already-done collection, never one that was also built"""
    import csv, os
    from sourmash.command_sketch import _signatures_for_sketch_factory as fac
    key = lambda name, fields: (name,) + tuple(fields)
    def fields_of(ss):
        mh = ss.minhash
        k = mh._methodcall(lib.kmerminhash_ksize)
        return ([k], mh.seed, mh.moltype == "protein", mh.moltype == "dayhoff", mh.moltype == "hp", mh.moltype == "DNA",
                mh.num, bool(mh.track_abundance), mh.scaled)
    have = sorted(key(ss.name, fields_of(ss)) + (ss.filename,) for ss in built)
    if info:
        if not os.path.exists(info):
            raise ViewError("--output-csv-info: no file written although signatures were built")
        rows = list(csv.DictReader(open(info, newline="")))
        want = []
        for i, r in enumerate(rows):
            if int(r["output_index"]) != i:
                raise ViewError(f"--output-csv-info: output_index {r['output_index']} in row {i}")
            strs = [x for x in r["param_strs"].split("-p ") if x.strip()]
            cps = list(fac([x.strip() for x in strs], None).get_compute_params(split_ksizes=True))
            if any(c.dna != (r["sketchtype"] == "dna") for c in cps):
                raise ViewError(f"--output-csv-info: sketchtype {r['sketchtype']} for {r['param_strs']}")
            want += [key(r["name"], cp_fields(c)) + (r["filename"],) for c in cps]
        if sorted(want) != have:
            raise ViewError(f"--output-csv-info describes {sorted(want)[:3]}.. ({len(want)}), built were {have[:3]}.. ({len(have)})")
    if mm and os.path.exists(mm):
        from sourmash.manifest import CollectionManifest
        done = CollectionManifest.load_from_filename(mm)
        for row in done.rows:
            c = ComputeParameters.from_manifest_row(row)
            if key(row["name"], cp_fields(c)) in [h[:-1] for h in have]:
                raise ViewError(f"--output-manifest-matching lists {row['name']} {cp_fields(c)} which was built again")


def run_fromfile(w, cli=False):
    """fromfile <ign> P <hexp>.. F <fnamehex> <namehex:seqhex>.. R <namehex>:<ghex>:<phex>.. A <namehex>:<mol>:<k>:<num>:<scaled>:<abund>..
    the real `sketch fromfile` (command_sketch.fromfile) in-process on a temp dir under .build/tmp"""
    import argparse, os, shutil, tempfile
    from sourmash.command_sketch import fromfile
    from sourmash import sourmash_args
    ign = bool(int(w[1]))
    toks = w[3:]
    def upto(ts, marks):
        i = 0
        while i < len(ts) and ts[i] not in marks:
            i += 1
        return ts[:i], ts[i:]
    ps, rest = upto(toks, ("F", "R", "A"))
    ftoks, rest = upto(rest, ("R",))
    rtoks, rest = upto(rest[1:], ("A",))
    atoks = rest[1:]
    files, cur = [], None
    for t in ftoks:
        if t == "F":
            cur = None
        elif cur is None:
            cur = (unhex(t), [])
            files.append(cur)
        else:
            n, q = t.split(":")
            cur[1].append((unhex(n), unhex(q)))
    base = os.path.join(os.environ.get("VERIF_BUILD") or os.path.join(os.path.dirname(os.path.dirname(
        os.path.dirname(os.path.abspath(__file__)))), ".build"), "tmp")
    os.makedirs(base, exist_ok=True)
    tmp = tempfile.mkdtemp(prefix="c14ff", dir=base)
    old = os.getcwd()
    try:
        os.chdir(tmp)
        for fname, recs in files:
            write_input(fname, recs)
        with open("in.csv", "w", newline="") as fh:
            import csv
            cw = csv.writer(fh)
            cw.writerow(["name", "genome_filename", "protein_filename"])
            for t in rtoks:
                n, g, p = t.split(":")
                cw.writerow([unhex(n), unhex(g), unhex(p)])
        already = []
        if atoks:
            with sourmash_args.SaveSignaturesToLocation("done.zip") as save:
                for t in atoks:
                    n, mol, k, num, scaled, ab = t.split(":")
                    mh = MinHash(n=int(num), ksize=int(k), is_protein=(mol == "protein"), dayhoff=(mol == "dayhoff"),
                                 hp=(mol == "hp"), track_abundance=bool(int(ab)), scaled=int(scaled))
                    save.add(SourmashSignature(mh, name=unhex(n)))
            already = ["done.zip"]
        # (a row naming ONE file as genome and as proteome puts DNA and protein parameters under one (name, file)
        # key: `_output_csv_info` then dies on its `assert all(p.dna ...)` after the signatures were written -
        # observation, outside the statement; the csv-info route is not taken for such a CSV)
        same_file = any(t.split(":")[1] == t.split(":")[2] != "-" for t in rtoks)
        info = "info.csv" if pick(2) and not same_file else None
        mm = "mm.csv" if pick(2) else None
        repdup = bool(pick(2))
        # (a zip output collapses exact duplicates - `-p k=5,k=5` - into one member: known finding C10.1; the zip
        # route is exercised by other_formats, where the comparison allows for it)
        outname = ["out.sig", "out.sig.gz"][pick(2)]
        args = argparse.Namespace(csvs=["in.csv"], param_string=[unhex(t) for t in ps], already_done=already,
                                  output_signatures=outname, force_output_already_exists=False,
                                  ignore_missing=ign, output_csv_info=info, output_manifest_matching=mm,
                                  report_duplicated=repdup, check_sequence=False, license="CC0", quiet=True,
                                  force=False)
        try:
            with contextlib.redirect_stdout(io.StringIO()):       # print_results() writes summaries to stdout
                if cli:
                    from sourmash.__main__ import main as sm_main
                    argv = ["sketch", "fromfile", "in.csv", ["-o", "--output-signatures"][pick(2)], outname]
                    if info:
                        argv += ["--output-csv-info", info]
                    if mm:
                        argv += ["--output-manifest-matching", mm]
                    if repdup:
                        argv.append("--report-duplicated")
                    for t in ps:
                        argv += ["-p", unhex(t)]
                    if already:
                        argv += ["--already-done"] + already
                    if ign:
                        argv.append("--ignore-missing")
                    sm_main(argv)
                else:
                    fromfile(args)
        except SystemExit as e:
            if e.code is not None or not cli:
                return f"exit {e.code}"
        got = []
        built = []
        if os.path.exists(outname):
            loaded = file_views(outname) if outname != "out.zip" else list(sourmash.load_file_as_signatures(outname))
            for ss in loaded:
                got.append(f"{hexs(ss.name)}|{hexs(ss.filename)}|{params_rec(ss.minhash)}|{ss.md5sum()}")
                built.append(ss)
                keep(f"signature loaded from {outname}", (lambda ss=ss: rec_of(ss)))
        fromfile_views(args, built, info, mm)
        return "ok " + ";".join(got)
    finally:
        os.chdir(old)
        shutil.rmtree(tmp, ignore_errors=True)


def run_sigeq(w):
    """sigeq <defmol> <split> <dna|protein> <force> P <hex>.. D <k:mol:num:scaled:track:seed>.. S <hexseq>..
    (the tokens of a `feed` op): SourmashSignature.__eq__ / __ne__ (signature_eq) between signatures built by the
    factory (tree-backed), a signature around a directly created sketch fed the same records, and unfed ones"""
    dm, split, kind, force = mol_arg(w[1]), bool(int(w[2])), w[3], bool(int(w[4]))
    iP, iD, iS = w.index("P"), w.index("D"), w.index("S")
    pl = [unhex(t) for t in w[iP + 1:iD]]
    k, mol, num, scaled, track, seed = w[iD + 1].split(":")
    seqs = [unhex(t) for t in w[iS + 1:]]
    fac = _signatures_for_sketch_factory(pl, dm)
    a, b, spare = fac(split_ksizes=split)[0], fac(split_ksizes=split)[0], fac(split_ksizes=split)[0]
    mk = dict(is_protein=(mol == "protein"), dayhoff=(mol == "dayhoff"), hp=(mol == "hp"),
              track_abundance=bool(int(track)), seed=int(seed), scaled=int(scaled))
    direct, empty = MinHash(int(num), int(k), **mk), MinHash(int(num), int(k), **mk)
    add_all([a, b, direct], seqs, kind, force)
    da, de = SourmashSignature(direct), SourmashSignature(empty)

    def ev(f):
        try:
            return str(bool(f()))
        except BaseException as e:          # noqa: BLE001
            return exc_name(e)
    return (f"eq n={len(direct)} tt={ev(lambda: a == b)} ta={ev(lambda: a == da)} at={ev(lambda: da == a)} "
            f"ae={ev(lambda: de == a)} te={ev(lambda: a == spare)} ne={ev(lambda: a != b)}")


CP_FIELDS = ("ksizes", "seed", "protein", "dayhoff", "hp", "dna", "num_hashes", "track_abundance", "scaled")


def cp_fields(cp):
    return tuple(list(getattr(cp, n)) if n == "ksizes" else getattr(cp, n) for n in CP_FIELDS)


def run_cp(w):
    """cp <ks,> <seed> <protein> <dayhoff> <hp> <dna> <num> <track> <scaled>: a ComputeParameters object through one of
    its routes (constructor keywords / defaults then every property setter in a rotated order / overwrite of an
    object built with other values / from_args), of either copy of the class (command_sketch, command_compute);
    every field read back through its getter; from_params; the round trips through to_param_str and through a
    manifest row (what `fromfile` relies on)"""
    import argparse
    from sourmash import command_sketch, command_compute
    from sourmash.manifest import CollectionManifest
    ks = [int(x) for x in w[1].split(",")]
    seed, pr, dy, hp, dna, num, tr, scaled = (int(x) for x in w[2:])
    kw = dict(ksizes=ks, seed=seed, protein=bool(pr), dayhoff=bool(dy), hp=bool(hp), dna=bool(dna), num_hashes=num,
              track_abundance=bool(tr), scaled=scaled)
    want = tuple(kw[n] for n in CP_FIELDS)
    cls = (command_sketch.ComputeParameters, command_compute.ComputeParameters)[pick(2)]
    route = pick(4)
    names = list(CP_FIELDS)
    rot = pick(len(names))
    order = names[rot:] + names[:rot]
    if route == 0:
        cp = cls(**kw)
    elif route == 1:
        cp = cls()
        for n in order:
            setattr(cp, n, kw[n])
    elif route == 2:
        cp = cls(ksizes=[k ^ 1 for k in ks] + [9], seed=seed ^ 5, protein=not pr, dayhoff=not dy, hp=not hp, dna=not dna,
                 num_hashes=num ^ 1, track_abundance=not tr, scaled=scaled ^ 7)
        for n in order:
            setattr(cp, n, kw[n])
    else:
        cp = cls.from_args(argparse.Namespace(unrelated=1, **{n: kw[n] for n in order}))
    if cp_fields(cp) != want:
        raise ViewError(f"ComputeParameters route {route} of {cls.__module__}: set {want}, read back {cp_fields(cp)}")
    if repr(cp) != (f"ComputeParameters(ksizes={ks}, seed={seed}, protein={bool(pr)}, dayhoff={bool(dy)}, hp={bool(hp)}, "
                    f"dna={bool(dna)}, num_hashes={num}, track_abundance={bool(tr)}, scaled={scaled})"):
        raise ViewError(f"repr {cp!r} does not show the fields {want}")
    twin = (command_sketch.ComputeParameters, command_compute.ComputeParameters)[pick(2)](**kw)
    if not (cp == twin and twin == cp):
        raise ViewError("two ComputeParameters with the same fields compare unequal")
    for n in CP_FIELDS:
        other = dict(kw)
        other[n] = (ks + [ks[0] ^ 1]) if n == "ksizes" else (not kw[n]) if isinstance(kw[n], bool) else kw[n] ^ 1
        if cp == cls(**other):
            raise ViewError(f"ComputeParameters differing only in {n} compare equal")
    if pick(3) == 0:
        # what `compute` does: the factory of either module, called with the parsed arguments
        mod = (command_sketch, command_compute)[pick(2)]
        got = mod._signatures_for_compute_factory(argparse.Namespace(**kw))()
        if len(got) != 1:
            raise ViewError(f"_signatures_for_compute_factory built {len(got)} signatures")
        sig = got[0]
    else:
        sig = SourmashSignature.from_params(cp)
    sig2 = SourmashSignature.from_params(cp)
    if sum(1 for x in (pr, dy, hp, dna) if x) == 1:
        want_mol = "DNA" if dna else "protein" if pr else "hp" if hp else "dayhoff"
        if cp.moltype != want_mol:
            raise ViewError(f"ComputeParameters.moltype {cp.moltype!r} for {want}")
    if sig.name != "" or sig.filename != "" or sig.license != "CC0":
        raise ViewError(f"from_params: name {sig.name!r} filename {sig.filename!r} license {sig.license!r}")
    mhs, _ = sketches_of(sig)
    res = "ok " + "|".join(params_rec(m) for m in mhs)
    if cp_fields(cp) != want:
        raise ViewError("from_params changed its ComputeParameters")
    keep("ComputeParameters object", (lambda cp=cp: cp_fields(cp)), want)
    keep("signature from_params", (lambda sig=sig: sig_view(sig)))
    keep("second signature from the same ComputeParameters", (lambda sig2=sig2: sig_view(sig2)))
    # the two conversions `sketch fromfile` relies on, where they are defined: one molecule type, num xor scaled
    nmol = sum(1 for x in (pr, dy, hp, dna) if x)
    if nmol == 1 and (num == 0) != (scaled == 0) and ks and (dna or all(k % 3 == 0 for k in ks)) and scaled < 2 ** 63:
        st = cp.to_param_str()
        back = list(_signatures_for_sketch_factory([st], None).get_compute_params())
        if len(back) != 1 or cp_fields(back[0]) != want or not back[0] == cp:
            raise ViewError(f"to_param_str {st!r} reads back as {[cp_fields(b) for b in back]}, the object holds {want}")
        if seed == 42:
            for k in ks:
                one = cls(**dict(kw, ksizes=[k]))
                mh = sketches_of(SourmashSignature.from_params(one))[0][0]
                row = CollectionManifest.make_manifest_row(SourmashSignature(mh, name="x"), "loc", include_signature=False)
                via = cls.from_manifest_row(row)
                if cp_fields(via) != cp_fields(one) or not via == one:
                    raise ViewError(f"from_manifest_row of the sketch built from {cp_fields(one)} gives {cp_fields(via)}")
    return res


def main():
    out = sys.stdout
    quiet = io.StringIO()
    for line in sys.stdin:
        w = line.split()
        if not w:
            out.write("bad-op\n")
            continue
        op = w[0]
        route_seed(line.strip())
        try:
            with contextlib.redirect_stderr(quiet):
                if op == "#":
                    reverify()
                    del KEPT[:]
                    res = "#"
                elif op == "parse" and len(w) == 2:
                    mt, p = _parse_params_str(unhex(w[1]))
                    f = lambda key: "-" if key not in p else str(int(p[key]))
                    tr = "-" if "track_abundance" not in p else str(int(p["track_abundance"]))
                    res = (f"ok mt={mt or '-'} k={','.join(str(k) for k in p['ksize'])} num={f('num')}"
                           f" scaled={f('scaled')} seed={f('seed')} tr={tr}")
                elif op in ("factory", "first") and len(w) >= 3:
                    dm, split = mol_arg(w[1]), bool(int(w[2]))
                    pl = [unhex(t) for t in w[3:]]
                    fac = _signatures_for_sketch_factory(pl, dm)
                    sigs = fac(split_ksizes=split)
                    keep("signatures of a second call of the factory",
                         (lambda fac=fac, split=split: [sig_view(x) for x in fac(split_ksizes=split)]))
                    if op == "factory":
                        res = "ok " + ";".join("|".join(params_rec(m) for m in sketches_of(s)[0]) for s in sigs)
                    else:
                        res = "ok " + ";".join(params_rec(s.minhash) for s in sigs)
                elif op == "cp" and len(w) == 10:
                    res = run_cp(w)
                elif op == "setname" and len(w) == 3:
                    from sourmash import command_sketch, command_compute
                    set_sig_name = (command_sketch, command_compute)[pick(2)].set_sig_name     # `sketch` / `compute`
                    sigs = _signatures_for_sketch_factory(["k=5,scaled=1", "k=7,num=2"][:1 + pick(2)], "dna")()
                    args = [sigs, unhex(w[1])]
                    if w[2] == "none":
                        set_sig_name(*args) if pick(2) else set_sig_name(*args, name=None)
                    else:
                        set_sig_name(*args, unhex(w[2])) if pick(2) else set_sig_name(*args, name=unhex(w[2]))
                    if len(set((x.name, x.filename) for x in sigs)) != 1:
                        raise ViewError("set_sig_name named the signatures of one set differently")
                    sig = sigs[0]
                    sketches_of(sig)
                    if str(sig) != (sig.name or sig.filename or sig.md5sum()[:8]):
                        raise ViewError(f"str(sig) = {str(sig)!r} with name {sig.name!r} filename {sig.filename!r}")
                    keep("named signature", (lambda sig=sig: sig_view(sig)))
                    res = f"ok {hexs(sig.name)}|{hexs(sig.filename)}"
                elif op == "fromfile" and len(w) >= 3:
                    res = run_fromfile(w)
                elif op == "fromfilecli" and len(w) >= 3:
                    res = run_fromfile(w, cli=True)
                elif op == "sk" and len(w) >= 5:
                    res = run_sk(w)
                elif op == "cmp" and len(w) >= 12:
                    res = run_cmp(w)
                elif op == "names" and len(w) >= 3:
                    res = run_names(w)
                elif op == "native":
                    res = native(line)
                elif op == "sigeq":
                    res = run_sigeq(w)
                elif op == "feed":
                    # feed <defmol> <split> <dna|protein> <force> P <hex>.. D <k:mol:num:scaled:track:seed>.. S <hexseq>..
                    dm, split, kind, force = mol_arg(w[1]), bool(int(w[2])), w[3], bool(int(w[4]))
                    iP, iD, iS = w.index("P"), w.index("D"), w.index("S")
                    pl = [unhex(t) for t in w[iP + 1:iD]]
                    specs = w[iD + 1:iS]
                    seqs = [unhex(t) for t in w[iS + 1:]]
                    try:
                        fac = _signatures_for_sketch_factory(pl, dm)
                        before = [cp_fields(c) for c in fac.get_compute_params(split_ksizes=split)]
                        if pick(2):
                            spare = fac(split_ksizes=split)          # a factory hands out fresh signatures on every call
                            sigs = fac(split_ksizes=split)
                        else:
                            sigs = fac(split_ksizes=split)
                            spare = fac(split_ksizes=split)
                        empties = [sig_view(x) for x in spare]
                        ferr = None
                        try:
                            add_all(sigs, seqs, kind, force)
                        except BaseException as e:           # noqa: BLE001
                            ferr = exc_name(e)
                        if [sig_view(x) for x in spare] != empties or [sig_view(x) for x in fac(split_ksizes=split)] != empties:
                            raise ViewError("feeding the signatures of one factory call changed those of another call")
                        if [cp_fields(c) for c in fac.get_compute_params(split_ksizes=split)] != before:
                            raise ViewError("the factory's parameters changed while its signatures were fed")
                        for x in spare:
                            keep("unfed signature of the same factory", (lambda x=x: sig_view(x)))
                        F, M = [], []
                        for s in ([] if ferr else sigs):
                            keep("fed factory signature", (lambda s=s: sig_view(s)))
                            mhs, md5s = sketches_of(s)
                            F += [content_rec(m, d) for m, d in zip(mhs, md5s)]
                            # the other exit: sig.minhash (first sketch only), md5 through a fresh signature
                            m1 = s.minhash
                            M.append(content_rec(m1, SourmashSignature(m1).md5sum()))
                        # after an error the command exits: what the sketches hold is not observable
                        fpart = f"FERR {ferr}" if ferr else " ".join(F) + " M " + " ".join(M)
                    except BaseException as e:               # noqa: BLE001
                        fpart = "err " + exc_name(e) + " " + reason_of(e)
                    D, direct = [], []
                    for sp in specs:
                        k, mol, num, scaled, track, seed = sp.split(":")
                        try:
                            mk = dict(is_protein=(mol == "protein"), dayhoff=(mol == "dayhoff"), hp=(mol == "hp"),
                                      track_abundance=bool(int(track)), seed=int(seed), scaled=int(scaled))
                            direct.append(MinHash(n=int(num), ksize=int(k), **mk) if pick(2) else MinHash(int(num), int(k), **mk))
                        except BaseException as e:           # noqa: BLE001
                            direct.append("Dexc:" + exc_name(e))
                    derr = None
                    try:
                        add_all([m for m in direct if not isinstance(m, str)], seqs, kind, force)
                    except BaseException as e:               # noqa: BLE001
                        derr = exc_name(e)
                    if derr:
                        # keep the refusals of MinHash(...) itself in front of the feeding error
                        D = [m for m in direct if isinstance(m, str)] + ["DERR:" + derr]
                    else:
                        for m in direct:
                            D.append(m if isinstance(m, str) else content_rec(m, SourmashSignature(m).md5sum()))
                            if not isinstance(m, str):
                                keep("directly created sketch", (lambda m=m: sorted(m.hashes.items())))
                    res = "feed F " + fpart + " D " + " ".join(D)
                else:
                    res = "bad-op"
                if op != "#":
                    reverify()
        except ViewError as e:
            del KEPT[:]
            res = "view-mismatch " + " ".join(str(e).split())[:400]
        except BaseException as e:          # noqa: BLE001
            res = "err " + exc_name(e) + (" " + reason_of(e) if op in ("parse", "factory", "first") else "")
        out.write(res + "\n")
    out.flush()


if __name__ == "__main__":
    main()
