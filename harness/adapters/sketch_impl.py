"""Real-code adapter for the `sketch` stream (C14): parameter strings through
`_parse_params_str`, `_signatures_for_sketch_factory`, `ComputeParameters`,
`SourmashSignature.from_params` (Rust `build_template`: tree-backed sketches), sequences through
`add_sequence` / `add_protein`, observation through both exits of a tree-backed sketch
(`sig.minhash` = `signature_first_mh` -> `From<&KmerMinHashBTree>`, and the JSON writer = BTree
`Serialize`), next to `MinHash(...)` objects created directly and fed the same sequences."""
import hashlib
import io
import json
import sys
import contextlib

import sourmash
from sourmash import MinHash, SourmashSignature
from sourmash.command_sketch import _parse_params_str, _signatures_for_sketch_factory
from sourmash.command_sketch import ComputeParameters     # the copy the sketch factory uses
from sourmash import signature as sigmod
from sourmash._lowlevel import lib

HF = {"DNA": 1, "protein": 2, "dayhoff": 3, "hp": 4}


def unhex(tok):
    return "" if tok == "-" else bytes.fromhex(tok).decode("latin-1")


def exc_name(e):
    import argparse
    if isinstance(e, argparse.ArgumentTypeError):
        return "ArgumentTypeError"
    for cls in (OverflowError, ValueError, TypeError, RuntimeError, AssertionError, KeyError):
        if isinstance(e, cls):
            return cls.__name__
    return type(e).__name__


def reason_of(e):
    """the refusal reason, read off the exception class and message (one code per `raise` site)"""
    import argparse
    m = str(e)
    if isinstance(e, argparse.ArgumentTypeError):
        return "numNegative" if "num value" in m else "scaledNegative" if "scaled value" in m else "?"
    if isinstance(e, OverflowError):
        return "overflow"
    if isinstance(e, ValueError):
        table = [("k takes a parameter", "kNoParam"), ("num takes a parameter", "numNoParam"),
                 ("scaled takes a parameter", "scaledNoParam"), ("seed takes a parameter", "seedNoParam"),
                 ("cannot set both num and scaled", "bothNumScaled"), ("cannot parse num=", "numNotInt"),
                 ("cannot parse scaled=", "scaledNotInt"), ("unknown component", "unknownItem"),
                 ("invalid literal for int()", "notInt"), ("Incompatible sketch type (dna)", "moltypeUnderDna"),
                 ("Incompatible sketch type (", "dnaUnderProtein"), ("No default moltype", "noMoltype"),
                 ("must set either num or scaled", "zeroSize")]
        for pre, code in table:
            if m.startswith(pre):
                return code
    return "?"


def sketches_of(sig):
    """every sketch of a signature, through the JSON writer (BTree Serialize) and reader"""
    js = sigmod.save_signatures_to_json([sig])
    written = [sk["md5sum"] for rec in json.loads(js) for sk in rec["signatures"]]     # BTree md5sum(), as written
    loaded = list(sigmod.load_signatures_from_json(js))
    recomputed = [s.md5sum() for s in loaded]          # the reader does not trust the file: recomputed from the hashes
    if written != recomputed:
        raise AssertionError(f"md5 written by the tree-backed sketch {written} != md5 of the hashes read back {recomputed}")
    return [s.minhash for s in loaded], written


def params_rec(mh):
    k = mh._methodcall(lib.kmerminhash_ksize)        # internal k (x3 for the protein alphabets)
    return f"{k}:{HF[mh.moltype]}:{mh.num}:{mh._max_hash}:{mh.seed}:{int(mh.track_abundance)}"


def content_rec(mh, md5):
    hs = mh.hashes
    keys = sorted(hs)
    if mh.track_abundance:
        body = ",".join(f"{k}={hs[k]}" for k in keys)
    else:
        body = ",".join(str(k) for k in keys)
    return f"{params_rec(mh)}:{len(keys)}:{md5}:{hashlib.md5(body.encode()).hexdigest()[:12]}"


def mol_arg(tok):
    return None if tok == "-" else tok


def add_all(objs, seqs, input_kind, force):
    """command_compute.add_seq: record-major, every sketch object in order; the first exception
    aborts (the command exits), so what the objects hold afterwards is not observable"""
    for s in seqs:
        for obj in objs:
            if input_kind == "protein":
                obj.add_protein(s)
            else:
                obj.add_sequence(s, force)


_NATIVE = None


def native(line):
    """`native` ops go to the Rust harness (module `sketch`): the same ComputeParameters / from_params /
    add_sequence path, without Python in between"""
    global _NATIVE
    import os, subprocess
    if _NATIVE is None:
        build = os.environ.get("VERIF_BUILD") or os.path.join(os.path.dirname(os.path.dirname(
            os.path.dirname(os.path.abspath(__file__)))), ".build")
        exe = os.path.join(build, "rh_target", "release", "smharness")
        _NATIVE = subprocess.Popen([exe, "sketch"], stdin=subprocess.PIPE, stdout=subprocess.PIPE, text=True, bufsize=1)
    _NATIVE.stdin.write(line.rstrip("\n") + "\n")
    _NATIVE.stdin.flush()
    return _NATIVE.stdout.readline().rstrip("\n")


def hexs(t):
    return t.encode("latin-1").hex() if t else "-"


def run_names(w):
    """names <file|first|singleton|merge:NAMEHEX>[+dir|+newdir|+cwd][+rand][+check] <k> F <fnamehex> <namehex>:<seqhex>.. F ..
    the real `_execute_sketch` (-> _compute_individual / _compute_merged) on FASTA files written to a
    temp dir under .build/tmp; what it wrote where: path|name|filename|md5 per signature, sorted by path"""
    import argparse, os, shutil, tempfile
    from sourmash.command_sketch import _execute_sketch
    mflags = w[1].split("+")
    mode, flags = mflags[0], mflags[1:]
    k = int(w[2])
    files, cur = [], None
    for t in w[3:]:
        if t == "F":
            cur = None
        elif cur is None:
            cur = (unhex(t), [])
            files.append(cur)
        else:
            n, q = t.split(":")
            cur[1].append((unhex(n), unhex(q)))
    base = os.path.join(os.environ.get("VERIF_BUILD") or os.path.join(os.path.dirname(os.path.dirname(
        os.path.dirname(os.path.abspath(__file__)))), ".build"), "tmp")
    os.makedirs(base, exist_ok=True)
    tmp = tempfile.mkdtemp(prefix="c14names", dir=base)
    old = os.getcwd()
    try:
        os.chdir(tmp)
        for fname, recs in files:
            if os.path.dirname(fname):
                os.makedirs(os.path.dirname(fname), exist_ok=True)
            with open(fname, "w") as fh:
                for n, q in recs:
                    fh.write(f">{n}\n{q}\n")
        if "dir" in flags:
            os.mkdir("outd")
        inputs = set(f for f, _ in files)
        merge = unhex(mode.split(":")[1]) if mode.startswith("merge:") else ""
        single = not any(f in flags for f in ("dir", "newdir", "cwd"))
        args = argparse.Namespace(filenames=[f for f, _ in files], output="out.sig" if single else None,
                                  output_dir="outd" if ("dir" in flags or "newdir" in flags) else None, merge=merge,
                                  singleton=(mode == "singleton"), name_from_first=(mode == "first"),
                                  input_is_protein=False, check_sequence=("check" in flags), license="CC0", force=True,
                                  quiet=True, randomize=("rand" in flags), from_file=None)
        # --randomize is accepted by `sketch dna|protein|translate` but only `compute` acts on it: _execute_sketch
        # ignores the flag, the order of the inputs is kept
        factory = _signatures_for_sketch_factory([f"k={k},scaled=1"], "dna")
        try:
            _execute_sketch(args, factory)
        except SystemExit:
            return "err SystemExit"
        got = []
        outs = []
        for d, _, fs in os.walk("."):
            for f in fs:
                pth = os.path.normpath(os.path.join(d, f))
                if pth.endswith(".sig") and pth not in inputs:
                    outs.append(pth)
        for pth in sorted(outs):
            for ss in sourmash.load_file_as_signatures(pth):
                got.append(f"{hexs(pth)}|{hexs(ss.name)}|{hexs(ss.filename)}|{ss.md5sum()}")
        return "ok " + ";".join(got)
    finally:
        os.chdir(old)
        shutil.rmtree(tmp, ignore_errors=True)


def _parse_files(toks):
    files, cur = [], None
    for t in toks:
        if t == "F":
            cur = None
        elif cur is None:
            cur = (unhex(t), [])
            files.append(cur)
        else:
            n, q = t.split(":")
            cur[1].append((unhex(n), unhex(q)))
    return files


def _tmpdir(prefix):
    import os, tempfile
    base = os.path.join(os.environ.get("VERIF_BUILD") or os.path.join(os.path.dirname(os.path.dirname(
        os.path.dirname(os.path.abspath(__file__)))), ".build"), "tmp")
    os.makedirs(base, exist_ok=True)
    return tempfile.mkdtemp(prefix=prefix, dir=base)


def _cli(argv):
    """the command line, in-process: sourmash.__main__.main(argv); returns None on success or the error token"""
    import sourmash.__main__
    try:
        with contextlib.redirect_stdout(io.StringIO()):
            sourmash.__main__.main(argv)
    except SystemExit as e:
        if e.code in (None, 0):
            return None
        return "err SystemExit"
    return None


def _collect(inputs):
    import os
    outs = []
    for d, _, fs in os.walk("."):
        for f in fs:
            pth = os.path.normpath(os.path.join(d, f))
            if pth.endswith(".sig") and pth not in inputs:
                outs.append(pth)
    got = []
    for pth in sorted(outs):
        for ss in sourmash.load_file_as_signatures(pth):
            got.append(f"{hexs(pth)}|{hexs(ss.name)}|{hexs(ss.filename)}|{params_rec(ss.minhash)}|{ss.md5sum()}")
    return "ok " + ";".join(got)


def _mode_argv(mode, flags, files):
    """the file-handling options of sketch / compute for a mode+flags token; writes the inputs"""
    import os
    argv = []
    for fname, recs in files:
        if os.path.dirname(fname):
            os.makedirs(os.path.dirname(fname), exist_ok=True)
        with open(fname, "w") as fh:
            for n, q in recs:
                fh.write(f">{n}\n{q}\n")
    if "dir" in flags:
        os.mkdir("outd")
    if "dir" in flags or "newdir" in flags:
        argv += ["--output-dir", "outd"]
    elif "cwd" not in flags:
        argv += ["-o", "out.sig"]
    if mode.startswith("merge:"):
        argv += ["--merge", unhex(mode.split(":")[1])]
    elif mode == "singleton":
        argv.append("--singleton")
    elif mode == "first":
        argv.append("--name-from-first")
    if "rand" in flags:
        argv.append("--randomize")
    if "check" in flags:
        argv.append("--check-sequence")
    names = [f for f, _ in files]
    if "fromfile" in flags:
        with open("inputs.txt", "w") as fh:
            fh.write("\n".join(names) + "\n")
        argv += ["--from-file", "inputs.txt"]
    else:
        argv += names
    return argv


def run_sk(w):
    """sk <dna|protein|translate> <defmol> <mode+flags> P <hexp>.. F <files>..   -> `sourmash sketch <sub> ...` through main()"""
    import os, shutil
    sub, dm = w[1], w[2]
    mflags = w[3].split("+")
    iF = w.index("F") if "F" in w else len(w)
    ps = [unhex(t) for t in w[5:iF]]
    files = _parse_files(w[iF:])
    tmp = _tmpdir("c14sk")
    old = os.getcwd()
    try:
        os.chdir(tmp)
        argv = ["sketch", sub]
        if sub != "dna" and dm in ("dayhoff", "hp"):
            argv.append("--" + dm)
        for s in ps:
            argv += ["-p", s]
        argv += _mode_argv(mflags[0], mflags[1:], files)
        e = _cli(argv)
        return e if e else _collect(set(f for f, _ in files))
    finally:
        os.chdir(old)
        shutil.rmtree(tmp, ignore_errors=True)


def run_cmp(w):
    """cmp <ks,> <dna> <protein> <dayhoff> <hp> <num> <scaled|lt1|frac> <track> <seed> <inprot> <mode+flags> F <files>..
    -> `sourmash compute ...` through main()"""
    import os, shutil
    ks, dna, pr, dy, hp, num, sc, tr, seed, inprot = w[1:11]
    mflags = w[11].split("+")
    files = _parse_files(w[12:])
    tmp = _tmpdir("c14cmp")
    old = os.getcwd()
    try:
        os.chdir(tmp)
        argv = ["compute", "-q", "-k", ks, "-n", num, "--seed", seed]
        argv.append("--dna" if dna == "1" else "--no-dna")
        for flag, v in (("protein", pr), ("dayhoff", dy), ("hp", hp)):
            if v == "1":
                argv.append("--" + flag)
        if sc != "0":
            argv += ["--scaled", {"lt1": "0.5", "frac": "2.5"}.get(sc, sc)]
        if tr == "1":
            argv.append("--track-abundance")
        if inprot == "1":
            argv.append("--input-is-protein")
        argv += _mode_argv(mflags[0], mflags[1:], files)
        e = _cli(argv)
        return e if e else _collect(set(f for f, _ in files))
    finally:
        os.chdir(old)
        shutil.rmtree(tmp, ignore_errors=True)


def run_fromfile(w, cli=False):
    """fromfile <ign> P <hexp>.. F <fnamehex> <namehex:seqhex>.. R <namehex>:<ghex>:<phex>.. A <namehex>:<mol>:<k>:<num>:<scaled>:<abund>..
    the real `sketch fromfile` (command_sketch.fromfile) in-process on a temp dir under .build/tmp"""
    import argparse, os, shutil, tempfile
    from sourmash.command_sketch import fromfile
    from sourmash import sourmash_args
    ign = bool(int(w[1]))
    toks = w[3:]
    def upto(ts, marks):
        i = 0
        while i < len(ts) and ts[i] not in marks:
            i += 1
        return ts[:i], ts[i:]
    ps, rest = upto(toks, ("F", "R", "A"))
    ftoks, rest = upto(rest, ("R",))
    rtoks, rest = upto(rest[1:], ("A",))
    atoks = rest[1:]
    files, cur = [], None
    for t in ftoks:
        if t == "F":
            cur = None
        elif cur is None:
            cur = (unhex(t), [])
            files.append(cur)
        else:
            n, q = t.split(":")
            cur[1].append((unhex(n), unhex(q)))
    base = os.path.join(os.environ.get("VERIF_BUILD") or os.path.join(os.path.dirname(os.path.dirname(
        os.path.dirname(os.path.abspath(__file__)))), ".build"), "tmp")
    os.makedirs(base, exist_ok=True)
    tmp = tempfile.mkdtemp(prefix="c14ff", dir=base)
    old = os.getcwd()
    try:
        os.chdir(tmp)
        for fname, recs in files:
            with open(fname, "w") as fh:
                for n, q in recs:
                    fh.write(f">{n}\n{q}\n")
        with open("in.csv", "w", newline="") as fh:
            import csv
            cw = csv.writer(fh)
            cw.writerow(["name", "genome_filename", "protein_filename"])
            for t in rtoks:
                n, g, p = t.split(":")
                cw.writerow([unhex(n), unhex(g), unhex(p)])
        already = []
        if atoks:
            with sourmash_args.SaveSignaturesToLocation("done.zip") as save:
                for t in atoks:
                    n, mol, k, num, scaled, ab = t.split(":")
                    mh = MinHash(n=int(num), ksize=int(k), is_protein=(mol == "protein"), dayhoff=(mol == "dayhoff"),
                                 hp=(mol == "hp"), track_abundance=bool(int(ab)), scaled=int(scaled))
                    save.add(SourmashSignature(mh, name=unhex(n)))
            already = ["done.zip"]
        args = argparse.Namespace(csvs=["in.csv"], param_string=[unhex(t) for t in ps], already_done=already,
                                  output_signatures="out.sig", force_output_already_exists=False,
                                  ignore_missing=ign, output_csv_info=None, output_manifest_matching=None,
                                  report_duplicated=False, check_sequence=False, license="CC0", quiet=True,
                                  force=False)
        try:
            with contextlib.redirect_stdout(io.StringIO()):       # print_results() writes summaries to stdout
                if cli:
                    from sourmash.__main__ import main as sm_main
                    argv = ["sketch", "fromfile", "in.csv", "-o", "out.sig"]
                    for t in ps:
                        argv += ["-p", unhex(t)]
                    if already:
                        argv += ["--already-done"] + already
                    if ign:
                        argv.append("--ignore-missing")
                    sm_main(argv)
                else:
                    fromfile(args)
        except SystemExit as e:
            if e.code is not None or not cli:
                return f"exit {e.code}"
        got = []
        if os.path.exists("out.sig"):
            for ss in sourmash.load_file_as_signatures("out.sig"):
                got.append(f"{hexs(ss.name)}|{hexs(ss.filename)}|{params_rec(ss.minhash)}|{ss.md5sum()}")
        return "ok " + ";".join(got)
    finally:
        os.chdir(old)
        shutil.rmtree(tmp, ignore_errors=True)


def main():
    out = sys.stdout
    quiet = io.StringIO()
    for line in sys.stdin:
        w = line.split()
        if not w:
            out.write("bad-op\n")
            continue
        op = w[0]
        try:
            with contextlib.redirect_stderr(quiet):
                if op == "#":
                    res = "#"
                elif op == "parse" and len(w) == 2:
                    mt, p = _parse_params_str(unhex(w[1]))
                    f = lambda key: "-" if key not in p else str(int(p[key]))
                    tr = "-" if "track_abundance" not in p else str(int(p["track_abundance"]))
                    res = (f"ok mt={mt or '-'} k={','.join(str(k) for k in p['ksize'])} num={f('num')}"
                           f" scaled={f('scaled')} seed={f('seed')} tr={tr}")
                elif op in ("factory", "first") and len(w) >= 3:
                    dm, split = mol_arg(w[1]), bool(int(w[2]))
                    pl = [unhex(t) for t in w[3:]]
                    sigs = _signatures_for_sketch_factory(pl, dm)(split_ksizes=split)
                    if op == "factory":
                        res = "ok " + ";".join("|".join(params_rec(m) for m in sketches_of(s)[0]) for s in sigs)
                    else:
                        res = "ok " + ";".join(params_rec(s.minhash) for s in sigs)
                elif op == "cp" and len(w) == 10:
                    ks = [int(x) for x in w[1].split(",")]
                    seed, pr, dy, hp, dna, num, tr, scaled = (int(x) for x in w[2:])
                    cp = ComputeParameters(ksizes=ks, seed=seed, protein=bool(pr), dayhoff=bool(dy), hp=bool(hp),
                                           dna=bool(dna), num_hashes=num, track_abundance=bool(tr), scaled=scaled)
                    sig = SourmashSignature.from_params(cp)
                    res = "ok " + "|".join(params_rec(m) for m in sketches_of(sig)[0])
                elif op == "setname" and len(w) == 3:
                    from sourmash.command_sketch import set_sig_name      # the copy `sketch` uses
                    sig = _signatures_for_sketch_factory(["k=5,scaled=1"], "dna")()[0]
                    set_sig_name([sig], unhex(w[1]), None if w[2] == "none" else unhex(w[2]))
                    res = f"ok {hexs(sig.name)}|{hexs(sig.filename)}"
                elif op == "fromfile" and len(w) >= 3:
                    res = run_fromfile(w)
                elif op == "fromfilecli" and len(w) >= 3:
                    res = run_fromfile(w, cli=True)
                elif op == "sk" and len(w) >= 5:
                    res = run_sk(w)
                elif op == "cmp" and len(w) >= 12:
                    res = run_cmp(w)
                elif op == "names" and len(w) >= 3:
                    res = run_names(w)
                elif op == "native":
                    res = native(line)
                elif op == "feed":
                    # feed <defmol> <split> <dna|protein> <force> P <hex>.. D <k:mol:num:scaled:track:seed>.. S <hexseq>..
                    dm, split, kind, force = mol_arg(w[1]), bool(int(w[2])), w[3], bool(int(w[4]))
                    iP, iD, iS = w.index("P"), w.index("D"), w.index("S")
                    pl = [unhex(t) for t in w[iP + 1:iD]]
                    specs = w[iD + 1:iS]
                    seqs = [unhex(t) for t in w[iS + 1:]]
                    try:
                        sigs = _signatures_for_sketch_factory(pl, dm)(split_ksizes=split)
                        ferr = None
                        try:
                            add_all(sigs, seqs, kind, force)
                        except BaseException as e:           # noqa: BLE001
                            ferr = exc_name(e)
                        F, M = [], []
                        for s in ([] if ferr else sigs):
                            mhs, md5s = sketches_of(s)
                            F += [content_rec(m, d) for m, d in zip(mhs, md5s)]
                            # the other exit: sig.minhash (first sketch only), md5 through a fresh signature
                            m1 = s.minhash
                            M.append(content_rec(m1, SourmashSignature(m1).md5sum()))
                        # after an error the command exits: what the sketches hold is not observable
                        fpart = f"FERR {ferr}" if ferr else " ".join(F) + " M " + " ".join(M)
                    except BaseException as e:               # noqa: BLE001
                        fpart = "err " + exc_name(e) + " " + reason_of(e)
                    D, direct = [], []
                    for sp in specs:
                        k, mol, num, scaled, track, seed = sp.split(":")
                        try:
                            direct.append(MinHash(n=int(num), ksize=int(k), is_protein=(mol == "protein"),
                                                  dayhoff=(mol == "dayhoff"), hp=(mol == "hp"),
                                                  track_abundance=bool(int(track)), seed=int(seed), scaled=int(scaled)))
                        except BaseException as e:           # noqa: BLE001
                            direct.append("Dexc:" + exc_name(e))
                    derr = None
                    try:
                        add_all([m for m in direct if not isinstance(m, str)], seqs, kind, force)
                    except BaseException as e:               # noqa: BLE001
                        derr = exc_name(e)
                    if derr:
                        # keep the refusals of MinHash(...) itself in front of the feeding error
                        D = [m for m in direct if isinstance(m, str)] + ["DERR:" + derr]
                    else:
                        for m in direct:
                            D.append(m if isinstance(m, str) else content_rec(m, SourmashSignature(m).md5sum()))
                    res = "feed F " + fpart + " D " + " ".join(D)
                else:
                    res = "bad-op"
        except BaseException as e:          # noqa: BLE001
            res = "err " + exc_name(e) + (" " + reason_of(e) if op in ("parse", "factory", "first") else "")
        out.write(res + "\n")
    out.flush()


if __name__ == "__main__":
    main()
