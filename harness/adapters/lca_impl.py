"""Real-code adapter for the `lca` stream (C18): executes each op line against the
sourmash package assembled from /repo's working tree and prints one canonical
observation per line.  Op list and token encodings: harness/streams/lca.py."""
import os
import shutil
import sys
import tempfile
from collections import defaultdict

import sourmash  # noqa: F401
from sourmash import MinHash, SourmashSignature
from sourmash.lca.lca_db import LCA_Database
from sourmash.lca import lca_utils
from sourmash.lca.command_summarize import summarize
from sourmash.lca.command_classify import classify_signature
from sourmash.tax.tax_utils import LineagePair, LineageTree

TAXLIST = list(lca_utils.taxlist())
MOLTYPES = ["DNA", "protein", "dayhoff", "hp"]
TMPROOT = os.environ.get("VERIF_TMP") or os.path.join(
    os.path.dirname(os.path.dirname(os.path.dirname(os.path.abspath(__file__)))), ".build", "tmp")


def rank_name(i):
    return TAXLIST[i] if i < len(TAXLIST) else f"rank{i}"


def rank_index(r):
    if r in TAXLIST:
        return TAXLIST.index(r)
    assert r.startswith("rank"), r
    return int(r[4:])


def taxon(n):
    return "" if n == 0 else ("unassigned" if n == 1000 else f"t{n}")


def taxon_id(s):
    if not s:          # "" or None
        return 0
    if s == "unassigned":
        return 1000
    assert s[0] == "t", s
    return int(s[1:])


def run_lca_index(tmpdir, n, opts, sigs, csvtok):
    """`sourmash lca index` through the real argument parser, one signature per file, --report always given;
    returns (loaded database or None, observation)"""
    import csv as _csv
    import re as _re
    from sourmash.cli import get_parser
    from sourmash.lca.command_index import index as lca_index
    d = os.path.join(tmpdir, f"index{n}")
    os.makedirs(d)
    files = []
    for i, ss in enumerate(sigs):
        fn = os.path.join(d, f"sig{i}.sig")
        with open(fn, "w") as fp:
            sourmash.save_signatures([ss], fp)
        files.append(fn)
    csvfn = os.path.join(d, "tax.csv")
    with open(csvfn, "w", newline="") as fp:
        w = _csv.writer(fp)
        if csvtok != "-":
            for r in csvtok.split("/"):
                w.writerow([] if r == "!" else [c.replace("~", " ") for c in r.split(";")])
    ws = opts.split(",")
    num = lambda pre, dflt: next((int(x[len(pre):]) for x in ws if x.startswith(pre) and x[len(pre):].isdigit()), dflt)
    mol = num("m", 0)
    out = os.path.join(d, "out.lca.json")
    rep = os.path.join(d, "report.txt")
    argv = ["lca", "index", csvfn, out] + files + ["-k", str(num("k", 21)), "--scaled", str(num("s", 1)),
                                                    "-C", str(num("C", 2)), "--report", rep, "-q"]
    argv += {0: ["--dna"], 1: ["--protein"], 2: ["--dayhoff"], 3: ["--hp"]}[mol]
    for flag, arg in (("nh", "--no-headers"), ("f", "-f"), ("si", "--split-identifiers"),
                      ("kv", "--keep-identifier-versions"), ("rt", "--require-taxonomy"),
                      ("fm", "--fail-on-missing-taxonomy")):
        if flag in ws:
            argv.append(arg)
    args = get_parser().parse_args(argv)
    try:
        lca_index(args)
    except SystemExit as e:
        return None, f"exit {e.code}"
    db = LCA_Database.load(out)
    if os.path.exists(rep):
        txt = open(rep).read()
        nums = [_re.search(pat + r": (\d+)", txt).group(1) for pat in
                ("Duplicate signatures", "Unused identifiers", "No lineage provided for these identifiers",
                 "No signatures found for these identifiers", "Unused lineages")]
        return db, "ok report=" + ",".join(nums)
    return db, "ok report=-"


def name_of(tok):
    return "" if tok == "-" else tok.replace("~", " ")


def tok_of(s):
    return "-" if s == "" else s.replace(" ", "~")


def nat_list(tok):
    return [] if tok == "-" else [int(x) for x in tok.split(",")]


def lineage_of(tok):
    if tok == "-":
        return None
    out = []
    for p in tok.split(","):
        r, n = p.split(":")
        out.append(LineagePair(rank_name(int(r)), taxon(int(n))))
    return tuple(out)


def lineages_of(tok):
    return [] if tok == "-" else [lineage_of(t) for t in tok.split("|")]


def show_lineage(lin):
    if not lin:
        return "()"
    return ",".join(f"{rank_index(p.rank)}:{taxon_id(p.name)}" for p in lin)


def join_or(sep, xs):
    return sep.join(xs) if xs else "-"


def exc_name(e):
    import sqlite3
    if isinstance(e, sqlite3.Error):
        return "ProgrammingError"
    for cls in (NotImplementedError, KeyError, AttributeError, AssertionError, TypeError, ValueError):
        if isinstance(e, cls):
            return cls.__name__
    return type(e).__name__


def main():
    os.makedirs(TMPROOT, exist_ok=True)
    tmpdir = tempfile.mkdtemp(prefix="lca-", dir=TMPROOT)
    nfile = [0]
    S, D = {}, {}
    out = sys.stdout

    def close_all():
        for db in D.values():
            c = getattr(db, "conn", None)
            if c is not None:
                try:
                    c.close()
                except Exception:       # noqa: BLE001
                    pass

    try:
        for line in sys.stdin:
            w = line.split()
            if not w:
                out.write("bad-op\n")
                continue
            op, a = w[0], w[1:]
            try:
                if op == "#":
                    close_all()
                    S, D = {}, {}
                    out.write("#\n")
                    continue
                if op == "sig":
                    r, name, filename, scaled, num, ksize, hs = a[:7]
                    opts = dict(t.split("=", 1) for t in a[7:])
                    mol = int(opts.get("mol", 0))
                    mh = MinHash(int(num), int(ksize), scaled=int(scaled), is_protein=(mol == 1),
                                 dayhoff=(mol == 2), hp=(mol == 3))
                    mh.add_many(nat_list(hs))
                    ss = SourmashSignature(mh, name=name_of(name), filename=name_of(filename))
                    if "md5" in opts and opts["md5"] != ss.md5sum():
                        res = "err Md5Mismatch"          # the generator's md5 (what the model is given) must be the real one
                    else:
                        S[int(r)] = ss
                        res = "ok " + join_or(",", [str(h) for h in sorted(mh.hashes)])
                elif op == "db":
                    d, ksize, scaled = map(int, a[:3])
                    opts = dict(t.split("=", 1) for t in a[3:])
                    D[d] = LCA_Database(ksize, scaled, MOLTYPES[int(opts.get("mol", 0))])
                    res = "ok"
                elif op == "info":
                    db = D[int(a[0])]
                    res = f"ok ksize={db.ksize} scaled={db.scaled} mol={MOLTYPES.index(db.moltype)}"
                elif op == "ins":
                    d, r = int(a[0]), int(a[1])
                    ident = None if a[2] == "-" else name_of(a[2])
                    n = D[d].insert(S[r], ident=ident, lineage=lineage_of(a[3]))
                    res = f"ok {n}"
                elif op == "len":
                    res = f"ok {len(D[int(a[0])])}"
                elif op == "la":
                    d, h = int(a[0]), int(a[1])
                    mn = int(a[2]) if len(a) > 2 and int(a[2]) else None
                    lins = D[d].get_lineage_assignments(h, min_num=mn)
                    res = "ok " + join_or("|", sorted(show_lineage(x) for x in lins))
                elif op == "ids":
                    d, h = int(a[0]), int(a[1])
                    ids = list(D[d].get_identifiers_for_hashval(h))
                    res = "ok " + join_or(",", sorted(tok_of(i) if isinstance(i, str) else "set()" for i in ids))
                elif op == "hv":
                    hv = sorted(D[int(a[0])].hashvals)
                    res = "ok " + join_or(",", [str(h) for h in hv])
                elif op == "sigs":
                    # a reconstructed sketch must be AT the database's scaled (a cache surviving downsample_scaled
                    # keeps the old value: seeded C18b); the model never prints the marker
                    dsc = D[int(a[0])].scaled
                    items = [tok_of(ss.name) + ("" if ss.minhash.scaled == dsc else f"@scaled{ss.minhash.scaled}") + "="
                             + join_or(",", [str(h) for h in sorted(ss.minhash.hashes)])
                             for ss in D[int(a[0])].signatures()]
                    res = "ok " + join_or("|", sorted(items))
                elif op == "down":
                    d, sc = int(a[0]), int(a[1])
                    D[d].downsample_scaled(sc)
                    res = f"ok {D[d].scaled}"
                elif op in ("json", "sql"):
                    d, e = int(a[0]), int(a[1])
                    src = D[d]
                    if not isinstance(src, LCA_Database):
                        raise NotImplementedError
                    nfile[0] += 1
                    path = os.path.join(tmpdir, f"db{nfile[0]}.lca." + op)
                    try:
                        src.save(path, format=op)
                        new = LCA_Database.load(path)
                    finally:
                        if op == "json" and os.path.exists(path):
                            os.unlink(path)
                    if op == "json":
                        assert type(new) is LCA_Database
                    old = D.get(e)
                    if old is not None and getattr(old, "conn", None) is not None and old is not src:
                        old.conn.close()
                    D[e] = new
                    res = "ok"
                elif op == "lca":
                    lins = lineages_of(a[0])
                    r1 = lca_utils.find_lca(lca_utils.build_tree(lins))
                    r2 = LineageTree(lins).find_lca()
                    if tuple(r1[0]) != tuple(r2[0]) or r1[1] != r2[1]:
                        res = f"twins-disagree {show_lineage(r1[0])} {r1[1]} / {show_lineage(r2[0])} {r2[1]}"
                    else:
                        res = f"ok {show_lineage(r1[0])} {r1[1]}"
                elif op == "summ":
                    thr, ign = int(a[0]), bool(int(a[1]))
                    dbs = [D[i] for i in nat_list(a[2])]
                    hashvals = defaultdict(int)
                    if a[3] != "-":
                        for p in a[3].split(","):
                            h, c = p.split(":")
                            hashvals[int(h)] = int(c)
                    agg = summarize(hashvals, dbs, thr, ign)
                    res = "ok " + join_or("|", sorted(f"{show_lineage(k)}={v}" for k, v in agg.items()))
                elif op == "cls":
                    thr, maj = int(a[0]), bool(int(a[1]))
                    dbs = [D[i] for i in nat_list(a[2])]
                    mh = MinHash(0, 21, scaled=1)
                    mh.add_many(nat_list(a[3]))
                    lin, status = classify_signature(SourmashSignature(mh, name="q"), dbs, thr, maj)
                    res = f"ok {status} {show_lineage(lin)}"
                elif op == "index":
                    nfile[0] += 1
                    db, res = run_lca_index(tmpdir, nfile[0], a[1], [S[i] for i in nat_list(a[2])], a[3])
                    if db is not None:
                        D[int(a[0])] = db
                elif op == "pop":
                    lin = lineage_of(a[1]) or ()
                    res = "ok " + show_lineage(lca_utils.pop_to_rank(lin, rank_name(int(a[0]))))
                else:
                    res = "bad-op"
            except (IndexError, KeyError) as e:
                # a missing handle is a malformed op; a KeyError raised by the code under test is an observation
                import traceback
                tb = traceback.extract_tb(e.__traceback__)
                if isinstance(e, KeyError) and any("sourmash" in f.filename for f in tb):
                    res = "err KeyError"
                else:
                    res = "bad-op"
            except BaseException as e:          # noqa: BLE001
                res = "err " + exc_name(e)
            out.write(res + "\n")
        out.flush()
    finally:
        close_all()
        shutil.rmtree(tmpdir, ignore_errors=True)


if __name__ == "__main__":
    main()
