"""Real-code adapter for the `lca` stream (C18): executes each op line against the
sourmash package assembled from /repo's working tree and prints one canonical
observation per line.  Op list and token encodings: harness/streams/lca.py."""
import os
import shutil
import sys
import tempfile
from collections import defaultdict

import sourmash  # noqa: F401
from sourmash import MinHash, SourmashSignature
from sourmash.lca.lca_db import LCA_Database
from sourmash.lca import lca_utils
from sourmash.lca.command_summarize import summarize
from sourmash.lca.command_classify import classify_signature
from sourmash.tax.tax_utils import LineagePair, LineageTree

TAXLIST = list(lca_utils.taxlist())
MOLTYPES = ["DNA", "protein", "dayhoff", "hp"]
TMPROOT = os.environ.get("VERIF_TMP") or os.path.join(
    os.path.dirname(os.path.dirname(os.path.dirname(os.path.abspath(__file__)))), ".build", "tmp")


def rank_name(i):
    return TAXLIST[i] if i < len(TAXLIST) else f"rank{i}"


def rank_index(r):
    if r in TAXLIST:
        return TAXLIST.index(r)
    assert r.startswith("rank"), r
    return int(r[4:])


def taxon(n):
    return "" if n == 0 else ("unassigned" if n == 1000 else f"t{n}")


def taxon_id(s):
    if not s:          # "" or None
        return 0
    if s == "unassigned":
        return 1000
    assert s[0] == "t", s
    return int(s[1:])


def names_tok(names):
    return ".".join(str(taxon_id(x)) for x in names)


class CliFiles:
    "the files a CLI command is run on: databases are saved / located, query signatures written one per file"

    def __init__(self, tmpdir, n):
        self.d = os.path.join(tmpdir, f"cli{n}")
        os.makedirs(self.d)

    def db(self, i, db):
        if isinstance(db, LCA_Database):
            fn = os.path.join(self.d, f"db{i}.lca.json")
            db.save(fn)
            return fn
        return db.dbfile                      # a SQLite form: its own file (loaded afresh by the command)

    def sig(self, i, ss):
        fn = os.path.join(self.d, f"q{i}.sig")
        with open(fn, "w") as fp:
            sourmash.save_signatures([ss], fp)
        return fn


def run_main(argv, capture=False):
    "sourmash.__main__.main(argv) in process; returns (exit code or None, stdout text)"
    import contextlib
    import io
    from sourmash.__main__ import main as sm_main
    buf = io.StringIO()
    try:
        with contextlib.redirect_stdout(buf):
            sm_main(argv)
    except SystemExit as e:
        return e.code, buf.getvalue()
    return None, buf.getvalue()


def cli_db_args(files, dbs):
    "`--db a b` or `--db a --db b` (the option appends lists)"
    paths = [files.db(i, d) for i, d in enumerate(dbs)]
    if len(paths) > 1 and nxt(2):
        return [x for p in paths for x in ("--db", p)]
    return ["--db"] + paths


def cli_query_args(files, sigs):
    "`--query q1 q2`, `--query q1 --query q2`, `--query q1 --query-from-file <q2>`, or (one query: the list file is read as a set) `--query-from-file`"
    paths = [files.sig(i, s) for i, s in enumerate(sigs)]
    r = nxt(4)
    if r == 1 and len(paths) == 1:
        lst = os.path.join(files.d, "queries.txt")
        with open(lst, "w") as fp:
            fp.write(paths[0] + "\n")
        return ["--query-from-file", lst]
    if r == 3 and len(paths) > 1:
        # both options at once: the files of --query come first, then the one listed in the file
        lst = os.path.join(files.d, "queries.txt")
        with open(lst, "w") as fp:
            fp.write(paths[-1] + "\n")
        return ["--query"] + paths[:-1] + ["--query-from-file", lst]
    if r == 2 and len(paths) > 1:
        return [x for p in paths for x in ("--query", p)]
    return ["--query"] + paths


def run_cli_summarize(files, dbs, sigs, thr, scaled, ign):
    import csv as _csv
    out = os.path.join(files.d, "summ.csv")
    argv = ["lca", "summarize"] + cli_db_args(files, dbs) + cli_query_args(files, sigs) + \
        ["--threshold", str(thr), "-o", out]
    if scaled:
        argv += ["--scaled", str(scaled)]
    if ign:
        argv.append("--ignore-abundance")
    code, _ = run_main(argv)
    if code not in (None, 0):
        return f"exit {code}"
    blocks = {}
    order = []
    with open(out, newline="") as fp:
        r = _csv.reader(fp)
        rows = list(r)
    if rows:
        assert rows[0][0] == "count", rows[0]
    for row in rows[1:]:
        count, names, fn, total = row[0], row[1:9], row[9], row[12]
        if fn not in blocks:
            blocks[fn] = (int(float(total)), [])
            order.append(fn)
        blocks[fn][1].append(names_tok(names) + "=" + count)
    # queries without any row still count: one block per selected query, in file order
    res = []
    for i, ss in enumerate(sigs):
        fn = os.path.join(files.d, f"q{i}.sig")
        if fn in blocks:
            total, rws = blocks[fn]
            res.append(f"{tok_of(str(ss))}:{total}:{join_or('|', sorted(rws))}")
        else:
            res.append(None)
    return res


def run_cli_classify(files, dbs, sigs, thr, scaled, maj):
    import csv as _csv
    out = os.path.join(files.d, "cls.csv")
    argv = ["lca", "classify"] + cli_db_args(files, dbs) + cli_query_args(files, sigs) + \
        ["--threshold", str(thr), "-o", out]
    if scaled:
        argv += ["--scaled", str(scaled)]
    if maj:
        argv.append("--majority")
    code, _ = run_main(argv)
    if code not in (None, 0):
        return f"exit {code}"
    with open(out, newline="") as fp:
        rows = list(_csv.reader(fp))
    assert rows[0][:2] == ["ID", "status"], rows[0]
    return "ok " + join_or("/", [f"{tok_of(r[0])}:{r[1]}:{names_tok(r[2:10])}" for r in rows[1:]])


def run_cli_rankinfo(files, dbs, scaled, min_num):
    import re as _re
    argv = ["lca", "rankinfo"] + [files.db(i, d) for i, d in enumerate(dbs)] + ["--minimum-num", str(min_num)]
    if scaled:
        argv += ["--scaled", str(scaled)]
    code, text = run_main(argv)
    if code not in (None, 0):
        return f"exit {code}"
    counts = _re.findall(r"^(\w+): (\d+) \(", text, _re.M)
    if not counts:
        return "ok -"
    assert [c[0] for c in counts] == TAXLIST, counts
    return "ok " + ",".join(c[1] for c in counts)


def run_cli_compare(files, opts, csv1, csv2):
    import csv as _csv
    paths = []
    for k, tokn in enumerate((csv1, csv2)):
        fn = os.path.join(files.d, f"cmp{k}.csv")
        with open(fn, "w", newline="") as fp:
            w = _csv.writer(fp)
            if tokn != "-":
                for r in tokn.split("/"):
                    w.writerow([] if r == "!" else [c.replace("~", " ").replace("^", "\t") for c in r.split(";")])
        paths.append(fn)
    ws = opts.split(",")
    num = lambda pre, dflt: next((int(x[len(pre):]) for x in ws if x.startswith(pre) and x[len(pre):].isdigit()), dflt)
    argv = ["lca", "compare_csv"] + paths + ["-C", str(num("C", 2))]
    if "nh" in ws:
        argv.append("--no-headers")
    if "f" in ws:
        argv.append("-f")
    code, text = run_main(argv)
    if code not in (None, 0):
        return f"exit {code}"
    rows = []
    for line in text.splitlines():
        ident, verdict, lin = line.split(",", 2)
        rows.append(f"{tok_of(ident)},{verdict},{names_tok(lin.split(';'))}")
    return "ok " + join_or("|", sorted(rows))


def run_lca_index(tmpdir, n, opts, sigs, csvtok):
    """`sourmash lca index` through the real argument parser, one signature per file, --report always given;
    returns (loaded database or None, observation)"""
    import csv as _csv
    import re as _re
    from sourmash.cli import get_parser
    from sourmash.lca.command_index import index as lca_index
    d = os.path.join(tmpdir, f"index{n}")
    os.makedirs(d)
    files = []
    for i, ss in enumerate(sigs):
        fn = os.path.join(d, f"sig{i}.sig")
        with open(fn, "w") as fp:
            sourmash.save_signatures([ss], fp)
        files.append(fn)
    csvfn = os.path.join(d, "tax.csv")
    with open(csvfn, "w", newline="") as fp:
        w = _csv.writer(fp)
        if csvtok != "-":
            for r in csvtok.split("/"):
                w.writerow([] if r == "!" else [c.replace("~", " ").replace("^", "\t") for c in r.split(";")])
    ws = opts.split(",")
    num = lambda pre, dflt: next((int(x[len(pre):]) for x in ws if x.startswith(pre) and x[len(pre):].isdigit()), dflt)
    mol = num("m", 0)
    out = os.path.join(d, "out.lca.json")
    rep = os.path.join(d, "report.txt")
    argv = ["lca", "index", csvfn, out] + files + ["-k", str(num("k", 21)), "--scaled", str(num("s", 1)),
                                                    "-C", str(num("C", 2)), "--report", rep, "-q"]
    argv += {0: ["--dna"], 1: ["--protein"], 2: ["--dayhoff"], 3: ["--hp"]}[mol]
    for flag, arg in (("nh", "--no-headers"), ("f", "-f"), ("si", "--split-identifiers"),
                      ("kv", "--keep-identifier-versions"), ("rt", "--require-taxonomy"),
                      ("fm", "--fail-on-missing-taxonomy")):
        if flag in ws:
            argv.append(arg)
    args = get_parser().parse_args(argv)
    try:
        lca_index(args)
    except SystemExit as e:
        return None, f"exit {e.code}"
    db = LCA_Database.load(out)
    if os.path.exists(rep):
        txt = open(rep).read()
        nums = [_re.search(pat + r": (\d+)", txt).group(1) for pat in
                ("Duplicate signatures", "Unused identifiers", "No lineage provided for these identifiers",
                 "No signatures found for these identifiers", "Unused lineages")]
        return db, "ok report=" + ",".join(nums)
    return db, "ok report=-"


def name_of(tok):
    return "" if tok == "-" else tok.replace("~", " ").replace("^", "\t")


def tok_of(s):
    return "-" if s == "" else s.replace(" ", "~").replace("\t", "^")


def nat_list(tok):
    return [] if tok == "-" else [int(x) for x in tok.split(",")]


def lineage_of(tok):
    if tok == "-":
        return None
    out = []
    for p in tok.split(","):
        r, n = p.split(":")
        out.append(LineagePair(rank_name(int(r)), taxon(int(n))))
    return tuple(out)


def lineages_of(tok):
    return [] if tok == "-" else [lineage_of(t) for t in tok.split("|")]


def show_lineage(lin):
    if not lin:
        return "()"
    return ",".join(f"{rank_index(p.rank)}:{taxon_id(p.name)}" for p in lin)


def join_or(sep, xs):
    return sep.join(xs) if xs else "-"


def exc_name(e):
    import sqlite3
    if isinstance(e, sqlite3.Error):
        return "ProgrammingError"
    for cls in (NotImplementedError, KeyError, AttributeError, AssertionError, TypeError, ValueError):
        if isinstance(e, cls):
            return cls.__name__
    return type(e).__name__


# --------------------------------------------------------------------------
# one modelled operation, several routes: a per-case counter the model does not see picks the spelling

ROUTE = [0]


def nxt(n):
    ROUTE[0] += 1
    return ROUTE[0] % n


def is_sql(db):
    return not isinstance(db, LCA_Database)


def la_answer(db, h, mn, route):
    "get_lineage_assignments through the method (keyword / positional) or straight from the tables"
    if route == 1 and not is_sql(db):
        return db.get_lineage_assignments(h, mn)
    if route == 2 and mn is None:
        if is_sql(db):
            idxs = db.hashval_to_idx.get(h, [])
            return [db.lid_to_lineage[db.idx_to_lid[i]] for i in idxs if i in db.idx_to_lid]
        idxs = db._hashval_to_idx.get(h, [])
        return [db._lid_to_lineage[db._idx_to_lid[i]] for i in idxs if i in db._idx_to_lid]
    return db.get_lineage_assignments(h, min_num=mn)


def ids_answer(db, h, route):
    if route == 1:
        if is_sql(db):
            return [db.idx_to_ident[i] for i in db.hashval_to_idx.get(h, [])]
        return [db._idx_to_ident[i] for i in db._hashval_to_idx.get(h, [])]
    if route == 2 and is_sql(db):
        try:
            return [db.idx_to_ident[i] for i in db.hashval_to_idx[h]]      # __getitem__: KeyError when absent
        except KeyError:
            return []
    return list(db.get_identifiers_for_hashval(h))


def sigs_answer(db, route):
    if route == 1:
        out = []
        for ss, loc in db.signatures_with_location():
            assert loc == db.location, (loc, db.location)
            out.append(ss)
        return out
    if route == 2 and not is_sql(db):
        return [ss for ss, _ in db._signatures_with_internal()]
    return list(db.signatures())


def read_op(D, op, a, route, keep=None):
    "the read-only operations: a canonical observation string"
    db = D[int(a[0])]
    if op == "info":
        return f"ok ksize={db.ksize} scaled={db.scaled} mol={MOLTYPES.index(db.moltype)}"
    if op == "len":
        return f"ok {len(db)}"
    if op == "la":
        h = int(a[1])
        mn = int(a[2]) if len(a) > 2 and int(a[2]) else None
        lins = la_answer(db, h, mn, route)
        return "ok " + join_or("|", sorted(show_lineage(x) for x in lins))
    if op == "ids":
        ids = ids_answer(db, int(a[1]), route)
        return "ok " + join_or(",", sorted(tok_of(i) if isinstance(i, str) else "set()" for i in ids))
    if op == "hv":
        return "ok " + join_or(",", [str(h) for h in sorted(db.hashvals)])
    if op == "sigs":
        # a reconstructed sketch must be AT the database's scaled (a cache surviving downsample_scaled
        # keeps the old value: seeded C18b); the model prints the marker only for the documented SQLite case
        dsc = db.scaled
        sigs = sigs_answer(db, route)
        if keep is not None:
            keep.extend((ss, ss.name, tuple(sorted(ss.minhash.hashes)), ss.minhash.scaled) for ss in sigs)
        items = [tok_of(ss.name) + ("" if ss.minhash.scaled == dsc else f"@scaled{ss.minhash.scaled}") + "="
                 + join_or(",", [str(h) for h in sorted(ss.minhash.hashes)]) for ss in sigs]
        return "ok " + join_or("|", sorted(items))
    raise KeyError(op)


READ_OPS = ("info", "len", "la", "ids", "hv", "sigs")


def views(db):
    """whatever can be read about a database through two routes must agree; returns '' or what disagrees"""
    bad = []
    sigs = list(db.signatures())
    if len(db) != len(sigs):
        bad.append(f"len={len(db)} but signatures() yields {len(sigs)}")
    union = set()
    for ss in sigs:
        union.update(ss.minhash.hashes)
    hv = list(db.hashvals)
    if len(hv) != len(set(hv)):
        bad.append("hashvals has duplicates")
    if set(hv) != union:
        bad.append(f"hashvals {sorted(set(hv) ^ union)[:4]} not the union of the sketches")
    if is_sql(db):
        if len(db) != len(db.manifest):
            bad.append("len != len(manifest)")
        for idx, lid in db.idx_to_lid.items():
            if lid not in db.lid_to_lineage:
                bad.append("idx_to_lid points to an unknown lid")
    else:
        if db._next_index != len(db._ident_to_idx) or len(db) != db._next_index:
            bad.append("len / _next_index / _ident_to_idx disagree")
        if set(db._ident_to_idx) != set(db._ident_to_name):
            bad.append("_ident_to_idx and _ident_to_name have different identifiers")
        for ident, idx in db._ident_to_idx.items():
            if db._idx_to_ident[idx] != ident:
                bad.append("_idx_to_ident is not the inverse of _ident_to_idx")
        l2i = db._lid_to_idx
        for idx, lid in db._idx_to_lid.items():
            if lid not in db._lid_to_lineage:
                bad.append("_idx_to_lid points to an unknown lid")
            if idx not in l2i[lid]:
                bad.append("_lid_to_idx misses an idx")
        if sum(len(v) for v in l2i.values()) != len(db._idx_to_lid):
            bad.append("_lid_to_idx is not the inverse of _idx_to_lid")
        for lin, lid in db._lineage_to_lid.items():
            if db._lid_to_lineage[lid] != lin:
                bad.append("_lineage_to_lid / _lid_to_lineage disagree")
        for h, idxs in db._hashval_to_idx.items():
            if not idxs:
                bad.append("an empty idx set in _hashval_to_idx")
            if not set(idxs) <= set(db._idx_to_ident):
                bad.append("_hashval_to_idx names an unknown idx")
        names = sorted(ss.name for ss in sigs)
        if names != sorted(db._ident_to_name.values()):
            bad.append("signature names differ from _ident_to_name")
    return "; ".join(bad[:2])


def main():
    os.makedirs(TMPROOT, exist_ok=True)
    tmpdir = tempfile.mkdtemp(prefix="lca-", dir=TMPROOT)
    nfile = [0]
    S, D = {}, {}
    out = sys.stdout
    EPOCH = {}          # db handle -> number of mutations seen
    LOG = []            # (db handle, epoch, op, args, observation) of every read op of the case
    KEPT = []           # (signature object, name, hashes, scaled) of every signature a `sigs` op returned

    def recheck():
        "histories, not calls: every object handed out keeps its content; every answer is reproducible"
        for ss, name, hs, sc in KEPT:
            if ss.name != name or tuple(sorted(ss.minhash.hashes)) != hs or ss.minhash.scaled != sc:
                return f"stale signature-object-changed {tok_of(name)}"
        for d, ep, op_, a_, obs in reversed(LOG[-80:]):
            if d in D and EPOCH.get(d, 0) == ep:
                again = read_op(D, op_, a_, nxt(3))
                if again != obs:
                    return f"stale `{op_} {' '.join(a_)}` answered {obs[:60]} then {again[:60]}"
        return "ok"

    def close_all():
        for db in D.values():
            c = getattr(db, "conn", None)
            if c is not None:
                try:
                    c.close()
                except Exception:       # noqa: BLE001
                    pass

    try:
        for line in sys.stdin:
            w = line.split()
            if not w:
                out.write("bad-op\n")
                continue
            op, a = w[0], w[1:]
            try:
                if op == "#":
                    close_all()
                    S, D = {}, {}
                    ROUTE[0] = 0
                    EPOCH.clear()
                    del LOG[:]
                    del KEPT[:]
                    out.write("#\n")
                    continue
                if op == "recheck":
                    out.write(recheck() + "\n")
                    continue
                if op == "sig":
                    r, name, filename, scaled, num, ksize, hs = a[:7]
                    opts = dict(t.split("=", 1) for t in a[7:])
                    mol = int(opts.get("mol", 0))
                    mh = MinHash(int(num), int(ksize), scaled=int(scaled), is_protein=(mol == 1),
                                 dayhoff=(mol == 2), hp=(mol == 3))
                    if opts.get("ab") == "1":             # an abundance sketch: hash h has abundance h % 5 + 1
                        mh = MinHash(int(num), int(ksize), scaled=int(scaled), is_protein=(mol == 1),
                                     dayhoff=(mol == 2), hp=(mol == 3), track_abundance=True)
                        mh.set_abundances({h: h % 5 + 1 for h in nat_list(hs)})
                    else:
                        mh.add_many(nat_list(hs))
                    ss = SourmashSignature(mh, name=name_of(name), filename=name_of(filename))
                    if "md5" in opts and opts["md5"] != ss.md5sum():
                        res = "err Md5Mismatch"          # the generator's md5 (what the model is given) must be the real one
                    else:
                        S[int(r)] = ss
                        res = "ok " + join_or(",", [str(h) for h in sorted(mh.hashes)])
                elif op == "db":
                    d, ksize, scaled = map(int, a[:3])
                    opts = dict(t.split("=", 1) for t in a[3:])
                    D[d] = LCA_Database(ksize, scaled, MOLTYPES[int(opts.get("mol", 0))])
                    res = "ok"
                elif op in READ_OPS:
                    d = int(a[0])
                    res = read_op(D, op, a, nxt(3), keep=KEPT)
                    again = read_op(D, op, a, nxt(3))          # read-only entry points, twice, by another route
                    if again != res:
                        res = f"twice-differs {res[:80]} / {again[:80]}"
                    else:
                        LOG.append((d, EPOCH.get(d, 0), op, list(a), res))
                    if op in ("sigs", "len", "hv") and res.startswith("ok"):
                        v = views(D[d])
                        if v:
                            res = "views-disagree " + v
                elif op == "ins":
                    d, r = int(a[0]), int(a[1])
                    ident = None if a[2] == "-" else name_of(a[2])
                    lin = lineage_of(a[3])
                    EPOCH[d] = EPOCH.get(d, 0) + 1
                    route = nxt(4)
                    if route == 1:
                        n = D[d].insert(S[r], ident, lin)                       # positional
                    elif route == 2:
                        n = D[d].insert(S[r], ident=(ident or ""), lineage=(list(lin) if lin else []))
                    elif route == 3 and ident is None:
                        n = D[d].insert(S[r], lineage=lin)                      # defaults
                    else:
                        n = D[d].insert(S[r], ident=ident, lineage=lin)
                    res = f"ok {n}"
                    v = views(D[d])
                    if v:
                        res = "views-disagree " + v
                elif op == "down":
                    d, sc = int(a[0]), int(a[1])
                    EPOCH[d] = EPOCH.get(d, 0) + 1
                    D[d].downsample_scaled(sc)
                    res = f"ok {D[d].scaled}"
                    v = views(D[d])
                    if v:
                        res = "views-disagree " + v
                elif op in ("json", "sql"):
                    d, e = int(a[0]), int(a[1])
                    src = D[d]
                    if not isinstance(src, LCA_Database):
                        src.insert(None)                                        # read-only twin: NotImplementedError
                    nfile[0] += 1
                    EPOCH[e] = EPOCH.get(e, 0) + 1
                    from sourmash.lca.lca_db import load_single_database, load_databases
                    from sourmash.index.sqlite_index import LCA_SqliteDatabase
                    if op == "json":
                        path = os.path.join(tmpdir, f"db{nfile[0]}.lca.json" + (".gz" if nxt(2) else ""))
                        [lambda: src.save(path), lambda: src.save(path, format="json"), lambda: src.save_to_json(path)][nxt(3)]()
                        try:
                            new = [lambda: LCA_Database.load(path), lambda: load_single_database(path)[0],
                                   lambda: load_databases([path], verbose=False)[0][0],
                                   lambda: sourmash.load_file_as_index(path)][nxt(4)]()
                        finally:
                            if os.path.exists(path):
                                os.unlink(path)
                        assert type(new) is LCA_Database
                        if nxt(2):
                            # select() with the database's own parameters is the database itself, and changes nothing
                            assert new.select(ksize=new.ksize, moltype=new.moltype, containment=True) is new
                            assert os.path.basename(path) in repr(new), repr(new)
                    else:
                        path = os.path.join(tmpdir, f"db{nfile[0]}.lca.sql")
                        [lambda: src.save(path, format="sql"), lambda: src.save_to_sql(path)][nxt(2)]()
                        new = [lambda: LCA_Database.load(path), lambda: LCA_SqliteDatabase.load(path),
                               lambda: sourmash.load_file_as_index(path),
                               lambda: LCA_Database.load(path).select(ksize=src.ksize)][nxt(4)]()
                        assert type(new) is LCA_SqliteDatabase, type(new)
                    old = D.get(e)
                    if old is not None and getattr(old, "conn", None) is not None and old is not src:
                        old.conn.close()
                    D[e] = new
                    res = "ok"
                    v = views(new)
                    if v:
                        res = "views-disagree " + v
                elif op == "lca":
                    lins = lineages_of(a[0])
                    route = nxt(3)
                    if route == 1 and lins:
                        tree = {}                                   # grown one lineage at a time (`initial=`)
                        for l in lins:
                            lca_utils.build_tree([l], tree)
                        r1 = lca_utils.find_lca(tree)
                    else:
                        r1 = lca_utils.find_lca(lca_utils.build_tree(lins))
                    positional = lins and all(len(l) <= len(TAXLIST) and [p.rank for p in l] == TAXLIST[:len(l)] for l in lins)
                    if route == 2 and positional and all(l for l in lins):
                        from sourmash.tax.tax_utils import RankLineageInfo
                        r2 = LineageTree([RankLineageInfo(lineage=l) for l in lins]).find_lca()
                    else:
                        r2 = LineageTree(lins).find_lca()
                    if tuple(r1[0]) != tuple(r2[0]) or r1[1] != r2[1]:
                        res = f"twins-disagree {show_lineage(r1[0])} {r1[1]} / {show_lineage(r2[0])} {r2[1]}"
                    else:
                        res = f"ok {show_lineage(r1[0])} {r1[1]}"
                elif op == "summ":
                    thr, ign = int(a[0]), bool(int(a[1]))
                    dbs = [D[i] for i in nat_list(a[2])]
                    hashvals = defaultdict(int)
                    if a[3] != "-":
                        for p in a[3].split(","):
                            h, c = p.split(":")
                            hashvals[int(h)] = int(c)
                    if nxt(2):
                        hashvals = dict(hashvals)                   # a plain dict works as well as the defaultdict
                    agg = summarize(hashvals, dbs, thr, ign)
                    res = "ok " + join_or("|", sorted(f"{show_lineage(k)}={v}" for k, v in agg.items()))
                elif op == "cls":
                    thr, maj = int(a[0]), bool(int(a[1]))
                    dbs = [D[i] for i in nat_list(a[2])]
                    mh = MinHash(0, 21, scaled=1)
                    mh.add_many(nat_list(a[3]))
                    lin, status = classify_signature(SourmashSignature(mh, name="q"), dbs, thr, maj)
                    res = f"ok {status} {show_lineage(lin)}"
                elif op == "index":
                    nfile[0] += 1
                    db, res = run_lca_index(tmpdir, nfile[0], a[1], [S[i] for i in nat_list(a[2])], a[3])
                    if db is not None:
                        D[int(a[0])] = db
                elif op == "clisumm":
                    nfile[0] += 1
                    files = CliFiles(tmpdir, nfile[0])
                    dbs = [D[i] for i in nat_list(a[0])]
                    sigs = [S[i] for i in nat_list(a[1])]
                    r = run_cli_summarize(files, dbs, sigs, int(a[2]), int(a[3]), bool(int(a[4])))
                    if isinstance(r, str):
                        res = r
                    else:
                        # a selected query without rows still has a block (total, no rows): the CSV cannot show it,
                        # so blocks are printed for the queries that produced rows; the model does the same
                        res = "ok " + join_or("/", [b for b in r if b is not None])
                elif op == "clicls":
                    nfile[0] += 1
                    files = CliFiles(tmpdir, nfile[0])
                    res = run_cli_classify(files, [D[i] for i in nat_list(a[0])], [S[i] for i in nat_list(a[1])],
                                           int(a[2]), int(a[3]), bool(int(a[4])))
                elif op == "clirank":
                    nfile[0] += 1
                    files = CliFiles(tmpdir, nfile[0])
                    res = run_cli_rankinfo(files, [D[i] for i in nat_list(a[0])], int(a[1]), int(a[2]))
                elif op == "clicmp":
                    nfile[0] += 1
                    res = run_cli_compare(CliFiles(tmpdir, nfile[0]), a[0], a[1], a[2])
                elif op == "taxdb":
                    from sourmash.tax.tax_utils import LineageDB, LineageDB_Sqlite, MultiLineageDB
                    import csv as _csv
                    nfile[0] += 1
                    mdb = MultiLineageDB()
                    for t in a[1:]:
                        asg = {}
                        ranks = set()
                        if t != "-":
                            for e in t.split("/"):
                                i, l = e.split("=")
                                lin = lineage_of(l) or ()
                                asg[name_of(i)] = lin
                                ranks.update(p.rank for p in lin)
                        mdb.add(LineageDB(asg, ranks))
                    if a[0] == "sql":
                        fn = os.path.join(tmpdir, f"tax{nfile[0]}.db")
                        mdb.save(fn, "sql")
                        ldb = LineageDB_Sqlite.load(fn)
                        rows = sorted(tok_of(i) + "=" + show_lineage(ldb[i]) for i in ldb)
                        assert len(list(ldb.items())) == len(ldb) and bool(ldb) == (len(ldb) > 0)
                        rk = sorted(rank_index(r) for r in ldb.available_ranks)
                        res = f"ok n={len(ldb)} ranks={join_or(',', [str(r) for r in rk])} " + join_or("|", rows)
                        ldb.conn.close()
                    else:
                        fn = os.path.join(tmpdir, f"tax{nfile[0]}.csv")
                        mdb.save(fn, "csv")
                        with open(fn, newline="") as fp:
                            rr = list(_csv.reader(fp))
                        assert rr[0] == ["identifiers"] + TAXLIST, rr[0]
                        res = "ok " + join_or("|", sorted(tok_of(r[0]) + "=" + names_tok(r[1:]) for r in rr[1:]))
                elif op == "rlca":
                    from sourmash.tax.tax_utils import RankLineageInfo
                    la_, lb_ = lineage_of(a[0]) or (), lineage_of(a[1]) or ()
                    r = RankLineageInfo(lineage=la_).find_lca(RankLineageInfo(lineage=lb_))
                    res = "ok none" if r is None else "ok " + show_lineage(r.filled_lineage)
                elif op == "match":
                    res = f"ok {lca_utils.is_lineage_match(lineage_of(a[1]) or (), lineage_of(a[2]) or (), rank_name(int(a[0])))}"
                elif op == "mklin":
                    names = [taxon(int(x)) for x in nat_list(a[0])]
                    sep = ";" if len(names) > 1 and int(a[0].split(",")[0]) % 2 else ","
                    res = "ok " + show_lineage(lca_utils.make_lineage(sep.join(names)))
                elif op == "disp":
                    lin = lineage_of(a[0]) or ()
                    names = lca_utils.zip_lineage(lin, truncate_empty=True)
                    assert lca_utils.display_lineage(lin) == ";".join(names)
                    res = "ok " + names_tok(names)
                elif op == "pop":
                    lin = lineage_of(a[1]) or ()
                    res = "ok " + show_lineage(lca_utils.pop_to_rank(lin, rank_name(int(a[0]))))
                else:
                    res = "bad-op"
            except (IndexError, KeyError) as e:
                if os.environ.get("LCA_TRACE"):
                    import traceback; traceback.print_exc()
                # a missing handle is a malformed op; a KeyError raised by the code under test is an observation
                import traceback
                tb = traceback.extract_tb(e.__traceback__)
                if isinstance(e, KeyError) and any("sourmash" in f.filename for f in tb):
                    res = "err KeyError"
                else:
                    res = "bad-op"
            except BaseException as e:          # noqa: BLE001
                if os.environ.get("LCA_TRACE"):
                    import traceback; traceback.print_exc()
                res = "err " + exc_name(e)
            out.write(res + "\n")
        out.flush()
    finally:
        close_all()
        shutil.rmtree(tmpdir, ignore_errors=True)


if __name__ == "__main__":
    main()
