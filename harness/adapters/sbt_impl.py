"""Real-code adapter for the `sbt` stream (C13): one SBT, one Python-API-level operation per
line, against the sourmash package assembled from /repo's working tree (on PYTHONPATH).

`save(sparseness=...)` draws `random()` once per internal node, in `_nodes` dict order; the
adapter replaces `sourmash.sbt.random` for the duration of the save by a function that
returns, for the k-th internal node, a value determined by that node's POSITION
(`draw(seed, pos) / 1000`), so that the set of omitted nodes is the function of
(sparseness, seed) that the model computes -- everything else in save/load runs unmodified.
Index versions 3-5 are produced by rewriting the version-6 JSON the way the old writers laid
it out (v5: "leaves" key; v4/v3: leaves and internal nodes in one "nodes" table; v3: no
`min_n_below` metadata).
"""
import json
import os
import shutil
import sys
import tempfile

import sourmash
import sourmash.logging
import sourmash.sbt as sbtmod
from sourmash import MinHash, SourmashSignature
from sourmash.sbt import SBT, GraphFactory
from sourmash.sbtmh import load_sbt_index
from sourmash.nodegraph import Nodegraph

sourmash.logging.set_quiet(True, True)

TMP = os.path.join(os.path.dirname(os.path.dirname(os.path.dirname(os.path.abspath(__file__)))), ".build", "tmp")
os.makedirs(TMP, exist_ok=True)


def draw(seed, pos):
    return 1 + (pos * 7919 + seed * 104729 + 17) % 999


def mk_sig(ident, hashes, scaled=1):
    mh = MinHash(0, 21, scaled=scaled)
    mh.add_many(hashes)
    return SourmashSignature(mh, name=str(ident))


def ancestors(d, p):
    out = []
    while p != 0:
        p = (p - 1) // d
        out.append(p)
    return out


def dump(t):
    d = t.d
    leaves = {}
    for p, leaf in t._leaves.items():
        sig = leaf.data
        leaves[p] = (sig.name, list(sig.minhash.hashes))
    below = {}
    for p in leaves:
        for a in ancestors(d, p):
            below.setdefault(a, []).append(p)
    out = []
    for p in sorted(set(t._nodes) | set(t._leaves) | set(t._missing_nodes)):
        kinds = ("L" if p in t._leaves else "") + ("N" if p in t._nodes else "") + ("M" if p in t._missing_nodes else "")
        s = f"{p}:{kinds}"
        if p in t._leaves:
            s += f":{leaves[p][0]}:{len(leaves[p][1])}"
        if p in t._nodes:
            n = t._nodes[p]
            ng = n.data
            bl = below.get(p, [])
            cov = sum(1 for q in bl if all(ng.get(h) for h in leaves[q][1]))
            m = n.metadata.get("min_n_below")
            s += f":{'-' if m is None else m}:{ng.n_occupied()}:{cov}/{len(bl)}"
        out.append(s)
    return "ok " + " ".join(out)


class Ctx:
    def __init__(self):
        self.tree = None
        self.scaled = 1
        self.dirs = []
        self.n = 0
        self.saved = None

    def reset(self):
        self.tree = None
        self.saved = None
        for d in self.dirs:
            shutil.rmtree(d, ignore_errors=True)
        self.dirs = []

    def saveas(self, sp, seed, fmt):
        """save the tree in use to ANOTHER location and keep using it"""
        t = self.tree
        tmp = tempfile.mkdtemp(prefix="c13_", dir=TMP)
        self.dirs.append(tmp)
        if fmt == 2:
            tmp = os.path.join(tmp, "elsewhere", "deeper")
            os.makedirs(tmp)
        path = os.path.join(tmp, "s.sbt.zip" if fmt == 0 else "s.sbt.json")
        it = iter([draw(seed, pos) / 1000.0 for pos in t._nodes])
        orig = sbtmod.random
        sbtmod.random = lambda: next(it)
        try:
            t.save(path, sparseness=sp / 1000.0)
        finally:
            sbtmod.random = orig
        self.saved = path

    def legacy(self, tmp, path, ver):
        """rewrite the version-6 FS save into the version-1 / version-2 container: file names relative to
        the index (inside the hidden directory), no factory/storage record, no metadata on internal nodes,
        the root's filter file uncompressed (its header is parsed by extract_nodegraph_info);
        version 1 is a plain list indexed by position"""
        import gzip
        info = json.load(open(path))
        sub = info["storage"]["args"]["path"]
        nodes = {}
        for k, v in info["nodes"].items():
            nodes[k] = {"name": v["name"], "filename": os.path.join(sub, v["filename"])}
        for k, v in info["signatures"].items():
            nodes[k] = {"name": v["name"], "metadata": v["metadata"], "filename": os.path.join(sub, v["filename"])}
        if "0" in nodes:
            rootf = os.path.join(tmp, nodes["0"]["filename"])
            raw = open(rootf, "rb").read()
            if raw[:2] == b"\x1f\x8b":
                open(rootf, "wb").write(gzip.decompress(raw))
        if ver == 2:
            out = {"d": info["d"], "version": 2, "nodes": nodes}
        else:
            top = max(int(k) for k in nodes) if nodes else -1
            out = [nodes.get(str(i)) for i in range(top + 1)]
        with open(path, "w") as f:
            json.dump(out, f)
        return path

    def saveload(self, sp, seed, ver, cache):
        t = self.tree
        tmp = tempfile.mkdtemp(prefix="c13_", dir=TMP)
        self.dirs.append(tmp)
        if ver == 1 and t.d != 2:
            raise KeyError          # ill-formed op: the version-1 container has no `d`
        use_zip = (ver == 6 and seed % 2 == 0)
        path = os.path.join(tmp, "t.sbt.zip" if use_zip else "t.sbt.json")
        draws = [draw(seed, pos) / 1000.0 for pos in t._nodes]
        it = iter(draws)
        orig = sbtmod.random
        sbtmod.random = lambda: next(it)
        try:
            t.save(path, sparseness=sp / 1000.0)
        finally:
            sbtmod.random = orig
        if ver <= 2:
            path = self.legacy(tmp, path, ver)
        elif ver != 6:
            info = json.load(open(path))
            assert info["version"] == 6
            info["version"] = ver
            sigs = info.pop("signatures")
            if ver == 5:
                info["leaves"] = sigs
            else:
                nodes = info["nodes"]
                for k, v in sigs.items():
                    assert k not in nodes
                    nodes[k] = v
                if ver == 3:
                    for k, v in nodes.items():
                        if "internal" in v["name"] and isinstance(v.get("metadata"), dict):
                            v["metadata"].pop("min_n_below", None)
            with open(path, "w") as f:
                json.dump(info, f)
        self.tree = load_sbt_index(path, print_version_warning=False, cache_size=(cache or None))


def exc_name(e):
    return type(e).__name__


def main():
    ctx = Ctx()
    out = sys.stdout
    try:
        for line in sys.stdin:
            w = line.split()
            if not w:
                out.write("bad-op\n")
                continue
            op, a = w[0], w[1:]
            try:
                if op == "#":
                    ctx.reset()
                    out.write("#\n")
                    continue
                if op == "new":
                    d, bf, nt = map(int, a[:3])
                    sc = int(a[3]) if len(a) == 4 else 1
                    if bf == 0 or sc == 0 or len(a) > 4:
                        raise KeyError
                    ctx.scaled = sc
                    ctx.tree = SBT(GraphFactory(1, bf, nt), d=d)
                    res = "ok sizes=" + ",".join(str(x) for x in Nodegraph(1, bf, nt).hashsizes())
                elif ctx.tree is None:
                    res = "bad-op"
                elif op == "ins":
                    ident = int(a[0])
                    hs = [int(x) for x in a[1:]]
                    t = ctx.tree
                    t.insert(mk_sig(ident, hs, ctx.scaled))
                    pos = [p for p, l in t._leaves.items() if l.data.name == str(ident)]
                    res = f"ok n={len(t._leaves)} pos={pos[0] if pos else '-'}"
                elif op == "dump":
                    if a:
                        raise KeyError
                    res = dump(ctx.tree)
                elif op == "probe":
                    t = ctx.tree
                    mh = MinHash(0, 21, scaled=1)
                    mh.add_many([int(x) for x in a])
                    res = "ok " + " ".join(f"{p}={t._nodes[p].data.matches(mh)}" for p in sorted(t._nodes))
                elif op == "saveload":
                    sp, seed, ver, cache = map(int, a)
                    if ver < 1 or ver > 6:
                        raise KeyError
                    ctx.saveload(sp, seed, ver, cache)
                    res = "ok"
                elif op == "saveas":
                    sp, seed, fmt = map(int, a)
                    if fmt not in (0, 1, 2):
                        raise KeyError
                    ctx.saveas(sp, seed, fmt)
                    res = "ok"
                elif op == "checksaved":
                    (cache,) = map(int, a)
                    if ctx.saved is None:
                        raise KeyError
                    res = dump(load_sbt_index(ctx.saved, print_version_warning=False, cache_size=(cache or None)))
                elif op == "search":
                    c, thr = int(a[0]), int(a[1])
                    if c not in (0, 1):
                        raise KeyError
                    q = mk_sig("q", [int(x) for x in a[2:]], ctx.scaled)
                    r = ctx.tree.search(q, threshold=thr / 1000.0, do_containment=bool(c))
                    res = "ok " + ",".join(str(x) for x in sorted(int(m.signature.name) for m in r))
                elif op == "searchs":
                    c, thr, sq = int(a[0]), int(a[1]), int(a[2])
                    if c not in (0, 1, 2) or sq == 0:
                        raise KeyError
                    q = mk_sig("q", [int(x) for x in a[3:]], sq)
                    r = ctx.tree.search(q, threshold=thr / 1000.0, do_containment=(c == 1), do_max_containment=(c == 2))
                    res = "ok " + ",".join(str(x) for x in sorted(int(m.signature.name) for m in r))
                elif op == "select":
                    ks, sc, cont = map(int, a)
                    if cont not in (0, 1):
                        raise KeyError
                    ctx.tree.select(ksize=ks, scaled=sc, containment=bool(cont))
                    res = "ok"
                elif op == "rebuild":
                    (p,) = map(int, a)
                    ctx.tree._rebuild_node(p)
                    res = "ok"
                elif op == "rebuildm":
                    (k,) = map(int, a)
                    ms = sorted(ctx.tree._missing_nodes)
                    if ms:
                        ctx.tree._rebuild_node(ms[k % len(ms)])
                    res = "ok"
                elif op == "fillint":
                    if a:
                        raise KeyError
                    ctx.tree._fill_internal()
                    res = "ok"
                elif op == "fillmin":
                    if a:
                        raise KeyError
                    ctx.tree._fill_min_n_below()
                    res = "ok"
                else:
                    res = "bad-op"
            except (KeyError, IndexError) as e:
                # ill-formed op lines raise KeyError/ValueError before touching the tree; a KeyError
                # from inside the tree code is reported as an error of the implementation
                import traceback
                tb = traceback.extract_tb(e.__traceback__)
                inside = any("sourmash" in (fr.filename or "") for fr in tb)
                res = ("err " + exc_name(e)) if inside else "bad-op"
            except ValueError as e:
                import traceback
                tb = traceback.extract_tb(e.__traceback__)
                inside = any("sourmash" in (fr.filename or "") for fr in tb)
                res = ("err " + exc_name(e)) if inside else "bad-op"
            except BaseException as e:      # noqa: BLE001
                res = "err " + exc_name(e)
            out.write(res + "\n")
        out.flush()
    finally:
        ctx.reset()


if __name__ == "__main__":
    main()
