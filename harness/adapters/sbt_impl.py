"""Real-code adapter for the `sbt` stream (C13): one SBT, one Python-API-level operation per
line, against the sourmash package assembled from /repo's working tree (on PYTHONPATH).

`save(sparseness=...)` draws `random()` once per internal node, in `_nodes` dict order; the
adapter replaces `sourmash.sbt.random` for the duration of the save by a function that
returns, for the k-th internal node, a value determined by that node's POSITION
(`draw(seed, pos) / 1000`), so that the set of omitted nodes is the function of
(sparseness, seed) that the model computes -- everything else in save/load runs unmodified.
Index versions 3-5 are produced by rewriting the version-6 JSON the way the old writers laid
it out (v5: "leaves" key; v4/v3: leaves and internal nodes in one "nodes" table; v3: no
`min_n_below` metadata).
"""
import json
import os
import shutil
import sys
import tempfile

import sourmash
import sourmash.logging
import sourmash.sbt as sbtmod
from sourmash import MinHash, SourmashSignature
from sourmash.sbt import SBT, GraphFactory
from sourmash.sbtmh import load_sbt_index, create_sbt_index, search_sbt_index, SigLeaf
from sourmash.search import make_jaccard_search_query
from sourmash.nodegraph import Nodegraph

sourmash.logging.set_quiet(True, True)

TMP = os.path.join(os.path.dirname(os.path.dirname(os.path.dirname(os.path.abspath(__file__)))), ".build", "tmp")
os.makedirs(TMP, exist_ok=True)


def draw(seed, pos):
    return 1 + (pos * 7919 + seed * 104729 + 17) % 999


def mk_sig(ident, hashes, scaled=1):
    mh = MinHash(0, 21, scaled=scaled)
    mh.add_many(hashes)
    return SourmashSignature(mh, name=str(ident))


def ancestors(d, p):
    out = []
    while p != 0:
        p = (p - 1) // d
        out.append(p)
    return out


def dump(t):
    d = t.d
    leaves = {}
    for p, leaf in t._leaves.items():
        sig = leaf.data
        leaves[p] = (sig.name, list(sig.minhash.hashes))
    below = {}
    for p in leaves:
        for a in ancestors(d, p):
            below.setdefault(a, []).append(p)
    out = []
    for p in sorted(set(t._nodes) | set(t._leaves) | set(t._missing_nodes)):
        kinds = ("L" if p in t._leaves else "") + ("N" if p in t._nodes else "") + ("M" if p in t._missing_nodes else "")
        s = f"{p}:{kinds}"
        if p in t._leaves:
            s += f":{leaves[p][0]}:{len(leaves[p][1])}"
        if p in t._nodes:
            n = t._nodes[p]
            ng = n.data
            bl = below.get(p, [])
            cov = sum(1 for q in bl if all(ng.get(h) for h in leaves[q][1]))
            m = n.metadata.get("min_n_below")
            s += f":{'-' if m is None else m}:{ng.n_occupied()}:{cov}/{len(bl)}"
        out.append(s)
    # a second view of what the tree holds: tree.signatures() (manifest-driven on a loaded tree)
    out.append(f"sv={sum(1 for _ in t.signatures())}")
    return "ok " + " ".join(out)


def generic_leaf_probe(seed):
    """The tree with the base `Leaf` class (a Nodegraph per leaf, `Leaf.update` = filter union), the original SBT
    use: build by add_node, check that every ancestor's filter answers 'present' for everything counted into the
    leaves beneath it, save (FS or zip), load with the default leaf loader, check again.  -> number of violations"""
    import random
    from sourmash.sbt import Leaf
    rng = random.Random(seed)
    d = rng.choice([2, 2, 3, 5])
    factory = GraphFactory(1, rng.choice([100, 1000]), 4)
    t = SBT(factory, d=d)
    content = {}
    for i in range(rng.randint(1, 14)):
        ng = factory()
        hs = [rng.randrange(2 ** 64) for _ in range(rng.randint(1, 5))]
        for h in hs:
            ng.count(h)
        t.add_node(Leaf(f"l{i}", ng))
        content[f"l{i}"] = hs

    def bad(tree):
        n = 0
        if sorted(l.name for l in tree._leaves.values()) != sorted(content):
            n += 1
        for p, leaf in tree._leaves.items():
            if not all(leaf.data.get(h) for h in content[leaf.name]) or not str(leaf).startswith("**Leaf:" + leaf.name):
                n += 1
            for a in ancestors(tree.d, p):
                node = tree._nodes.get(a)
                if a in tree._leaves or node is None or not all(node.data.get(h) for h in content[leaf.name]):
                    n += 1
        return n
    n = bad(t)
    tmp = tempfile.mkdtemp(prefix="c13_", dir=TMP)
    try:
        path = os.path.join(tmp, rng.choice(["g.sbt.json", "g.sbt.zip"]))
        t.save(path)
        n += bad(SBT.load(path, print_version_warning=False))
    finally:
        shutil.rmtree(tmp, ignore_errors=True)
    return n


class Ctx:
    def __init__(self):
        self.tree = None
        self.stash = None
        self.scaled = 1
        self.dirs = []
        self.n = 0
        self.saved = None
        self.path = None        # where the tree in use was loaded from
        self.cache = 0
        self.k = 0              # route counter (per case)
        self.opno = 0
        self.results = []       # every result object searches returned, kept alive
        self.has_tables = True

    def reset(self):
        self.tree = None
        self.stash = None
        self.saved = None
        self.path = None
        self.k = 0
        self.opno = 0
        self.results = []
        for d in self.dirs:
            shutil.rmtree(d, ignore_errors=True)
        self.dirs = []

    def saveas(self, sp, seed, fmt):
        """save the tree in use to ANOTHER location and keep using it"""
        t = self.tree
        tmp = tempfile.mkdtemp(prefix="c13_", dir=TMP)
        self.dirs.append(tmp)
        if fmt == 2:
            tmp = os.path.join(tmp, "elsewhere", "deeper")
            os.makedirs(tmp)
        path = os.path.join(tmp, "s.sbt.zip" if fmt == 0 else "s.sbt.json")
        it = iter([draw(seed, pos) / 1000.0 for pos in t._nodes])
        orig = sbtmod.random
        sbtmod.random = lambda: next(it)
        try:
            t.save(path, sparseness=sp / 1000.0)
        finally:
            sbtmod.random = orig
        self.saved = path

    def legacy(self, tmp, path, ver):
        """rewrite the version-6 FS save into the version-1 / version-2 container: file names relative to
        the index (inside the hidden directory), no factory/storage record, no metadata on internal nodes,
        the root's filter file uncompressed (its header is parsed by extract_nodegraph_info);
        version 1 is a plain list indexed by position"""
        import gzip
        info = json.load(open(path))
        sub = info["storage"]["args"]["path"]
        nodes = {}
        for k, v in info["nodes"].items():
            nodes[k] = {"name": v["name"], "filename": os.path.join(sub, v["filename"])}
        for k, v in info["signatures"].items():
            nodes[k] = {"name": v["name"], "metadata": v["metadata"], "filename": os.path.join(sub, v["filename"])}
        if "0" in nodes:
            rootf = os.path.join(tmp, nodes["0"]["filename"])
            raw = open(rootf, "rb").read()
            if raw[:2] == b"\x1f\x8b":
                open(rootf, "wb").write(gzip.decompress(raw))
        if ver == 2:
            out = {"d": info["d"], "version": 2, "nodes": nodes}
        else:
            top = max(int(k) for k in nodes) if nodes else -1
            out = [nodes.get(str(i)) for i in range(top + 1)]
        with open(path, "w") as f:
            json.dump(out, f)
        return path

    def saveload(self, sp, seed, ver, cache):
        t = self.tree
        tmp = tempfile.mkdtemp(prefix="c13_", dir=TMP)
        self.dirs.append(tmp)
        if ver == 1 and t.d != 2:
            raise KeyError          # ill-formed op: the version-1 container has no `d`
        use_zip = (ver == 6 and seed % 2 == 0)
        path = os.path.join(tmp, "t.sbt.zip" if use_zip else "t.sbt.json")
        draws = [draw(seed, pos) / 1000.0 for pos in t._nodes]
        it = iter(draws)
        orig = sbtmod.random
        sbtmod.random = lambda: next(it)
        try:
            t.save(path, sparseness=sp / 1000.0)
        finally:
            sbtmod.random = orig
        if ver <= 2:
            path = self.legacy(tmp, path, ver)
        elif ver != 6:
            info = json.load(open(path))
            assert info["version"] == 6
            info["version"] = ver
            sigs = info.pop("signatures")
            if ver == 5:
                info["leaves"] = sigs
            else:
                nodes = info["nodes"]
                for k, v in sigs.items():
                    assert k not in nodes
                    nodes[k] = v
                if ver == 3:
                    for k, v in nodes.items():
                        if "internal" in v["name"] and isinstance(v.get("metadata"), dict):
                            v["metadata"].pop("min_n_below", None)
            with open(path, "w") as f:
                json.dump(info, f)
        self.path, self.cache = path, cache
        self.tree = load_tree(self, path, cache)
        self.results = []

    def damage(self, kind, k):
        """damage one node file of the index the tree in use was loaded from, and load it again"""
        if self.path is None:
            raise KeyError
        I, L = node_files(self.path)
        if I is None or not I or not L:
            raise KeyError
        pos, w = I[k % len(I)]
        lpos, lw = L[k % len(L)]
        if kind == "del":
            edits = {w: None}
        elif kind == "trunc":
            edits = {w: read_member(self.path, w)[:20]}
        elif kind == "empty":
            edits = {w: b""}
        elif kind == "delleaf":
            edits = {lw: None}
            pos = lpos
        elif kind == "swapleaf":
            edits = {w: read_member(self.path, lw), lw: read_member(self.path, w)}
        elif kind == "swap":
            if len(I) < 2:
                raise KeyError
            pos2, w2 = I[(k + 1) % len(I)]
            edits = {w: read_member(self.path, w2), w2: read_member(self.path, w)}
        else:
            raise KeyError
        rewrite(self.path, edits)
        self.tree = load_sbt_index(self.path, print_version_warning=False, cache_size=(self.cache or None))
        self.results = []
        return pos


def exc_name(e):
    return type(e).__name__


class ViewMismatch(Exception):
    """two routes to the same fact about the tree disagree (reported as `err ViewMismatch`)"""


def check_views(ctx, deep):
    """Whatever can be read about the tree through two routes must agree.  Cheap checks after every op, the
    ones that walk every leaf (`deep`) after the ops that change the tree."""
    t = ctx.tree
    if t is None:
        return
    if len(t) != len(t._leaves):
        raise ViewMismatch("len(tree) != len(_leaves)")
    d = t.d
    for p in list(t._leaves)[:6] + list(t._nodes)[:6]:
        if p != 0:
            want = ancestors(d, p)
            if list(t._parents(p)) != want:
                raise ViewMismatch(f"_parents({p})")
            if t.parent(p).pos != want[0]:
                raise ViewMismatch(f"parent({p})")
        ch = t.children(p)
        if [c.pos for c in ch] != [d * p + i + 1 for i in range(d)]:
            raise ViewMismatch(f"children({p})")
        for i, c in enumerate(ch):
            c2 = t.child(p, i)
            if c2.pos != c.pos or c2.node is not c.node:
                raise ViewMismatch(f"child({p},{i})")
            want_node = t._leaves.get(c.pos, t._nodes.get(c.pos))
            if c.node is not want_node:
                raise ViewMismatch(f"children({p})[{i}].node")
    if list(t._parents(0)) != [None] or t.parent(0) is not None:
        raise ViewMismatch("_parents(0)")
    if not deep:
        return
    names = sorted(l.data.name for l in t._leaves.values())
    if sorted(l.data.name for l in t.leaves(unload_data=False)) != names:
        raise ViewMismatch("leaves()")
    if sorted(p for p, _ in t.leaves(with_pos=True, unload_data=False)) != sorted(t._leaves):
        raise ViewMismatch("leaves(with_pos)")
    if sorted(ss.name for ss, _ in t._signatures_with_internal()) != names:
        raise ViewMismatch("_signatures_with_internal()")
    if [(i, n) for i, n in t] != list(t._nodes.items()) + list(t._leaves.items()):
        raise ViewMismatch("__iter__")
    if ctx.k % 5 == 0 and ctx.has_tables:
        # (a filter without tables -- GraphFactory(1, <= 3, n) -- makes expected_collisions, hence str(node) and
        #  tree.print(), abort the process: finding C13.8, outside this view check)
        import contextlib
        import io
        with contextlib.redirect_stdout(io.StringIO()) as f:
            t.print()
            t.print_dot()
        for p, n in list(t._nodes.items())[:3]:
            if "internal." + str(p) not in str(n) and not str(n).startswith("*Node:"):
                raise ViewMismatch("Node.__str__")
        for l in list(t._leaves.values())[:3]:
            if not str(l).startswith("**Leaf:"):
                raise ViewMismatch("SigLeaf.__str__")
    # earlier results stay what they were
    for op_no, kept in ctx.results:
        for obj, name, md5, hashes in kept:
            if obj.signature.name != name or obj.signature.md5sum() != md5 or list(obj.signature.minhash.hashes) != hashes:
                raise ViewMismatch(f"a result returned by op {op_no} changed afterwards")


def do_search(ctx, q, thr, c):
    """one modelled search, several routes to it (chosen by a per-case counter the model does not see)"""
    t = ctx.tree
    k = ctx.k
    threshold = thr / 1000.0
    route = k % 5
    if route == 1:
        obj = make_jaccard_search_query(do_containment=(c == 1), do_max_containment=(c == 2), threshold=threshold)
        r = list(t.find(obj, q))
    elif route == 2 and c == 0:
        r0 = list(search_sbt_index(t, q, threshold))           # yields (match, score)
        r = None
        names = [m.name for m, _ in r0]
    elif route == 3:
        r = t.search(q, threshold=threshold, do_containment=(c == 1), do_max_containment=(c == 2), unload_data=False)
    elif route == 4 and not t._missing_nodes:
        # (breadth-first visits the same nodes unless a repair on the way raises, which only a tree with missing nodes does)
        r = t.search(q, threshold=threshold, do_containment=(c == 1), do_max_containment=(c == 2), dfs=False)
    else:
        r = t.search(q, threshold=threshold, do_containment=(c == 1), do_max_containment=(c == 2))
    if r is not None:
        names = [m.signature.name for m in r]
        ctx.results.append((ctx.opno, [(m, m.signature.name, m.signature.md5sum(), list(m.signature.minhash.hashes)) for m in r]))
        if len(ctx.results) > 12:
            ctx.results.pop(0)
        for m in r:
            if m.location != t.location:
                raise ViewMismatch("result.location != tree.location")
    return "ok " + ",".join(str(x) for x in sorted(int(n) for n in names))


def load_tree(ctx, path, cache):
    k = ctx.k
    cs = cache or None
    if k % 3 == 1:
        return SBT.load(path, leaf_loader=SigLeaf.load, print_version_warning=False, cache_size=cs)
    if k % 3 == 2 and cs is None:
        import sourmash as sm
        t = sm.load_file_as_index(path)
        if isinstance(t, SBT):
            return t
    return load_sbt_index(path, print_version_warning=False, cache_size=cs)


def node_files(path):
    """(internal node files, leaf files) of a saved index, as (container, member) pairs, sorted by position"""
    import zipfile
    if path.endswith(".zip"):
        with zipfile.ZipFile(path) as z:
            idx = [n for n in z.namelist() if n.endswith(".sbt.json")][0]
            info = json.loads(z.read(idx))
        sub = info["storage"]["args"]["path"]
        where = lambda fn: ("zip", sub + "/" + fn)
    else:
        info = json.load(open(path))
        if isinstance(info, list) or info.get("version", 6) < 3:
            return None, None
        sub = info["storage"]["args"]["path"]
        where = lambda fn: ("fs", os.path.join(os.path.dirname(path), sub, fn))
    if info["version"] >= 5:
        ints = info["nodes"]
        leaves = info.get("signatures", info.get("leaves"))
    else:
        ints = {k: v for k, v in info["nodes"].items() if v is not None and "internal" in v["name"]}
        leaves = {k: v for k, v in info["nodes"].items() if v is not None and "internal" not in v["name"]}
    I = [(int(k), where(v["filename"])) for k, v in sorted(ints.items(), key=lambda kv: int(kv[0]))]
    L = [(int(k), where(v["filename"])) for k, v in sorted(leaves.items(), key=lambda kv: int(kv[0]))]
    return I, L


def rewrite(path, edits):
    """apply {member: new bytes | None (delete)} to the saved index"""
    import zipfile
    fs = {m: b for (kind, m), b in edits.items() if kind == "fs"}
    for m, b in fs.items():
        if b is None:
            os.remove(m)
        else:
            open(m, "wb").write(b)
    zp = {m: b for (kind, m), b in edits.items() if kind == "zip"}
    if zp:
        with zipfile.ZipFile(path) as z:
            items = [(n, z.read(n)) for n in z.namelist()]
        os.remove(path)
        with zipfile.ZipFile(path, "w") as z:
            for n, b in items:
                if n in zp:
                    if zp[n] is None:
                        continue
                    b = zp[n]
                z.writestr(n, b)


def read_member(path, where):
    import zipfile
    kind, m = where
    if kind == "fs":
        return open(m, "rb").read()
    with zipfile.ZipFile(path) as z:
        return z.read(m)


def main():
    ctx = Ctx()
    out = sys.stdout
    try:
        for line in sys.stdin:
            w = line.split()
            if not w:
                out.write("bad-op\n")
                continue
            op, a = w[0], w[1:]
            ctx.k += 1
            ctx.opno += 1
            try:
                if op == "#":
                    ctx.reset()
                    out.write("#\n")
                    continue
                if op == "new":
                    d, bf, nt = map(int, a[:3])
                    sc = int(a[3]) if len(a) == 4 else 1
                    if bf == 0 or sc == 0 or len(a) > 4:
                        raise KeyError
                    ctx.scaled = sc
                    ctx.has_tables = bool(Nodegraph(1, bf, nt).hashsizes())
                    ctx.path = None
                    ctx.results = []
                    if nt == 4 and ctx.k % 2 == 0:
                        ctx.tree = create_sbt_index(bf, n_children=d)      # the route `sourmash index` takes
                    else:
                        ctx.tree = SBT(GraphFactory(1, bf, nt), d=d)
                    res = "ok sizes=" + ",".join(str(x) for x in Nodegraph(1, bf, nt).hashsizes())
                elif op == "genericleaf":
                    res = f"ok {generic_leaf_probe(int(a[0]))}"
                elif op == "loadpath" and len(a) == 2:
                    ctx.tree = load_sbt_index(a[0], print_version_warning=False, cache_size=(int(a[1]) or None))
                    ctx.path = a[0]
                    res = "ok"
                elif ctx.tree is None:
                    res = "bad-op"
                elif op == "ins":
                    ident = int(a[0])
                    hs = [int(x) for x in a[1:]]
                    t = ctx.tree
                    sig = mk_sig(ident, hs, ctx.scaled)
                    if ctx.k % 2:
                        t.insert(sig)
                    else:
                        t.add_node(SigLeaf(sig.md5sum(), sig))
                    pos = [p for p, l in t._leaves.items() if l.data.name == str(ident)]
                    res = f"ok n={len(t._leaves)} pos={pos[0] if pos else '-'}"
                    check_views(ctx, True)
                elif op == "dump":
                    if a:
                        raise KeyError
                    res = dump(ctx.tree)
                    if dump(ctx.tree) != res:
                        raise ViewMismatch("two walks of the same tree differ")
                    check_views(ctx, True)
                elif op == "stash":
                    if a:
                        raise KeyError
                    ctx.stash, ctx.tree = ctx.tree, None
                    ctx.results = []
                    res = "ok"
                elif op == "probe":
                    t = ctx.tree
                    mh = MinHash(0, 21, scaled=1)
                    mh.add_many([int(x) for x in a])
                    res = "ok " + " ".join(f"{p}={t._nodes[p].data.matches(mh)}" for p in sorted(t._nodes))
                elif op == "saveload":
                    sp, seed, ver, cache = map(int, a)
                    if ver < 1 or ver > 6:
                        raise KeyError
                    ctx.saveload(sp, seed, ver, cache)
                    res = "ok"
                    check_views(ctx, True)
                elif op == "saveas":
                    sp, seed, fmt = map(int, a)
                    if fmt not in (0, 1, 2):
                        raise KeyError
                    ctx.saveas(sp, seed, fmt)
                    res = "ok"
                elif op == "checksaved":
                    (cache,) = map(int, a)
                    if ctx.saved is None:
                        raise KeyError
                    res = dump(load_tree(ctx, ctx.saved, cache))
                elif op == "search":
                    c, thr = int(a[0]), int(a[1])
                    if c not in (0, 1):
                        raise KeyError
                    q = mk_sig("q", [int(x) for x in a[2:]], ctx.scaled)
                    res = do_search(ctx, q, thr, c)
                    check_views(ctx, False)
                elif op == "searchs":
                    c, thr, sq = int(a[0]), int(a[1]), int(a[2])
                    if c not in (0, 1, 2) or sq == 0:
                        raise KeyError
                    q = mk_sig("q", [int(x) for x in a[3:]], sq)
                    res = do_search(ctx, q, thr, c)
                    check_views(ctx, False)
                elif op == "select":
                    ks, sc, cont = map(int, a)
                    if cont not in (0, 1):
                        raise KeyError
                    ctx.tree.select(ksize=ks, scaled=sc, containment=bool(cont))
                    res = "ok"
                elif op == "combine":
                    if a or ctx.stash is None:
                        raise KeyError
                    other, ctx.stash = ctx.stash, None
                    if not len(ctx.tree) or not len(other) or other.d != ctx.tree.d:
                        raise KeyError
                    ctx.tree = ctx.tree.combine(other)
                    ctx.results = []
                    res = f"ok n={len(ctx.tree._leaves)}"
                elif op == "damage":
                    kind, k = a[0], int(a[1])
                    res = f"ok {ctx.damage(kind, k)}"
                elif op == "loadpath":
                    ctx.tree = load_sbt_index(a[0], print_version_warning=False, cache_size=(int(a[1]) or None))
                    ctx.path = a[0]
                    res = "ok"
                elif op == "rebuild":
                    (p,) = map(int, a)
                    ctx.tree._rebuild_node(p)
                    res = "ok"
                elif op == "rebuildm":
                    (k,) = map(int, a)
                    ms = sorted(ctx.tree._missing_nodes)
                    if ms:
                        ctx.tree._rebuild_node(ms[k % len(ms)])
                    res = "ok"
                elif op == "fillint":
                    if a:
                        raise KeyError
                    ctx.tree._fill_internal()
                    res = "ok"
                elif op == "fillmin":
                    if a:
                        raise KeyError
                    ctx.tree._fill_min_n_below()
                    res = "ok"
                else:
                    res = "bad-op"
            except (KeyError, IndexError) as e:
                # ill-formed op lines raise KeyError/ValueError before touching the tree; a KeyError
                # from inside the tree code is reported as an error of the implementation
                import traceback
                tb = traceback.extract_tb(e.__traceback__)
                inside = any("sourmash" in (fr.filename or "") for fr in tb)
                res = ("err " + exc_name(e)) if inside else "bad-op"
            except ValueError as e:
                import traceback
                tb = traceback.extract_tb(e.__traceback__)
                inside = any("sourmash" in (fr.filename or "") for fr in tb)
                res = ("err " + exc_name(e)) if inside else "bad-op"
            except BaseException as e:      # noqa: BLE001
                res = "err " + exc_name(e)
            out.write(res + "\n")
        out.flush()
    finally:
        ctx.reset()


if __name__ == "__main__":
    main()
