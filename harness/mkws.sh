#!/bin/sh
# make a private working copy of /verif for a sub-agent: harness/mkws.sh <name>
set -e
d=/var/tmp/agents/$1
rm -rf "$d"; mkdir -p "$d"
rsync -a --exclude .git --exclude evidence /verif/ "$d/verif/"
mkdir -p "$d/verif/evidence"
echo "$d/verif"
