#!/usr/bin/env python3
"""harness/merge_agent.py <agent> <Cxx>[,<Cyy>] : merge an agent's manifest entries, known findings and driver
registrations into the main tree (run after harness/integrate.sh)."""
import json, re, sys
W = f'/var/tmp/agents/{sys.argv[1]}/verif/'
ids = sys.argv[2].split(',')
src = open(W + 'harness/gen_manifest.py').read()
s = open('/verif/harness/gen_manifest.py').read()
for cid in ids:
    m = re.search(r'    "%s": dict\(.*?\n        ref="[^"]*"\),?\n' % cid, src, re.S)
    if not m:
        m = re.search(r'    "%s": dict\(.*?\n    \),\n' % cid, src, re.S)
    if m and ('"%s": dict(' % cid) not in s:
        ent = m.group(0)
        if not ent.rstrip().endswith(','):
            ent = ent.rstrip() + ',\n'
        s = s.replace('CLAIMED = {\n', 'CLAIMED = {\n' + ent, 1)
        print('manifest entry', cid, 'merged')
    elif m:
        pat = r'    "%s": dict\(.*?\n        ref="[^"]*"\),?\n' % cid
        old = re.search(pat, s, re.S)
        ent = m.group(0)
        if not ent.rstrip().endswith(','):
            ent = ent.rstrip() + ',\n'
        if old and old.group(0) != ent:
            s = s.replace(old.group(0), ent, 1)
            print('manifest entry', cid, 'replaced')
    else:
        print('!! no manifest entry for', cid, 'in agent copy')
open('/verif/harness/gen_manifest.py', 'w').write(s)
k = json.load(open('/verif/known_findings.json'))
try:
    ka = json.load(open(W + 'known_findings.json'))
    have = {(f['id'], f['property']) for f in k['findings']}
    for f in ka['findings']:
        if f['property'] in ids and (f['id'], f['property']) not in have:
            k['findings'].append(f)
            print('finding', f['id'], f['status'], f['signature'])
    json.dump(k, open('/verif/known_findings.json', 'w'), indent=1)
except FileNotFoundError:
    pass
main_a = open(W + 'lean/Main.lean').read()
main = open('/verif/lean/Main.lean').read()
for line in main_a.split('\n'):
    m = re.match(r'\s*\| \["(\w+)"\] => ', line)
    if m and ('["%s"]' % m.group(1)) not in main:
        main = main.replace('  | ["own"] =>', line + '\n  | ["own"] =>', 1)
        print('Main.lean +', m.group(1))
open('/verif/lean/Main.lean', 'w').write(main)
dr_a = open(W + 'lean/SmVerif/Drivers.lean').read()
dr = open('/verif/lean/SmVerif/Drivers.lean').read()
for line in dr_a.split('\n'):
    if line.startswith('import ') and line not in dr:
        dr += line + '\n'
        print('Drivers.lean +', line)
open('/verif/lean/SmVerif/Drivers.lean', 'w').write(dr)
