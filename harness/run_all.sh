#!/bin/sh
# harness/run_all.sh [seed] [tier]: run every claimed check, one line each
seed=${1:-0}; tier=${2:-quick}
for id in $(python3 -c "import json; print(' '.join(c['property_id'] for c in json.load(open('MANIFEST.json'))['checks']))"); do
  t0=$(date +%s); out=$(VERIF_SEED=$seed ./check $id --tier $tier 2>/dev/null); rc=$?; t1=$(date +%s)
  echo "$id rc=$rc $((t1-t0))s known=$(echo "$out" | grep -a -c '^KNOWN-FINDING') viol=$(echo "$out" | grep -a -c '^VIOLATION') $(echo "$out" | grep -a '^VIOLATION' | head -1 | cut -c1-160)"
done
