#!/bin/sh
# harness/confirm_mutant.sh <mutant dir> : independent confirmation in a scratch worktree:
#   patch applies, builds, suite has no stable test failing, demo fails with the patch and passes without.
# Needs /var/tmp/sm_suite_pkg to be a build of /repo's current HEAD (harness/run_suite.sh).
d=$1; id=$(basename $d); wt=/tmp/cm_$id
git -C /repo worktree remove --force $wt 2>/dev/null
git -C /repo worktree add --detach $wt HEAD >/dev/null 2>&1 || exit 2
( cd $wt && git apply $d/patch.diff ) || { echo "$id: PATCH DOES NOT APPLY"; git -C /repo worktree remove --force $wt; exit 1; }
# reuse the cargo build cache of /repo to keep the build short
[ -d /repo/target ] && cp -r /repo/target $wt/target
SUITE_REPO=$wt SUITE_PKG=/var/tmp/cm_${id}_pkg SUITE_JUNIT=/var/tmp/cm_$id.junit.xml /var/tmp/tools/run_suite.sh > /var/tmp/cm_$id.suite.out 2>&1
suite=$(tail -1 /var/tmp/cm_$id.suite.out)
base=$(python3 /var/tmp/tools/suite_vs_baseline.py /var/tmp/cm_$id.junit.xml | grep stable=)
PYTHONPATH=/var/tmp/cm_${id}_pkg /venv/bin/python $d/demo.py > /var/tmp/cm_$id.demo_with.out 2>&1; with=$?
PYTHONPATH=/var/tmp/sm_suite_pkg /venv/bin/python $d/demo.py > /var/tmp/cm_$id.demo_without.out 2>&1; without=$?
echo "$id: suite[$suite] baseline[$base] demo_with_patch_exit=$with demo_without_patch_exit=$without"
git -C /repo worktree remove --force $wt; rm -rf /var/tmp/cm_${id}_pkg /var/tmp/cm_${id}_pkg.cargo.log /var/tmp/cm_$id.junit.xml
