import subprocess, sys, os, re
WT='/var/tmp/agents/c05/repo_wt'
V='/var/tmp/agents/c05/verif'
RS='src/core/src/sketch/minhash.rs'
PY='src/sourmash/minhash.py'
SC='src/sourmash/sketchcomparison.py'
def sub(path, old, new, count=1):
    p=os.path.join(WT,path); s=open(p).read()
    assert s.count(old)>=1, (path, old)
    s=s.replace(old,new,count); open(p,'w').write(s)
MUTS = {
 'M8-similarity-downsamples-other-not-second': lambda: sub(RS, '''            let downsampled_mh = second.clone().downsample_scaled(first.scaled())?;
            first.similarity(&downsampled_mh, ignore_abundance, false)''', '''            let downsampled_mh = other.clone().downsample_scaled(first.scaled())?;
            first.similarity(&downsampled_mh, ignore_abundance, false)'''),
 'M9-contained_by-drops-upper-clamp': lambda: sub(PY, '''        if containment >= 1:
            return 1.0
        elif containment <= 0:''', '''        if containment <= 0:'''),
 'M10-angular-drops-min-clamp': lambda: sub(RS, '''        let prod = f64::min(prod as f64 / (norm_a * norm_b), 1.);
        let distance = 2. * prod.acos() / PI;
        Ok(1. - distance)
    }

    pub fn similarity(
        &self,
        other: &KmerMinHash,''', '''        let prod = prod as f64 / (norm_a * norm_b);
        let distance = 2. * prod.acos() / PI;
        Ok(1. - distance)
    }

    pub fn similarity(
        &self,
        other: &KmerMinHash,'''),
 'M11-num-comparison-max-num': lambda: sub(SC, '''            self.cmp_num = min(self.mh1.num, self.mh2.num)''', '''            self.cmp_num = max(self.mh1.num, self.mh2.num)'''),
 'M12-count_common-downsample-flag-ignored': lambda: sub(RS, '''    pub fn count_common(&self, other: &KmerMinHash, downsample: bool) -> Result<u64, Error> {
        if downsample && self.scaled() != other.scaled() {''', '''    pub fn count_common(&self, other: &KmerMinHash, downsample: bool) -> Result<u64, Error> {
        if downsample && self.scaled() > other.scaled() {'''),
}
which = sys.argv[1:] or list(MUTS)
env = dict(os.environ, VERIF_REPO=WT, VERIF_BUILD=V+'/.build_wt', VERIF_EVIDENCE=V+'/.build_wt/evidence')
for name in which:
    subprocess.run(['git','checkout','--','.'],cwd=WT,check=True)
    MUTS[name]()
    r = subprocess.run(['./check','C05','--tier','quick'],cwd=V,env=env,stdout=subprocess.PIPE,stderr=subprocess.DEVNULL,text=True)
    print(f'== {name}: exit {r.returncode}')
    for l in r.stdout.splitlines():
        if l.startswith('VIOLATION'):
            print('   ', re.sub(r'replay=\S+ ', '', l)[:230])
    sys.stdout.flush()
subprocess.run(['git','checkout','--','.'],cwd=WT,check=True)
