import sys, os, random, collections
sys.path.insert(0, os.path.dirname(os.path.abspath(__file__)))
import common
from streams import mh
import streamlib
pkg = common.build_pkg()
rng = random.Random(int(sys.argv[1]) if len(sys.argv) > 1 else 1)
n = int(sys.argv[2]) if len(sys.argv) > 2 else 600
fl = sys.argv[3] if len(sys.argv) > 3 else None
cases = [mh.gen_case(rng, fl or ["content", "md5", "setops"][i % 3]) for i in range(n)]
res = streamlib.run_cases(mh, cases, pkg, procs=16)
by = collections.defaultdict(list)
for c, i, m, cr in res:
    if cr: print("CRASH", cr[1], cr[2][-300:]); continue
    k = streamlib.first_diff(mh, i, m)
    if k is not None:
        by[c[k].split()[0]].append((c, i, m, k))
for op, l in by.items():
    print("=====", op, len(l))
    c, i, m, k = min(l, key=lambda t: t[3])
    for j in range(k + 1):
        print("  ", c[j], "\n      impl :", i[j][:200], "\n      model:", m[j][:200] if j == k else "")
