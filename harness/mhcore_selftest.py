#!/usr/bin/env python3
"""Self-test of harness/translators/mhcore.py on in-memory edits of src/core/src/sketch/minhash.rs
(nothing is written anywhere): harmless re-formatting must leave every emitted constant unchanged; each
behaviour-changing edit must change a named constant (or fail the translation closed).

    python3 harness/mhcore_selftest.py        # exit 0 = all expectations met
"""
import os
import re
import sys

sys.path.insert(0, os.path.dirname(os.path.abspath(__file__)))
import translate as T  # noqa: E402
from translators import mhcore  # noqa: E402

_read = T.read


def run_with(edit):
    def read(rel):
        s = _read(rel)
        if rel == mhcore.RS:
            s2 = edit(s)
            if s2 == s and edit is not IDENT:
                raise AssertionError("edit did not apply")
            return s2
        return s
    T.read = read
    out = {}
    try:
        for name, fn in mhcore.EXTRACTORS:
            try:
                out[name] = fn({"inputs": {}, "outputs": {}})
            except T.Unrecognised as e:
                out[name] = "FAILED-CLOSED " + str(e)[:160]
    finally:
        T.read = _read
    return out


def IDENT(s):
    return s


def consts(out):
    d = {}
    for text in out.values():
        if text.startswith("FAILED-CLOSED"):
            continue
        for m in re.finditer(r"^def (\w+) : [^\n]*? := (.*)$", text, re.M):
            d[m.group(1)] = m.group(2)
    return d


def sub1(a, b, count=1):
    def f(s):
        assert a in s, a
        return s.replace(a, b, count)
    return f


def nth(a, b, n):
    """replace the n-th (0-based) occurrence of a"""
    def f(s):
        i = -1
        for _ in range(n + 1):
            i = s.index(a, i + 1)
        return s[:i] + b + s[i + len(a):]
    return f


def reformat(s):
    s = s.replace("        if hash > self.max_hash && self.max_hash != 0 {",
                  "        if hash>self.max_hash   // a comment\n            &&   self.max_hash!=0\n        {")
    s = s.replace("                self.mins.push(hash);\n                self.reset_md5sum();",
                  "                self.mins.push( hash ) ;\n\n                /* reset */ self . reset_md5sum( );")
    s = s.replace("        merged.extend(other_iter);", "        merged\n            .extend(other_iter,);")
    return s


HARMLESS = [("identity", IDENT), ("reformat / comments / trailing comma", reformat)]

# (description, edit, constant expected to change | 'FAIL:<extractor>')
MUTANTS = [
    ("guard `>` -> `>=`", sub1("if hash > self.max_hash && self.max_hash != 0 {", "if hash >= self.max_hash && self.max_hash != 0 {"), "mhAddGuardCmp"),
    ("guard `&&` -> `||`", sub1("if hash > self.max_hash && self.max_hash != 0 {", "if hash > self.max_hash || self.max_hash != 0 {"), "mhAddGuardAnd"),
    ("good-hash `<=` -> `<`", sub1("if hash <= self.max_hash || hash <= current_max", "if hash <= self.max_hash || hash < current_max"), "mhAddGoodCmps"),
    ("room test `<` -> `<=`", sub1("(self.mins.len() as u32) < self.num {", "(self.mins.len() as u32) <= self.num {"), "mhAddGoodCmps"),
    ("add: truncate `>` -> `>=`", sub1("if self.num != 0 && self.mins.len() > (self.num as usize) {", "if self.num != 0 && self.mins.len() >= (self.num as usize) {"), "mhAddTruncCmp"),
    ("add: truncate off by one", sub1("if self.num != 0 && self.mins.len() > (self.num as usize) {", "if self.num != 0 && self.mins.len() > (self.num as usize + 1) {"), "mhAddTruncOff"),
    ("add: reset dropped (empty push)", nth("                self.mins.push(hash);\n                self.reset_md5sum();".replace("                ", "            ", 2), "            self.mins.push(hash);", 0), "mhAddResets"),
    ("add: reset dropped (append)", sub1("                self.mins.push(hash);\n                self.reset_md5sum();", "                self.mins.push(hash);"), "mhAddResets"),
    ("add: reset dropped (insert)", sub1("                }\n                self.reset_md5sum();\n            } else if let", "                }\n            } else if let"), "mhAddResets"),
    ("add: truncate off by one (outside the cast)", sub1("if self.num != 0 && self.mins.len() > (self.num as usize) {", "if self.num != 0 && self.mins.len() > (self.num as usize) + 1 {"), "mhAddTruncOff"),
    ("add: abundance 0 no longer removes", sub1("        if abundance == 0 {\n            self.remove_hash(hash);\n            return;\n        }\n", ""), "FAIL:mhcore_add"),
    ("remove_hash: reset dropped", sub1("                self.mins.remove(pos);\n                self.reset_md5sum();", "                self.mins.remove(pos);"), "mhRemoveResets"),
    ("clear: reset dropped", sub1("            abunds.clear();\n        }\n        self.reset_md5sum();", "            abunds.clear();\n        }"), "mhClearResets"),
    ("merge: reset dropped", sub1("        self.abunds = merged_abunds;\n\n        self.reset_md5sum();", "        self.abunds = merged_abunds;\n"), "mhMergeResets"),
    ("merge: truncate off by one", sub1("merged.truncate(self.num as usize);", "merged.truncate(self.num as usize - 1);"), "mhMergeTruncMinsOff"),
    ("merge: abunds truncate off by one", sub1("v.truncate(self.num as usize)", "v.truncate(self.num as usize + 1)"), "mhMergeTruncAbundsOff"),
    ("merge: truncate `>` -> `>=`", sub1("if merged.len() > (self.num as usize) && (self.num as usize) != 0 {", "if merged.len() >= (self.num as usize) && (self.num as usize) != 0 {"), "mhMergeTruncCmp"),
    ("merge: sum only other's", sub1("n.push(*v + *s)", "n.push(*v)"), "mhMergeSumsBoth"),
    ("merge: arm `<` -> `<=`", sub1("Some(x) if x < value => {", "Some(x) if x <= value => {"), "mhMergeArmCmps"),
    ("merge: sum pushed in the wrong arm", sub1("                    if let Some(v) = self_abunds_iter.next() {\n                        if let Some(n) = merged_abunds.as_mut() {\n                            n.push(*v)", "                    if let Some(v) = self_abunds_iter.next() {\n                        if let Some(n) = merged_abunds.as_mut() {\n                            n.push(*v + 1)"), "FAIL:mhcore_merge"),
    ("inflate: reset dropped", sub1("        self.abunds = Some(abunds);\n\n        self.reset_md5sum();", "        self.abunds = Some(abunds);\n"), "mhInflateResets"),
    ("downsample: `>` -> `>=`", sub1("} else if self.scaled() > scaled {", "} else if self.scaled() >= scaled {"), "mhDownsampleRefuseCmp"),
    ("clone no longer pre-fills md5", sub1("md5sum: Mutex::new(Some(self.md5sum())),", "md5sum: Mutex::new(self.md5sum.lock().unwrap().clone()),"), "FAIL:mhcore_md5"),
    ("new mutator without reset", sub1("    pub fn is_empty(&self) -> bool {", "    pub fn pop_max(&mut self) -> Option<u64> {\n        self.mins.pop()\n    }\n\n    pub fn is_empty(&self) -> bool {"), "mhResetSites"),
    ("btree: remove_hash reset dropped", sub1("        if self.mins.remove(&hash) {\n            self.reset_md5sum();", "        if self.mins.remove(&hash) {"), "mhBtResetSites"),
]


def main():
    base = consts(run_with(IDENT))
    bad = 0
    for desc, edit in HARMLESS:
        out = run_with(edit)
        c = consts(out)
        failed = [k for k, v in out.items() if v.startswith("FAILED-CLOSED")]
        ok = c == base and not failed
        print(("ok   " if ok else "BAD  ") + f"harmless: {desc}" + ("" if ok else f"  -> {failed or [k for k in base if c.get(k) != base[k]]}"))
        bad += not ok
    for desc, edit, expect in MUTANTS:
        out = run_with(edit)
        c = consts(out)
        failed = [k for k, v in out.items() if v.startswith("FAILED-CLOSED")]
        changed = [k for k in base if k in c and c[k] != base[k]]
        if expect.startswith("FAIL:"):
            ok = expect[5:] in failed
        else:
            ok = expect in changed
        also = [k for k in changed if k != expect]
        print(("ok   " if ok else "BAD  ") + f"mutant: {desc}: expected {expect}; changed={changed} failed={failed}")
        bad += not ok
    print("self-test", "passed" if not bad else f"FAILED ({bad})")
    return 1 if bad else 0


if __name__ == "__main__":
    sys.exit(main())
