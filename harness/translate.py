"""Translator: re-extract literal tables, constants and small expression shapes
from /repo's *current* source into lean/SmVerif/Model/Generated.lean.

Strict and fail-closed: every extractor matches an exact (whitespace- and
comment-normalised) shape with named slots.  If the source no longer has that
shape the extractor fails, the previous Generated.lean is left untouched and
the caller reports the tie as broken (never silently falls back).

The translator is part of the trusted base; its input/output pairs are
recorded in every evidence file (`coverage.translator`).
"""
import os
import re

VERIF = os.path.dirname(os.path.dirname(os.path.abspath(__file__)))
REPO = os.environ.get("VERIF_REPO", "/repo")
OUT = os.path.join(VERIF, "lean", "SmVerif", "Model", "Generated.lean")


class Unrecognised(Exception):
    def __init__(self, what, why):
        super().__init__(f"{what}: {why}")
        self.what = what
        self.why = why


def read(rel):
    return open(os.path.join(REPO, rel), encoding="utf-8").read()


def strip_rust_comments(s):
    s = re.sub(r"/\*.*?\*/", "", s, flags=re.S)
    s = re.sub(r"//[^\n]*", "", s)
    return s


def norm(s):
    return re.sub(r"\s+", " ", s).strip()


def rust_fn_body(src, name):
    """text between the braces of `fn name(...) ... { ... }` (brace matched)"""
    m = re.search(r"\bfn\s+" + re.escape(name) + r"\s*(<[^>]*>)?\s*\(", src)
    if not m:
        raise Unrecognised(name, "function not found")
    i = src.index("{", m.end())
    depth = 0
    for j in range(i, len(src)):
        if src[j] == "{":
            depth += 1
        elif src[j] == "}":
            depth -= 1
            if depth == 0:
                return src[i + 1:j]
    raise Unrecognised(name, "unbalanced braces")


def py_fn_body(src, name):
    m = re.search(r"^def\s+" + re.escape(name) + r"\s*\(.*?\):\n", src, re.M)
    if not m:
        raise Unrecognised(name, "function not found")
    lines = []
    for line in src[m.end():].split("\n"):
        if line.strip() == "":
            lines.append(line)
            continue
        if not line.startswith((" ", "\t")):
            break
        lines.append(line)
    body = "\n".join(lines)
    body = re.sub(r'^\s*"[^"\n]*"\s*$', "", body, flags=re.M)   # one-line docstrings
    body = re.sub(r"#[^\n]*", "", body)
    return body


RUST_RND = [
    ("( u64::MAX as f64 / {v} as f64 ) as u64", "trunc"),
    ("( u64::MAX as f64 / {v} as f64 ) .round ( ) as u64", "halfAway"),
    ("( u64::MAX as f64 / {v} as f64 ) .round_ties_even ( ) as u64", "halfEven"),
]


def tok(s):
    """normalise: spaces around punctuation so that shapes compare token-wise"""
    s = re.sub(r"([(){}\[\],;])", r" \1 ", s)
    return norm(s)


def x_scaled(report):
    src = strip_rust_comments(read("src/core/src/sketch/minhash.rs"))
    out = {}
    for fn, var, arms in (("max_hash_for_scaled", "scaled", ["0 => 0 ,", "1 => u64::MAX ,"]),
                          ("scaled_for_max_hash", "max_hash", ["0 => 0 ,"])):
        body = tok(rust_fn_body(src, fn))
        pre = tok("match " + var + " { " + " ".join(arms) + " _ =>")
        if not body.startswith(pre):
            raise Unrecognised(fn, "match arms changed: " + body[:160])
        rest = body[len(pre):].strip()
        mode = None
        rest_n = tok(rest.rstrip("}").rstrip().rstrip(",")).replace(" .", ".").replace(". ", ".")
        for pat, name in RUST_RND:
            if rest_n == tok(pat.replace("{v}", var)).replace(" .", ".").replace(". ", "."):
                mode = name
        if mode is None:
            raise Unrecognised(fn, "conversion expression not one of the modelled shapes: " + rest[:160])
        out[fn] = mode
        report["inputs"][fn] = rest
    py = read("src/sourmash/minhash.py")
    m = re.search(r"^MINHASH_MAX_HASH\s*=\s*(0x[0-9A-Fa-f]+|\d+)\s*$", py, re.M)
    if not m:
        raise Unrecognised("MINHASH_MAX_HASH", "constant not found")
    numer = int(m.group(1), 0)
    if not re.search(r"def get_minhash_max_hash\(\):\n(\s*\"[^\n]*\"\n)?\s*return MINHASH_MAX_HASH\n", py):
        raise Unrecognised("get_minhash_max_hash", "no longer returns MINHASH_MAX_HASH")
    shapes = {
        "_get_max_hash_for_scaled":
            ("if scaled == 0: return 0 elif scaled == 1: return get_minhash_max_hash() "
             "return min(int(round(get_minhash_max_hash() / scaled, 0)), MINHASH_MAX_HASH)"),
        "_get_scaled_for_max_hash":
            ("if max_hash == 0: return 0 "
             "return min(int(round(get_minhash_max_hash() / max_hash, 0)), MINHASH_MAX_HASH)"),
    }
    for fn, shape in shapes.items():
        body = norm(py_fn_body(py, fn))
        if body == norm(shape):
            out[fn] = "halfEven"
        elif body == norm(shape.replace("int(round(", "int((").replace(", 0))", "))")):
            out[fn] = "trunc"
        else:
            raise Unrecognised(fn, "body not one of the modelled shapes: " + body[:200])
        report["inputs"][fn] = body
    report["outputs"]["scaled"] = dict(out, pyNumer=numer)
    return f"""
/-- `max_hash_for_scaled` in minhash.rs: numerator and float->u64 conversion -/
def rustMhNumer : Nat := 2 ^ 64
def rustMhRnd : Rnd := .{out['max_hash_for_scaled']}
/-- `scaled_for_max_hash` in minhash.rs -/
def rustScNumer : Nat := 2 ^ 64
def rustScRnd : Rnd := .{out['scaled_for_max_hash']}
/-- `_get_max_hash_for_scaled` / `_get_scaled_for_max_hash` in minhash.py -/
def pyNumer : Nat := {numer}
def pyMhRnd : Rnd := .{out['_get_max_hash_for_scaled']}
def pyScRnd : Rnd := .{out['_get_scaled_for_max_hash']}
"""


def x_md5_resets(report):
    """which mutating functions of KmerMinHash call reset_md5sum (C11): the set is
    compared with the set the hand-written model assumes"""
    src = strip_rust_comments(read("src/core/src/sketch/minhash.rs"))
    # split the two impls
    i_vec = src.index("impl KmerMinHash {")
    i_bt = src.index("impl KmerMinHashBTree {")
    res = {}
    for label, seg in (("vec", src[i_vec:i_bt]), ("btree", src[i_bt:])):
        fns = {}
        for fn in ("clear", "add_hash_with_abundance", "remove_hash", "merge", "set_hash_with_abundance",
                   "inflate", "enable_abundance", "disable_abundance"):
            try:
                body = rust_fn_body(seg, fn)
            except Unrecognised:
                continue
            fns[fn] = len(re.findall(r"reset_md5sum\(\)", body))
        res[label] = fns
    report["outputs"]["md5_reset_sites"] = res
    lines = ["/-- number of `reset_md5sum()` call sites per mutator (vec / btree), for the record -/"]
    for label, fns in res.items():
        items = ", ".join(f'("{k}", {v})' for k, v in sorted(fns.items()))
        lines.append(f"def md5ResetSites_{label} : List (String × Nat) := [{items}]")
    return "\n" + "\n".join(lines) + "\n"


EXTRACTORS = [("scaled", x_scaled), ("md5_resets", x_md5_resets)]

def _discover():
    """harness/translators/<x>.py modules contribute EXTRACTORS = [(name, fn(report) -> lean text)]"""
    import importlib
    import sys
    d = os.path.join(VERIF, "harness", "translators")
    sys.path.insert(0, os.path.join(VERIF, "harness"))
    out = []
    if os.path.isdir(d):
        for f in sorted(os.listdir(d)):
            if f.endswith(".py") and f != "__init__.py":
                m = importlib.import_module("translators." + f[:-3])
                out += list(m.EXTRACTORS)
    return out


HEADER = """/- GENERATED by harness/translate.py from /repo's working tree. Do not edit by hand;
   the committed copy is only a bootstrap and is overwritten on every run. -/
namespace Sm.Gen

inductive Rnd where
  | trunc | halfEven | halfAway
deriving Repr, DecidableEq
"""


# which properties depend on an extractor's output (a failing extractor is a broken tie only for those);
# modules under harness/translators/ may declare SERVES = [...]; an extractor without an entry serves all.
SERVES = {
    "scaled": ["C01", "C03", "C04", "C05", "C06", "C07", "C08", "C09", "C11", "C14", "C15"],
    "md5_resets": ["C11"],
}


def _serves_discovered():
    import importlib
    import sys
    d = os.path.join(VERIF, "harness", "translators")
    sys.path.insert(0, os.path.join(VERIF, "harness"))
    out = {}
    if os.path.isdir(d):
        for f in sorted(os.listdir(d)):
            if f.endswith(".py") and f != "__init__.py":
                m = importlib.import_module("translators." + f[:-3])
                sv = getattr(m, "SERVES", None)
                for name, _ in m.EXTRACTORS:
                    if sv is not None:
                        out[name] = list(sv)
    return out


def _section(text, name):
    m = re.search(r"-- BEGIN " + re.escape(name) + r"\n(.*?)-- END " + re.escape(name) + r"\n", text, re.S)
    return m.group(1) if m else None


def _dedupe(text, seen, section, report):
    """Independent extractor modules sometimes emit the same constant (e.g. `manifestRequiredKeys` for C10 and C12).
    A later definition with the same name is dropped when it is textually the same definition (both read it from
    the same source line); a DIFFERENT definition under the same name is a hard error."""
    out = []
    chunks = re.split(r"(?m)^(?=(?:/--.*?-/\s*\n)?def\s)", text)
    for ch in chunks:
        m = re.search(r"(?m)^def\s+(\S+)", ch)
        if not m:
            out.append(ch)
            continue
        name = m.group(1)
        body = re.sub(r"/--.*?-/\s*", "", ch, flags=re.S).strip()
        if name in seen:
            if seen[name][0] == body:
                report.setdefault("deduplicated", []).append(f"{name} ({section} = {seen[name][1]})")
                if out:     # a doc comment that belonged to the dropped definition may end the previous chunk
                    out[-1] = re.sub(r"/--(?:(?!-/).)*-/\s*\Z", "", out[-1], flags=re.S)
                continue
            raise Unrecognised(section, f"`{name}` is also defined by extractor {seen[name][1]} with a different value")
        seen[name] = (body, section)
        out.append(ch)
    return "".join(out)


def run():
    """Regenerate Generated.lean.  Every extractor writes its own marked section; an extractor that no longer
    recognises the source FAILS CLOSED for the properties it serves (report['failed']) and its previous section is
    kept only so that the unrelated sections can still be rebuilt."""
    report = {"inputs": {}, "outputs": {}, "ok": True, "failed": []}
    serves = dict(SERVES)
    serves.update(_serves_discovered())
    old = open(OUT).read() if os.path.exists(OUT) else ""
    parts = [HEADER]
    seen_defs = {}
    for name, fn in EXTRACTORS + _discover():
        try:
            text = fn(report)
        except Exception as e:  # noqa: BLE001  (Unrecognised, or any parser failure: fail closed)
            report["failed"].append({"extractor": name, "what": getattr(e, "what", type(e).__name__),
                                     "why": getattr(e, "why", repr(e)), "serves": serves.get(name)})
            text = _section(old, name)
            if text is None:
                report.update(ok=False, failed_hard=name, why=repr(e))
                return False, report
        text = _dedupe(text, seen_defs, name, report)
        parts.append(f"\n-- BEGIN {name}\n{text}-- END {name}\n")
    parts.append("\nend Sm.Gen\n")
    text = "".join(parts)
    report["ok"] = not report["failed"]
    if old != text:
        with open(OUT, "w") as f:
            f.write(text)
        report["regenerated"] = True
    return report["ok"], report


if __name__ == "__main__":
    import json
    ok, rep = run()
    print(json.dumps(rep, indent=1))
    raise SystemExit(0 if ok else 1)
