#!/usr/bin/env python3
"""MANIFEST.setup_cmd: build everything the checks need, offline, from files on disk."""
import os, subprocess, sys
V = os.path.dirname(os.path.dirname(os.path.abspath(__file__)))
sys.path.insert(0, os.path.join(V, "harness"))
os.environ.setdefault("CARGO_NET_OFFLINE", "true")
import build_repo, translate
print("package:", build_repo.build())
ok, rep = translate.run()
print("translator ok:", ok)
r = subprocess.run(["lake", "build"], cwd=os.path.join(V, "lean"))
if r.returncode != 0:
    print("lake build failed (checks will report per-theorem)", file=sys.stderr)
rh = os.path.join(V, "rust-harness")
if os.path.exists(os.path.join(rh, "Cargo.toml")):
    import rust_harness
    rust_harness.build()
sys.exit(0)
