#!/bin/sh
# harness/seeds.sh <id> <from> <to> [tier]   -- run a check under several seeds, print one line per seed
id=$1; a=$2; b=$3; tier=${4:-quick}
for s in $(seq $a $b); do
  out=$(VERIF_SEED=$s ./check $id --tier $tier 2>/dev/null); rc=$?
  echo "seed=$s rc=$rc $(echo "$out" | grep -a -c '^VIOLATION') violations; $(echo "$out" | grep -a '^VIOLATION' | head -2 | cut -c1-220)"
done
