"""Build / run the out-of-tree Rust harness (path dependency on /repo/src/core)."""
import os, shutil, subprocess, sys
VERIF = os.path.dirname(os.path.dirname(os.path.abspath(__file__)))
REPO = os.environ.get("VERIF_REPO", "/repo")
BUILD = os.environ.get("VERIF_BUILD", os.path.join(VERIF, ".build"))
SRC = os.path.join(VERIF, "rust-harness")


def build():
    """copies the crate next to the build dir (so that the path dependency can follow VERIF_REPO), builds offline"""
    work = os.path.join(BUILD, "rust-harness")
    os.makedirs(work, exist_ok=True)
    shutil.copytree(os.path.join(SRC, "src"), os.path.join(work, "src"), dirs_exist_ok=True)
    core = os.path.join(REPO, "src", "core")
    for f in os.listdir(os.path.join(work, "src")):        # `include!("/repo/src/core/...")` follows VERIF_REPO too
        if f.endswith(".rs"):
            fp = os.path.join(work, "src", f)
            txt = open(fp).read()
            if 'include!("/repo/src/core' in txt and core != "/repo/src/core":
                with open(fp, "w") as fh:
                    fh.write(txt.replace('include!("/repo/src/core', 'include!("' + core))
    toml = open(os.path.join(SRC, "Cargo.toml")).read().replace("/repo/src/core", os.path.join(REPO, "src", "core"))
    with open(os.path.join(work, "Cargo.toml"), "w") as f:
        f.write(toml)
    shutil.copy(os.path.join(REPO, "Cargo.lock"), os.path.join(work, "Cargo.lock"))
    env = dict(os.environ, CARGO_NET_OFFLINE="true", CARGO_TARGET_DIR=os.path.join(BUILD, "rh_target"))
    r = subprocess.run(["cargo", "build", "--release", "--offline"], cwd=work, env=env,
                       stdout=subprocess.PIPE, stderr=subprocess.STDOUT, text=True)
    if r.returncode != 0:
        print("[rust_harness] build failed:\n" + r.stdout[-4000:], file=sys.stderr)
        raise SystemExit(2)
    return os.path.join(BUILD, "rh_target", "release", "smharness")


def run(module, text, timeout=3600):
    exe = os.path.join(BUILD, "rh_target", "release", "smharness")
    r = subprocess.run([exe, module], input=text, stdout=subprocess.PIPE, stderr=subprocess.PIPE, text=True, timeout=timeout)
    return r.returncode, r.stdout.split("\n")[:-1], r.stderr


if __name__ == "__main__":
    print(build())
