#!/bin/sh
# harness/cov_one.sh <Cxx> [<Cyy>..] : AUDIT TOOL for one property (not a check), usable from any copy of the
# verification tree: runs the quick tier of the given checks under coverage.py (every adapter / in-process CLI call of
# the package built from the source tree) and prints, per file of src/sourmash, the functions never executed.
# Output: $COV/report.txt   (COV defaults to <tree>/.build/cov)
V=$(cd "$(dirname "$0")/.." && pwd)
cd "$V"
python3 harness/setup.py >/dev/null 2>&1
PKG=${VERIF_BUILD:-$V/.build}/pkg
COV=${COV:-$V/.build/cov}; rm -rf "$COV"; mkdir -p "$COV"
cat > "$COV/rc" <<EOF
[run]
parallel = true
data_file = $COV/data
source = $PKG/sourmash
concurrency = multiprocessing
EOF
echo "import coverage; coverage.process_startup()" > "$PKG/sitecustomize.py"
for id in "$@"; do
  COVERAGE_PROCESS_START=$COV/rc VERIF_EVIDENCE=$COV/evidence ./check $id --tier quick > "$COV/$id.out" 2>&1
  echo "$id rc=$?"
done
rm -f "$PKG/sitecustomize.py"
cd "$COV" && /venv/bin/python -m coverage combine --rcfile="$COV/rc" >/dev/null 2>&1
/venv/bin/python -m coverage json --rcfile="$COV/rc" -o "$COV/cov.json" >/dev/null 2>&1
COVJ="$COV/cov.json" REP="$COV/report.txt" /venv/bin/python - <<'P'
import json, ast, os
cov = json.load(open(os.environ['COVJ']))
out = open(os.environ['REP'], 'w')
for path, info in sorted(cov['files'].items()):
    ex = set(info['executed_lines'])
    try:
        tree = ast.parse(open(path).read())
    except Exception:
        continue
    miss, part, tot = [], [], 0
    def visit(node, prefix=''):
        global tot
        for n in getattr(node, 'body', []):
            if isinstance(n, (ast.FunctionDef, ast.AsyncFunctionDef)):
                tot += 1
                body = {m.lineno for s in n.body for m in ast.walk(s) if hasattr(m, 'lineno')}
                hit = len(body & ex)
                if not hit:
                    miss.append(prefix + n.name)
                elif hit < 0.6 * len(body):
                    part.append(f"{prefix}{n.name}({hit}/{len(body)})")
            if isinstance(n, ast.ClassDef):
                visit(n, prefix + n.name + '.')
    visit(tree)
    rel = path.split('/pkg/')[-1]
    out.write(f"{rel}: {info['summary']['percent_covered']:.0f}% lines; never executed {len(miss)}/{tot}: {' '.join(miss)}; "
              f"less than 60% of lines executed: {' '.join(part)}\n")
out.close()
print("report:", os.environ['REP'])
P
