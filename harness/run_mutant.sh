#!/bin/sh
# harness/run_mutant.sh <ABSOLUTE dir with patch.diff> <check id>...
# Runs the checks against the mutant WITHOUT touching /repo or /verif: a scratch worktree of /repo HEAD with the patch
# applied, and a scratch COPY of /verif (/var/tmp/verif_mut; the translator rewrites Model/Generated.lean from the
# mutant's source, which must not happen in the main tree while other checks run).
# (Equivalent to: git -C /repo apply <patch>; ./check ...; git -C /repo checkout -- .)
d=$1; shift
id=$(basename $d); wt=/tmp/rm_$id
V=${VERIF_MUT_HOME:-/var/tmp/verif_mut}
mkdir -p $V
rsync -a --delete --exclude .git --exclude evidence --exclude .build_mut /verif/ $V/
mkdir -p $V/evidence
git -C /repo worktree remove --force $wt 2>/dev/null
git -C /repo worktree add --detach $wt HEAD >/dev/null 2>&1 || exit 2
( cd $wt && git apply $d/patch.diff ) || { echo "$id: patch does not apply"; git -C /repo worktree remove --force $wt; exit 2; }
cd $V
for cid in "$@"; do
  out=$(VERIF_REPO=$wt VERIF_BUILD=$V/.build VERIF_EVIDENCE=$V/evidence VERIF_SEED=${VERIF_SEED:-7} ./check $cid --tier ${TIER:-quick} 2>/dev/null); rc=$?
  echo "== $id vs $cid: rc=$rc"; echo "$out" | grep -a '^VIOLATION' | cut -c1-260 | head -4
done
git -C /repo worktree remove --force $wt
