#!/bin/sh
# harness/run_mutant.sh <dir with patch.diff> <check id>...
# Runs the checks against the mutant WITHOUT touching /repo (sub-agents read /repo concurrently):
# a scratch worktree of /repo HEAD with the patch applied, VERIF_REPO/VERIF_BUILD pointing at it.
# (Equivalent to: git -C /repo apply <patch>; ./check ...; git -C /repo checkout -- .)
d=$1; shift
id=$(basename $d); wt=/tmp/rm_$id
git -C /repo worktree remove --force $wt 2>/dev/null
git -C /repo worktree add --detach $wt HEAD >/dev/null 2>&1 || exit 2
( cd $wt && git apply $d/patch.diff ) || { echo "$id: patch does not apply"; git -C /repo worktree remove --force $wt; exit 2; }
mkdir -p /verif/.build_mut
# seed the mutant build dir with the regular cargo cache so that only the changed crate rebuilds
[ -d /verif/.build_mut/target ] || cp -r /verif/.build/target /verif/.build_mut/target 2>/dev/null
cd /verif
for cid in "$@"; do
  out=$(VERIF_REPO=$wt VERIF_BUILD=/verif/.build_mut VERIF_EVIDENCE=/verif/.build_mut/evidence VERIF_SEED=${VERIF_SEED:-7} ./check $cid --tier ${TIER:-quick} 2>/dev/null); rc=$?
  echo "== $id vs $cid: rc=$rc"; echo "$out" | grep -a '^VIOLATION' | cut -c1-260 | head -4
done
git -C /repo worktree remove --force $wt
# the translator may have regenerated Generated.lean from the mutant: regenerate from /repo
python3 harness/translate.py >/dev/null
