#!/bin/sh
# Run /repo's own pytest suite against a package built from /repo's WORKING TREE
# (the plain baseline command exercises /venv's installed wheel and cannot see edits to /repo/src).
# usage: harness/run_suite.sh [pytest args]      -> junit at /var/tmp/sm_suite.junit.xml
set -e
cd /repo
export CARGO_NET_OFFLINE=true
cargo build --release --offline -p sourmash --lib --features maturin,branchwater >/var/tmp/sm_suite_cargo.log 2>&1 || { tail -30 /var/tmp/sm_suite_cargo.log; exit 2; }
PKG=/var/tmp/sm_suite_pkg
rm -rf "$PKG"; mkdir -p "$PKG"
cp -r /repo/src/sourmash "$PKG/sourmash"
rm -rf "$PKG/sourmash/_lowlevel"; mkdir -p "$PKG/sourmash/_lowlevel"
cp /repo/target/release/libsourmash.so "$PKG/sourmash/_lowlevel/lib_lowlevel.so"
cat > "$PKG/sourmash/_lowlevel/__init__.py" <<'PYEOF'
__all__ = ["lib", "ffi"]
import os
from sourmash._lowlevel.ffi import ffi
lib = ffi.dlopen(os.path.join(os.path.dirname(__file__), "lib_lowlevel.so"), 0)
del os
PYEOF
/venv/bin/python - "$PKG" <<'PYEOF'
import cffi, cffi.recompiler, sys
ffi = cffi.FFI()
ffi.cdef(''.join(l for l in open('/repo/include/sourmash.h') if not l.startswith('#')))
cffi.recompiler.make_py_source(ffi, 'ffi', sys.argv[1] + '/sourmash/_lowlevel/ffi.py')
PYEOF
[ -f "$PKG/sourmash/version.py" ] || printf 'version = "4.8.11"\n__version__ = version\n' > "$PKG/sourmash/version.py"
PYTHONPATH="$PKG" /venv/bin/python -m pytest -q -p no:cacheprovider --timeout=900 --continue-on-collection-errors -n 14 --junitxml=/var/tmp/sm_suite.junit.xml "$@" 2>&1 | tail -15
