#!/usr/bin/env python3
"""compare a junit xml (from run_suite.sh) with BASELINE.json's stable_pass list"""
import json, sys, xml.etree.ElementTree as ET
base = json.load(open('/root/.vp/BASELINE.json'))
stable = set(base['stable_pass'])
t = ET.parse(sys.argv[1] if len(sys.argv) > 1 else '/var/tmp/sm_suite.junit.xml')
res = {}
for tc in t.iter('testcase'):
    name = tc.get('classname', '') + '::' + tc.get('name', '')
    bad = any(ch.tag in ('failure', 'error') for ch in tc)
    skipped = any(ch.tag == 'skipped' for ch in tc)
    res[name] = 'fail' if bad else ('skip' if skipped else 'pass')
print('sample baseline ids:', list(stable)[:2]); print('sample junit ids:', list(res)[:2])
def norm(n): return n.replace('/', '.').replace('.py::', '::')
resn = {norm(k): v for k, v in res.items()}
lost = [s for s in stable if resn.get(norm(s)) != 'pass']
print(f'stable={len(stable)} junit={len(res)} stable-not-passing={len(lost)}')
for l in lost[:20]: print('  ', l, resn.get(norm(l)))
sys.exit(1 if lost else 0)
