#!/usr/bin/env python3
"""Regenerates the generated tables of DESIGN.md section 9 (between <!-- BEGIN x --> / <!-- END x --> markers)
from known_findings.json, seeded/*/meta.json, MANIFEST.json and evidence/*.json."""
import glob, json, os, re
V = os.path.dirname(os.path.dirname(os.path.abspath(__file__)))


def findings():
    k = json.load(open(os.path.join(V, "known_findings.json")))["findings"]
    rows = ["| property | id | status | signature | what |", "|---|---|---|---|---|"]
    for f in sorted(k, key=lambda f: (f["property"], f["status"] != "known", f["id"])):
        st = f["status"] + (" " + f.get("commit", "")[:7] if f["status"] == "fixed" else "")
        what = re.sub(r"^fixed: property=\S+ (\S{7} )?", "", f["what"]).replace("|", "\\|").replace("\n", " ")
        rows.append(f"| {f['property']} | {f['id']} | {st} | `{f['signature']}` | {what[:260]} |")
    n_fixed = sum(1 for f in k if f["status"] == "fixed")
    rows.append("")
    rows.append(f"{len(k)} findings: {n_fixed} repaired by `fix:` commits in /repo (each validated against the project's own suite on a build of the working tree), {len(k) - n_fixed} recorded as known.")
    return "\n".join(rows)


def seeded():
    rows = ["| seeded change | breaks | what it needs | result |", "|---|---|---|---|"]
    for d in sorted(glob.glob(os.path.join(V, "seeded", "*"))):
        try:
            m = json.load(open(os.path.join(d, "meta.json")))
        except (OSError, ValueError):
            continue
        def c(x): return str(x or "").replace("|", "\\|").replace("\n", " ")
        rows.append(f"| {os.path.basename(d)} | {c(m.get('breaks_property'))[:60]} | {c(m.get('needs'))[:220]} | {c(m.get('check_result'))[:260]} |")
    return "\n".join(rows)


def status():
    m = json.load(open(os.path.join(V, "MANIFEST.json")))
    rows = ["| id | claimed | theorems (obligations = discharged) | quick cases | distinct non-trivial | wall s |", "|---|---|---|---|---|---|"]
    for c in m["checks"]:
        p = c["property_id"]
        try:
            e = json.load(open(os.path.join(V, "evidence", p + ".json")))
            cov = e["coverage"]
            rows.append(f"| {p} | {c['level_claimed']['category']} | {cov.get('obligations')} = {cov.get('discharged')} | {cov.get('evaluations')} | {cov.get('distinct_nontrivial')} | {e.get('wall_s')} |")
        except (OSError, ValueError):
            rows.append(f"| {p} | {c['level_claimed']['category']} | (no evidence yet) | | | |")
    for n in m.get("not_applicable", []):
        rows.append(f"| {n['property_id']} | not claimed | {n['reason'][:120]} | | | |")
    return "\n".join(rows)


def asbuilt():
    m = json.load(open(os.path.join(V, "MANIFEST.json")))
    out = []
    for c in m["checks"]:
        out.append(f"**{c['property_id']}** ({c.get('technique', '')})  \n{c['level_claimed']['text']}  \n*Assumed / trusted:* {c['level_note']}\n")
    return "\n".join(out)


def main():
    p = os.path.join(V, "DESIGN.md")
    s = open(p).read()
    for name, fn in (("findings", findings), ("seeded", seeded), ("status", status), ("asbuilt", asbuilt)):
        b, e = f"<!-- BEGIN {name} -->", f"<!-- END {name} -->"
        if b in s and e in s:
            s = s[:s.index(b) + len(b)] + "\n" + fn() + "\n" + s[s.index(e):]
    open(p, "w").write(s)


if __name__ == "__main__":
    main()
