"""Translator pieces for C04 (set operations): small expression shapes of
src/sourmash/sig/__main__.py and src/sourmash/minhash.py that the hand-written
model `Model/SigOps.lean` depends on.  Strict: an unrecognised shape fails the
translation (the caller reports the tie as broken)."""
import re

from translate import Unrecognised, read, norm, py_fn_body

CMP = {">=": ("ge", False), ">": ("gt", True), "<=": ("le", False), "<": ("lt", True)}


def x_sigfilter(report):
    """the abundance selection of `sourmash sig filter`:
         for k, v in abunds.items():
             if v <OP1> args.min_abundance:
                 if args.max_abundance is None or v <OP2> args.max_abundance:
                     abunds2[k] = v
    """
    src = read("src/sourmash/sig/__main__.py")
    body = norm(py_fn_body(src, "filter"))
    m = re.search(r"for k, v in abunds\.items\(\): if v (\S+) args\.min_abundance: "
                  r"if args\.max_abundance is None or v (\S+) args\.max_abundance: abunds2\[k\] = v "
                  r"filtered_mh = mh\.copy_and_clear\(\) filtered_mh\.set_abundances\(abunds2\)", body)
    if not m:
        raise Unrecognised("sig.filter", "abundance selection loop not of the modelled shape: " + body[:300])
    op1, op2 = m.group(1), m.group(2)
    if op1 not in (">=", ">") or op2 not in ("<=", "<"):
        raise Unrecognised("sig.filter", f"comparison operators {op1} {op2} not modelled")
    report["inputs"]["sig.filter"] = m.group(0)
    report["outputs"]["sig.filter"] = {"min": op1, "max": op2}
    return f"""
/-- `sig filter`: comparison operators of the abundance selection (`v {op1} min`, `v {op2} max`);
    true = strict -/
def sigFilterMinStrict : Bool := {str(CMP[op1][1]).lower()}
def sigFilterMaxStrict : Bool := {str(CMP[op2][1]).lower()}
"""


def x_aliases(report):
    """operator aliases in class MinHash: `__or__ = __add__`, `__and__ = intersection`, `copy = __copy__`"""
    src = read("src/sourmash/minhash.py")
    i = src.index("class MinHash(RustObject):")
    j = src.index("class FrozenMinHash(MinHash):")
    cls = src[i:j]
    res = {}
    for name, target in (("__or__", "__add__"), ("__and__", "intersection"), ("copy", "__copy__")):
        hits = re.findall(r"^    " + re.escape(name) + r"\s*=\s*(\w+)\s*$", cls, re.M)
        defs = re.findall(r"^    def " + re.escape(name) + r"\(", cls, re.M)
        res[name] = (hits == [target] and not defs)
    report["outputs"]["minhash.aliases"] = res
    return f"""
/-- operator aliases in class MinHash (`__or__ = __add__`, `__and__ = intersection`, `copy = __copy__`) -/
def orIsAdd : Bool := {str(res['__or__']).lower()}
def andIsIntersection : Bool := {str(res['__and__']).lower()}
def copyIsDunderCopy : Bool := {str(res['copy']).lower()}
"""


EXTRACTORS = [("sig_filter", x_sigfilter), ("minhash_aliases", x_aliases)]
SERVES = ["C04"]
