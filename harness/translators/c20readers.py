"""C20: tie of the hand-written reader models (Model/CsvReaders.lean, JsonReaders.lean, LoaderChain.lean) to
/repo's current source.  Strict and fail closed, two layers:

1. PINS.  The models were written against the exact text of the functions listed in PINNED.  Every run
   re-reads those functions, drops docstrings/comments (ast.unparse) and compares with the text recorded in
   `c20_pins.json`; any difference is `Unrecognised` (the model has to be re-read against the new text and the
   pin renewed deliberately with `python3 harness/translators/c20readers.py --repin`).
2. SLOTS.  The literals the models take from `Gen` are extracted from the pinned functions by AST shape:
   header prefix, required keys, converted columns, coltype tables and preprocess lambdas, LCA type string and
   rank list, SBT versions / storage back ends / hidden-directory threshold, loader table with the exception
   classes each loader function converts, the classes the chain swallows.
"""
import ast
import hashlib
import json
import os
import re
import sys

if __name__ == "__main__":
    sys.path.insert(0, os.path.dirname(os.path.dirname(os.path.abspath(__file__))))

import translate
from translate import Unrecognised

PIN_FILE = os.path.join(os.path.dirname(os.path.abspath(__file__)), "c20_pins.json")

# (file, class or None, name) -- name may be a function, or a module/class level assignment target
PINNED = [
    ("src/sourmash/manifest.py", "BaseCollectionManifest", "required_keys"),
    ("src/sourmash/manifest.py", "BaseCollectionManifest", "load_from_filename"),
    ("src/sourmash/manifest.py", "BaseCollectionManifest", "load_from_csv"),
    ("src/sourmash/manifest.py", "CollectionManifest", "__init__"),
    ("src/sourmash/manifest.py", "CollectionManifest", "_add_rows"),
    ("src/sourmash/picklist.py", None, "preprocess"),
    ("src/sourmash/picklist.py", None, "combine_ident_md5"),
    ("src/sourmash/picklist.py", "SignaturePicklist", "meta_coltypes"),
    ("src/sourmash/picklist.py", "SignaturePicklist", "supported_coltypes"),
    ("src/sourmash/picklist.py", "SignaturePicklist", "__init__"),
    ("src/sourmash/picklist.py", "SignaturePicklist", "from_picklist_args"),
    ("src/sourmash/picklist.py", "SignaturePicklist", "_get_value_for_csv_row"),
    ("src/sourmash/picklist.py", "SignaturePicklist", "init"),
    ("src/sourmash/picklist.py", "SignaturePicklist", "load"),
    ("src/sourmash/picklist.py", "SignaturePicklist", "add"),
    ("src/sourmash/sourmash_args.py", "_DictReader_with_version", "__init__"),
    ("src/sourmash/sourmash_args.py", None, "FileInputCSV"),
    ("src/sourmash/sourmash_args.py", None, "load_pathlist_from_file"),
    ("src/sourmash/sbt.py", None, "STORAGES"),
    ("src/sourmash/sbt.py", "GraphFactory", "__init__"),
    ("src/sourmash/sbt.py", "SBT", "__init__"),
    ("src/sourmash/sbt.py", "SBT", "load"),
    ("src/sourmash/sbt.py", "SBT", "_load_v1"),
    ("src/sourmash/sbt.py", "SBT", "_load_v2"),
    ("src/sourmash/sbt.py", "SBT", "_load_v3"),
    ("src/sourmash/sbt.py", "SBT", "_load_v4"),
    ("src/sourmash/sbt.py", "SBT", "_load_v5"),
    ("src/sourmash/sbt.py", "SBT", "_load_v6"),
    ("src/sourmash/sbt.py", "SBT", "children"),
    ("src/sourmash/sbt.py", "Node", "__init__"),
    ("src/sourmash/sbt.py", "Node", "load"),
    ("src/sourmash/sbt.py", "Leaf", "__init__"),
    ("src/sourmash/sbt.py", "Leaf", "load"),
    ("src/sourmash/sbtmh.py", None, "load_sbt_index"),
    ("src/sourmash/sbt_storage.py", "FSStorage", "__init__"),
    ("src/sourmash/sbt_storage.py", "FSStorage", "load"),
    ("src/sourmash/sbt_storage.py", "ZipStorage", "load"),
    ("src/sourmash/sbt.py", "Node", "data"),
    ("src/sourmash/sbt.py", "Leaf", "data"),
    ("src/sourmash/sbtmh.py", "SigLeaf", "data"),
    ("src/sourmash/index/__init__.py", "ZipFileLinearIndex", "_load_manifest"),
    ("src/sourmash/index/__init__.py", "ZipFileLinearIndex", "load"),
    ("src/sourmash/index/__init__.py", "ZipFileLinearIndex", "signatures"),
    ("src/sourmash/nodegraph.py", None, "extract_nodegraph_info"),
    ("src/sourmash/lca/lca_db.py", "LCA_Database", "__init__"),
    ("src/sourmash/lca/lca_db.py", "LCA_Database", "load"),
    ("src/sourmash/lca/lca_db.py", None, "load_single_database"),
    ("src/sourmash/lca/lca_db.py", None, "load_databases"),
    ("src/sourmash/lca/lca_utils.py", None, "taxlist"),
    ("src/sourmash/save_load.py", None, "load_file_as_index"),
    ("src/sourmash/save_load.py", None, "_load_database"),
    ("src/sourmash/save_load.py", None, "add_loader"),
    ("src/sourmash/save_load.py", None, "_load_stdin"),
    ("src/sourmash/save_load.py", None, "_load_standalone_manifest"),
    ("src/sourmash/save_load.py", None, "_multiindex_load_from_pathlist"),
    ("src/sourmash/save_load.py", None, "_multiindex_load_from_path"),
    ("src/sourmash/save_load.py", None, "_load_sbt"),
    ("src/sourmash/save_load.py", None, "_load_revindex"),
    ("src/sourmash/save_load.py", None, "_load_sqlite_db"),
    ("src/sourmash/save_load.py", None, "_load_zipfile"),
    ("src/sourmash/save_load.py", None, "_error_on_fastaq"),
    ("src/sourmash/index/__init__.py", "MultiIndex", "load_from_path"),
    ("src/sourmash/index/__init__.py", "MultiIndex", "load_from_pathlist"),
    ("src/sourmash/index/__init__.py", "StandaloneManifestIndex", "load"),
    ("src/sourmash/exceptions.py", None, "IndexNotSupported"),
    ("src/sourmash/exceptions.py", None, "IndexNotLoaded"),
]

_trees = {}


def _tree(rel):
    if rel not in _trees:
        _trees[rel] = ast.parse(translate.read(rel))
    return _trees[rel]


def _strip_doc(node):
    if isinstance(node, (ast.FunctionDef, ast.ClassDef)) and node.body:
        b = node.body[0]
        if isinstance(b, ast.Expr) and isinstance(getattr(b, "value", None), ast.Constant) and isinstance(b.value.value, str):
            node.body = node.body[1:] or [ast.Pass()]
    return node


def _find(rel, cls, name):
    tree = _tree(rel)
    scope = tree.body
    if cls is not None:
        cands = [n for n in tree.body if isinstance(n, ast.ClassDef) and n.name == cls]
        if len(cands) != 1:
            raise Unrecognised(f"{rel}:{cls}", "class not found (or defined twice)")
        scope = cands[0].body
    hits = []
    for n in scope:
        if isinstance(n, (ast.FunctionDef, ast.ClassDef)) and n.name == name:
            hits.append(n)
        elif isinstance(n, ast.Assign) and any(isinstance(t, ast.Name) and t.id == name for t in n.targets):
            hits.append(n)
        elif isinstance(n, ast.Assign) and any(isinstance(t, ast.Subscript) and isinstance(t.value, ast.Name)
                                               and t.value.id == name for t in n.targets):
            hits.append(n)
    if not hits:
        raise Unrecognised(f"{rel}:{cls or ''}.{name}", "definition not found")
    return hits


def _text(rel, cls, name):
    parts = []
    for n in _find(rel, cls, name):
        n = ast.parse(ast.unparse(n)).body[0]       # private copy
        for sub in ast.walk(n):
            _strip_doc(sub)
        parts.append(ast.unparse(n))
    return "\n".join(parts)


def _key(rel, cls, name):
    return f"{rel}::{cls or ''}::{name}"


def current_pins():
    return {_key(*p): _text(*p) for p in PINNED}


def x_pins(report):
    if not os.path.exists(PIN_FILE):
        raise Unrecognised("c20_pins", "pin file missing")
    want = json.load(open(PIN_FILE))
    have = current_pins()
    changed = []
    for k in sorted(set(want) | set(have)):
        if want.get(k) != have.get(k):
            a = (want.get(k) or "").split("\n")
            b = (have.get(k) or "").split("\n")
            first = next((f"-{x!r} +{y!r}" for x, y in zip(a + [""] * len(b), b + [""] * len(a)) if x != y), "")
            changed.append(f"{k}: {first[:200]}")
    if changed:
        raise Unrecognised("pinned-reader-source",
                           f"{len(changed)} modelled function(s) differ from the text the models were written against: "
                           + " | ".join(changed[:4]))
    digest = hashlib.sha256(json.dumps(have, sort_keys=True).encode()).hexdigest()
    report["outputs"]["c20_pins"] = {"functions": len(have), "sha256": digest}
    return f"\n/-- number of source functions the C20 reader models are pinned to (sha256 {digest[:16]}…) -/\ndef c20PinnedFunctions : Nat := {len(have)}\n"


# --------------------------------------------------------------------------------------------- helpers

def _lean_str(s):
    out = []
    for ch in s:
        if ch == "\\":
            out.append("\\\\")
        elif ch == '"':
            out.append('\\"')
        elif ch == "\n":
            out.append("\\n")
        elif 32 <= ord(ch) < 127:
            out.append(ch)
        else:
            raise Unrecognised("literal", f"non-printable character in a source literal: {s!r}")
    return '"' + "".join(out) + '"'


def _lean_list(xs):
    return "[" + ", ".join(_lean_str(x) for x in xs) + "]"


def _fn(rel, cls, name):
    hits = [n for n in _find(rel, cls, name) if isinstance(n, ast.FunctionDef)]
    if len(hits) != 1:
        raise Unrecognised(name, "expected exactly one function definition")
    return hits[0]


def _str_tuple(node, what):
    if not isinstance(node, (ast.Tuple, ast.List)) or not all(isinstance(e, ast.Constant) and isinstance(e.value, str) for e in node.elts):
        raise Unrecognised(what, "not a literal tuple of strings")
    return [e.value for e in node.elts]


def _assign_value(rel, cls, name):
    hits = [n for n in _find(rel, cls, name) if isinstance(n, ast.Assign)]
    if len(hits) != 1:
        raise Unrecognised(name, "expected exactly one assignment")
    return hits[0].value


def _has(src, needle, what):
    if re.sub(r"\s+", " ", needle) not in re.sub(r"\s+", " ", src):
        raise Unrecognised(what, f"expected `{needle}`")


# --------------------------------------------------------------------------------------------- manifest

def x_manifest(report):
    rel = "src/sourmash/manifest.py"
    required = _str_tuple(_assign_value(rel, "BaseCollectionManifest", "required_keys"), "required_keys")
    fn = _fn(rel, "BaseCollectionManifest", "load_from_csv")
    src = ast.unparse(fn)
    prefixes = set()
    for n in ast.walk(fn):
        if isinstance(n, ast.Constant) and isinstance(n.value, str) and n.value.startswith("# SOURMASH"):
            prefixes.add(n.value)
    if len(prefixes) != 1:
        raise Unrecognised("load_from_csv", f"version header literal not unique: {sorted(prefixes)}")
    prefix = prefixes.pop()
    _has(src, f"firstline = fp.readline().rstrip()", "load_from_csv")
    _has(src, f"if not firstline.startswith({prefix!r}):", "load_from_csv")
    _has(src, f"version = firstline[len({prefix!r}):]", "load_from_csv")
    _has(src, "if float(version) != 1.0:", "load_from_csv")
    _has(src, "r = csv.DictReader(fp)", "load_from_csv")
    _has(src, "if not r.fieldnames:", "load_from_csv")
    _has(src, "for k in cls.required_keys: if k not in r.fieldnames: raise ValueError", "load_from_csv")
    _has(src, "for k in introws: row[k] = int(row[k])", "load_from_csv")
    # two variants of the with_abundance conversion: bare literal_eval (before the repair of C20.2), or wrapped so that
    # the listed literal_eval failure classes come out as ValueError
    fnode = None
    for n in ast.walk(fn):
        if isinstance(n, ast.For) and ast.unparse(n.iter) == "boolrows":
            fnode = n
    if fnode is None or len(fnode.body) != 1:
        raise Unrecognised("load_from_csv", "boolrows loop not found / has more than one statement")
    body = fnode.body[0]
    bare = "row[k] = bool(ast.literal_eval(str(row[k])))"
    lit_caught = []
    if ast.unparse(body) == bare:
        pass
    elif (isinstance(body, ast.Try) and len(body.body) == 1 and ast.unparse(body.body[0]) == bare and len(body.handlers) == 1
          and not body.orelse and not body.finalbody):
        h = body.handlers[0]
        lit_caught = _exc_names(h.type)
        if len(h.body) != 1 or not isinstance(h.body[0], ast.Raise) or not isinstance(h.body[0].exc, ast.Call) \
                or ast.unparse(h.body[0].exc.func) != "ValueError":
            raise Unrecognised("load_from_csv", "the handler around literal_eval does not simply raise ValueError")
        known = {"SyntaxError", "MemoryError", "RecursionError", "TypeError", "ValueError"}
        if not set(lit_caught) <= known:
            raise Unrecognised("load_from_csv", f"handler around literal_eval catches unmodelled classes: {lit_caught}")
    else:
        raise Unrecognised("load_from_csv", "with_abundance conversion is neither the bare nor the wrapped literal_eval shape: " + ast.unparse(body)[:120])
    introws = boolrows = None
    for n in ast.walk(fn):
        if isinstance(n, ast.Assign) and isinstance(n.targets[0], ast.Name):
            if n.targets[0].id == "introws":
                introws = _str_tuple(n.value, "introws")
            if n.targets[0].id == "boolrows":
                boolrows = _str_tuple(n.value, "boolrows")
    if introws is None or boolrows is None or len(boolrows) != 1 or len(introws) != 4:
        raise Unrecognised("load_from_csv", f"introws/boolrows changed: {introws} {boolrows}")
    if not set(introws + boolrows) <= set(required):
        raise Unrecognised("load_from_csv", "a converted column is not a required key")
    report["outputs"]["c20_manifest"] = {"prefix": prefix, "required": required, "introws": introws, "boolrows": boolrows,
                                         "literal_eval_classes_turned_into_ValueError": lit_caught}
    return (f"\n/-- manifest.py `load_from_csv`: the version header, required columns, converted columns -/\n"
            f"def c20ManifestPrefix : String := {_lean_str(prefix)}\n"
            f"def c20ManifestRequired : List String := {_lean_list(required)}\n"
            f"def c20ManifestIntCols : List String := {_lean_list(introws)}\n"
            f"def c20ManifestBoolCol : String := {_lean_str(boolrows[0])}\n"
            f"/-- classes raised by `ast.literal_eval` on the with_abundance cell that `load_from_csv` turns into ValueError "
            f"(empty: the bare call of before the repair of C20.2) -/\n"
            f"def c20ManifestLitCaught : List String := {_lean_list(lit_caught)}\n")


# --------------------------------------------------------------------------------------------- picklist

PRE_SHAPES = {
    "lambda x: x": "id",
    "lambda x: x.split(' ')[0]": "split_space_0",
    "lambda x: x.split(' ')[0].split('.')[0]": "split_space_0_split_dot_0",
    "lambda x: x[:8]": "first8",
    "combine_ident_md5": "combine_ident_md5",
}


def x_picklist(report):
    rel = "src/sourmash/picklist.py"
    meta = _str_tuple(_assign_value(rel, "SignaturePicklist", "meta_coltypes"), "meta_coltypes")
    supported = _str_tuple(_assign_value(rel, "SignaturePicklist", "supported_coltypes"), "supported_coltypes")
    table = []
    for n in _find(rel, None, "preprocess"):
        if isinstance(n, ast.Assign) and isinstance(n.targets[0], ast.Subscript):
            k = n.targets[0].slice
            if not (isinstance(k, ast.Constant) and isinstance(k.value, str)):
                raise Unrecognised("preprocess", "non-literal key")
            shape = PRE_SHAPES.get(ast.unparse(n.value))
            if shape is None:
                raise Unrecognised("preprocess", f"unmodelled preprocessing function for {k.value}: {ast.unparse(n.value)}")
            table.append((k.value, shape))
    if sorted(k for k, _ in table) != sorted(meta + supported):
        raise Unrecognised("preprocess", "table keys differ from meta_coltypes + supported_coltypes")
    comb = ast.unparse(_fn(rel, None, "combine_ident_md5"))
    _has(comb, "name, md5 = x ident = name.split(' ')[0] md5 = md5[:8] return (ident, md5)", "combine_ident_md5")
    g = ast.unparse(_fn(rel, "SignaturePicklist", "_get_value_for_csv_row"))
    _has(g, "if self.coltype == 'manifest': q = (row['name'], row['md5']) elif self.coltype == 'prefetch': "
            "q = (row['match_name'], row['match_md5']) elif self.coltype in ('gather', 'search'): q = (row['name'], row['md5']) "
            "else: q = row[self.column_name] if q: q = self.preprocess_fn(q) return q", "_get_value_for_csv_row")
    if sorted(meta) != sorted(["manifest", "prefetch", "gather", "search"]):
        raise Unrecognised("meta_coltypes", f"changed: {meta}")
    metacols = [("manifest", "name", "md5"), ("prefetch", "match_name", "match_md5"), ("gather", "name", "md5"), ("search", "name", "md5")]
    a = ast.unparse(_fn(rel, "SignaturePicklist", "from_picklist_args"))
    _has(a, "picklist = argstr.split(':')", "from_picklist_args")
    _has(a, "if len(picklist) == 4: pickstyle_str = picklist.pop() if pickstyle_str == 'include': pickstyle = PickStyle.INCLUDE "
            "elif pickstyle_str == 'exclude': pickstyle = PickStyle.EXCLUDE else: raise ValueError", "from_picklist_args")
    _has(a, "if len(picklist) != 3: raise ValueError", "from_picklist_args")
    ld = ast.unparse(_fn(rel, "SignaturePicklist", "load"))
    _has(ld, "if not os.path.exists(pickfile) or not os.path.isfile(pickfile): raise ValueError", "load")
    _has(ld, "if not (column_name in r.fieldnames or coltype in self.meta_coltypes): raise ValueError", "load")
    _has(ld, "col = self._get_value_for_csv_row(row) if not col: n_empty_val += 1 continue if col in pickset: dup_vals.add(col) else: self.add(col)", "load")
    dr = ast.unparse(_fn("src/sourmash/sourmash_args.py", "_DictReader_with_version", "__init__"))
    strict = "ch = textfp.buffer.peek(1) try: ch = ch.decode('utf-8') except UnicodeDecodeError: raise csv.Error"
    incremental = "ch = textfp.buffer.peek(1) try: ch = codecs.getincrementaldecoder('utf-8')().decode(ch) except UnicodeDecodeError: raise csv.Error"
    drn = re.sub(r"\s+", " ", dr)
    peek_incremental = incremental in drn
    if peek_incremental == (strict in drn):
        raise Unrecognised("_DictReader_with_version", "the peeked chunk is decoded neither strictly (`ch.decode('utf-8')`) nor "
                                                        "incrementally (`codecs.getincrementaldecoder('utf-8')().decode(ch)`)")
    _has(dr, "if ch.startswith('#'): line = textfp.readline() assert line.startswith('# '), line", "_DictReader_with_version")
    report["outputs"]["c20_picklist"] = {"meta": meta, "supported": supported, "preprocess": table, "peek_incremental": peek_incremental}
    return (f"\n/-- picklist.py: coltype tables, preprocess lambdas (shape names), columns of the meta-coltypes -/\n"
            f"def c20PickMeta : List String := {_lean_list(meta)}\n"
            f"def c20PickSupported : List String := {_lean_list(supported)}\n"
            f"def c20PickPreprocess : List (String × String) := [" + ", ".join(f"({_lean_str(k)}, {_lean_str(v)})" for k, v in table) + "]\n"
            f"def c20PickMetaCols : List (String × String × String) := [" + ", ".join(f"({_lean_str(a)}, {_lean_str(b)}, {_lean_str(c)})" for a, b, c in metacols) + "]\n"
            f"/-- `_DictReader_with_version`: is the peeked first chunk decoded incrementally (a multi-byte character cut by the "
            f"buffer edge is fine) or strictly (before the repair of C20.4: such a file is refused with csv.Error)? -/\n"
            f"def c20PeekIncremental : Bool := {'true' if peek_incremental else 'false'}\n")


# --------------------------------------------------------------------------------------------- LCA

def x_lca(report):
    rel = "src/sourmash/lca/lca_db.py"
    src = ast.unparse(_fn(rel, "LCA_Database", "load"))
    m = re.search(r"if db_type != '([^']+)':\s+raise ValueError", src)
    if not m:
        raise Unrecognised("LCA_Database.load", "type check not found")
    typ = m.group(1)
    _has(src, "if not os.path.isfile(db_name): raise ValueError", "LCA_Database.load")
    _has(src, "try: from sourmash.index.sqlite_index import LCA_SqliteDatabase return LCA_SqliteDatabase.load(db_name) except ValueError: pass", "LCA_Database.load")
    _has(src, "try: first_ch = fp.read(1) except ValueError: first_ch = 'X' if not first_ch or first_ch[0] != '{': raise ValueError", "LCA_Database.load")
    _has(src, "try: load_d = json.load(fp) except json.decoder.JSONDecodeError: pass if not load_d: raise ValueError", "LCA_Database.load")
    _has(src, "version = float(version) if version < 2.0 or 'lid_to_lineage' not in load_d: raise ValueError", "LCA_Database.load")
    _has(src, "ksize = int(load_d['ksize']) scaled = int(load_d['scaled']) moltype = load_d.get('moltype', 'DNA') "
              "if moltype != 'DNA': assert ksize % 3 == 0 ksize = int(ksize / 3)", "LCA_Database.load")
    _has(src, "for k, v in lid_to_lineage_2.items(): v = dict(((x[0], x[1]) for x in v)) vv = [] for rank in taxlist(): "
              "name = v.get(rank, '') vv.append(LineagePair(rank, name)) vv = tuple(vv) lid_to_lineage[int(k)] = vv lineage_to_lid[vv] = int(k)",
         "LCA_Database.load")
    _has(src, "for k, v in hashval_to_idx_2.items(): hashval_to_idx[int(k)] = set(v)", "LCA_Database.load")
    _has(src, "db._ident_to_name = load_d['ident_to_name'] db._ident_to_idx = load_d['ident_to_idx'] db._idx_to_lid = {} "
              "for k, v in load_d['idx_to_lid'].items(): db._idx_to_lid[int(k)] = v", "LCA_Database.load")
    _has(src, "if db._ident_to_idx: db._next_index = max(db._ident_to_idx.values()) + 1 else: db._next_index = 0 "
              "if db._idx_to_lid: db._next_lid = max(db._idx_to_lid.values()) + 1 else: db._next_lid = 0", "LCA_Database.load")
    license_checked = "license" in src
    tl = _fn("src/sourmash/lca/lca_utils.py", None, "taxlist")
    ranks = None
    for n in ast.walk(tl):
        if isinstance(n, (ast.List, ast.Tuple)) and n.elts and all(isinstance(e, ast.Constant) and isinstance(e.value, str) for e in n.elts):
            ranks = [e.value for e in n.elts]
            break
    tsrc = ast.unparse(tl)
    if ranks is None:
        raise Unrecognised("taxlist", "rank list not found")
    if "include_strain" not in tsrc:
        raise Unrecognised("taxlist", "include_strain parameter gone")
    # taxlist() default include_strain=True yields the ranks and then 'strain'
    full = list(ranks)
    if "strain" not in full:
        if not re.search(r"if include_strain:\s+yield 'strain'", tsrc):
            raise Unrecognised("taxlist", "strain rule changed")
        full.append("strain")
    report["outputs"]["c20_lca"] = {"type": typ, "taxlist": full, "license_checked": license_checked}
    return (f"\n/-- lca_db.py `LCA_Database.load`: the `type` value demanded, the ranks every lineage is expanded to -/\n"
            f"def c20LcaType : String := {_lean_str(typ)}\n"
            f"def c20LcaTaxlist : List String := {_lean_list(full)}\n"
            f"/-- does `load` look at the `license` field at all? -/\n"
            f"def c20LcaChecksLicense : Bool := {'true' if license_checked else 'false'}\n")


# --------------------------------------------------------------------------------------------- SBT

V_KEYS = {
    "_load_v1": [],
    "_load_v2": ["nodes", "d"],
    "_load_v3": ["nodes", "factory", "d"],
    "_load_v4": ["nodes", "factory", "d"],
    "_load_v5": ["nodes", "leaves", "storage", "storage", "storage", "storage", "factory", "d"],
    "_load_v6": ["nodes", "signatures", "storage", "storage", "storage", "storage", "factory", "d"],
}


def x_sbt(report):
    rel = "src/sourmash/sbt.py"
    st = _assign_value(rel, None, "STORAGES")
    if not isinstance(st, ast.Dict) or not all(isinstance(k, ast.Constant) and isinstance(k.value, str) for k in st.keys):
        raise Unrecognised("STORAGES", "not a literal dict")
    storages = [k.value for k in st.keys]
    if not all(isinstance(v, ast.Name) and v.id == k for k, v in zip(storages, st.values)):
        raise Unrecognised("STORAGES", "a back end name no longer maps to the class of the same name")
    load = _fn(rel, "SBT", "load")
    src = ast.unparse(load)
    versions = None
    for n in ast.walk(load):
        if isinstance(n, ast.Assign) and isinstance(n.targets[0], ast.Name) and n.targets[0].id == "loaders" and isinstance(n.value, ast.Dict):
            versions = []
            for k, v in zip(n.value.keys, n.value.values):
                if not (isinstance(k, ast.Constant) and isinstance(k.value, int)) or ast.unparse(v) != f"cls._load_v{k.value}":
                    raise Unrecognised("SBT.load", "loaders table entry is not `n: cls._load_vn`")
                versions.append(k.value)
    if versions is None:
        raise Unrecognised("SBT.load", "loaders table not found")
    m = re.search(r"if version < (\d+) and storage is None:\s+storage = FSStorage\(dirname, f'\.sbt\.\{sbt_name\}'\)", src)
    if not m:
        raise Unrecognised("SBT.load", "hidden-directory rule for old versions changed")
    below = int(m.group(1))
    _has(src, "version = 1 if isinstance(jnodes, Mapping): version = jnodes['version']", "SBT.load")
    _has(src, "try: loader = loaders[version] except KeyError: raise IndexNotSupported()", "SBT.load")
    _has(src, "klass = STORAGES[jnodes['storage']['backend']] if jnodes['storage']['backend'] == 'FSStorage': "
              "storage = FSStorage(dirname, jnodes['storage']['args']['path']) elif storage is None: storage = klass(**jnodes['storage']['args'])", "SBT.load")
    _has(src, "if 'manifest_path' in jnodes: manifest_path = jnodes['manifest_path'] manifest_data = storage.load(manifest_path) "
              "manifest_data = manifest_data.decode('utf-8') manifest_fp = StringIO(manifest_data) obj.manifest = CollectionManifest.load_from_csv(manifest_fp)", "SBT.load")
    _has(src, "try: with open(sbt_fn) as fp: jnodes = json.load(fp) except NotADirectoryError as exc: raise ValueError(str(exc))", "SBT.load")
    for name, want in V_KEYS.items():
        fn = _fn(rel, "SBT", name)
        subs = [n for n in ast.walk(fn) if isinstance(n, ast.Subscript) and isinstance(n.value, ast.Name)
                and n.value.id == "info" and isinstance(n.slice, ast.Constant)]
        got = [n.slice.value for n in sorted(subs, key=lambda n: (n.lineno, n.col_offset))]
        if got != want:
            raise Unrecognised(name, f"keys read from the document changed: {got}")
    missing_shape = "tree._missing_nodes = {i for i in range(max_node) if i not in sbt_nodes and i not in sbt_leaves}"
    n_range = sum(1 for v in ("_load_v3", "_load_v4", "_load_v5", "_load_v6") if re.sub(r"\s+", " ", missing_shape) in re.sub(r"\s+", " ", ast.unparse(_fn(rel, "SBT", v))))
    if n_range not in (0, 4):
        raise Unrecognised("_load_v3.._load_v6", "missing-node computation differs between versions")
    ch = ast.unparse(_fn(rel, "SBT", "children"))
    children_linear = "return [self.child(pos, c) for c in range(self.d)]" in ch
    init = ast.unparse(_fn(rel, "SBT", "__init__"))
    d_checked = bool(re.search(r"\bd\s*(<|>|<=|>=)\s*\d|isinstance\(d", init))
    _has(ast.unparse(_fn("src/sourmash/nodegraph.py", None, "extract_nodegraph_info")),
         "except: raise ValueError", "extract_nodegraph_info")
    _has(ast.unparse(_fn("src/sourmash/sbt_storage.py", "FSStorage", "__init__")),
         "if make_dirs: fullpath = os.path.join(location, subdir) if not os.path.exists(fullpath): os.makedirs(fullpath)", "FSStorage.__init__")
    report["outputs"]["c20_sbt"] = {"versions": versions, "storages": storages, "hidden_dir_below": below,
                                    "missing_nodes_enumerates_range": n_range == 4, "children_linear_in_d": children_linear,
                                    "d_checked": d_checked}
    return (f"\n/-- sbt.py `SBT.load`: index versions with a loader, storage back ends, versions below this use the hidden directory -/\n"
            f"def c20SbtVersions : List Nat := [{', '.join(str(v) for v in versions)}]\n"
            f"def c20SbtStorages : List String := {_lean_list(storages)}\n"
            f"def c20SbtHiddenDirBelow : Nat := {below}\n"
            f"/-- `_load_v3..v6` build `{{i for i in range(max_node) …}}` from the largest position key in the file -/\n"
            f"def c20SbtMissingEnumeratesRange : Bool := {'true' if n_range == 4 else 'false'}\n"
            f"/-- `SBT.children` is a comprehension over `range(self.d)`; does the constructor bound or type-check `d`? -/\n"
            f"def c20SbtChildrenLinearInD : Bool := {'true' if children_linear else 'false'}\n"
            f"def c20SbtChecksD : Bool := {'true' if d_checked else 'false'}\n")


# --------------------------------------------------------------------------------------------- chain

def _exc_names(node):
    if node is None:
        return ["BaseException"]
    if isinstance(node, ast.Tuple):
        return [ast.unparse(e).split(".")[-1] for e in node.elts]
    return [ast.unparse(node).split(".")[-1]]


def x_chain(report):
    rel = "src/sourmash/save_load.py"
    tree = _tree(rel)
    ld = _fn(rel, None, "_load_database")
    src = ast.unparse(ld)
    _has(src, "load_from_functions = sorted(itertools.chain(_loader_functions, plugin_fns))", "_load_database")
    _has(src, "for priority, desc, load_fn in load_from_functions:", "_load_database")
    _has(src, "if db is not None: loaded = True", "_load_database")
    _has(src, "if loaded: assert db is not None return db raise ValueError(", "_load_database")
    handlers = [h for n in ast.walk(ld) if isinstance(n, ast.Try) for h in n.handlers]
    if len(handlers) != 1:
        raise Unrecognised("_load_database", "expected exactly one except clause")
    caught = _exc_names(handlers[0].type)
    if any(isinstance(s, ast.Raise) for s in ast.walk(handlers[0])):
        raise Unrecognised("_load_database", "the except clause re-raises")
    table = []
    for node in tree.body:
        if not isinstance(node, ast.FunctionDef):
            continue
        for dec in node.decorator_list:
            if isinstance(dec, ast.Call) and isinstance(dec.func, ast.Name) and dec.func.id == "add_loader":
                if len(dec.args) != 2 or dec.keywords or not all(isinstance(a, ast.Constant) for a in dec.args):
                    raise Unrecognised("add_loader", "decorator arguments are not two literals on " + node.name)
                desc, prio = dec.args[0].value, dec.args[1].value
                converts = []
                for t in [n for n in ast.walk(node) if isinstance(n, ast.Try)]:
                    for h in t.handlers:
                        body = ast.unparse(ast.Module(body=h.body, type_ignores=[]))
                        if re.fullmatch(r"raise IndexNotLoaded\(\w+\)", body.strip()):
                            converts += _exc_names(h.type)
                        elif node.name == "_error_on_fastaq" and body.strip() == "pass":
                            pass
                        else:
                            raise Unrecognised(node.name, f"unmodelled except clause: {body[:80]}")
                table.append((prio, desc, node.name, converts))
    if len(table) < 5:
        raise Unrecognised("add_loader", "loader table too short")
    known = {"_load_stdin", "_load_standalone_manifest", "_multiindex_load_from_pathlist", "_multiindex_load_from_path",
             "_load_sbt", "_load_revindex", "_load_sqlite_db", "_load_zipfile", "_error_on_fastaq"}
    if {t[2] for t in table} != known:
        raise Unrecognised("add_loader", f"loader set changed: {sorted(t[2] for t in table)}")
    report["outputs"]["c20_chain"] = {"caught": caught, "loaders": table}
    return ("\n/-- save_load.py: (priority, description, function, classes it converts to IndexNotLoaded) per loader; "
            "the classes `_load_database` swallows -/\n"
            "def c20Loaders : List (Nat × String × String × List String) := ["
            + ", ".join(f"({p}, {_lean_str(d)}, {_lean_str(f)}, {_lean_list(c)})" for p, d, f, c in table) + "]\n"
            f"def c20ChainCaught : List String := {_lean_list(caught)}\n")


# --------------------------------------------------------------------------------------------- lazy node / leaf loaders

def _swallowed_around(fn_node, what):
    """classes caught (and not re-raised) by a try around `self.storage.load(self._path)` inside a `data` getter"""
    src = ast.unparse(fn_node)
    if "self.storage.load(self._path)" not in src:
        raise Unrecognised(what, "no longer calls self.storage.load(self._path)")
    sw = []
    for n in ast.walk(fn_node):
        if isinstance(n, ast.Try) and "self.storage.load(self._path)" in ast.unparse(ast.Module(body=n.body, type_ignores=[])):
            for h in n.handlers:
                if any(isinstance(s, ast.Raise) for s in ast.walk(h)):
                    continue
                sw += _exc_names(h.type)
    return sw


def x_nodes(report):
    def getter(rel, cls):
        hits = [n for n in _find(rel, cls, "data") if isinstance(n, ast.FunctionDef)
                and any(isinstance(d, ast.Name) and d.id == "property" for d in n.decorator_list)]
        if len(hits) != 1:
            raise Unrecognised(f"{cls}.data", "property getter not found")
        return hits[0]
    node = _swallowed_around(getter("src/sourmash/sbt.py", "Node"), "Node.data")
    leaf = _swallowed_around(getter("src/sourmash/sbt.py", "Leaf"), "Leaf.data") + \
        _swallowed_around(getter("src/sourmash/sbtmh.py", "SigLeaf"), "SigLeaf.data")
    zl = ast.unparse(_fn("src/sourmash/sbt_storage.py", "ZipStorage", "load"))
    m = re.search(r"except ValueError:\s+raise (\w+)\(path\)", zl)
    if not m or zl.count("except ") != 1:
        raise Unrecognised("ZipStorage.load", "the mapping of native ValueError-class failures changed")
    fl = ast.unparse(_fn("src/sourmash/sbt_storage.py", "FSStorage", "load"))
    _has(fl, "path = Path(self.location) / self.subdir / path return path.read_bytes()", "FSStorage.load")
    report["outputs"]["c20_nodes"] = {"Node.data swallows": node, "Leaf.data swallows": sorted(set(leaf)), "ZipStorage.load maps ValueError to": m.group(1)}
    return (f"\n/-- sbt.py `Node.data` / `Leaf.data`, sbtmh.py `SigLeaf.data`: exception classes of `storage.load` that the lazy loader "
            f"catches WITHOUT re-raising (the data is then something else than what was saved) -/\n"
            f"def c20NodeDataSwallows : List String := {_lean_list(node)}\n"
            f"def c20LeafDataSwallows : List String := {_lean_list(sorted(set(leaf)))}\n"
            f"/-- sbt_storage.py `ZipStorage.load`: native failures mapped to ValueError come out as this class -/\n"
            f"def c20ZipLoadValueErrorBecomes : String := {_lean_str(m.group(1))}\n")


EXTRACTORS = [("c20_nodes", x_nodes), ("c20_pins", x_pins), ("c20_manifest", x_manifest), ("c20_picklist", x_picklist), ("c20_lca", x_lca),
              ("c20_sbt", x_sbt), ("c20_chain", x_chain)]
SERVES = ["C20"]


if __name__ == "__main__":
    if "--repin" in sys.argv:
        with open(PIN_FILE, "w") as f:
            json.dump(current_pins(), f, indent=1, sort_keys=True)
        print(f"pinned {len(PINNED)} definitions from {translate.REPO}")
    else:
        rep = {"inputs": {}, "outputs": {}}
        for name, fn in EXTRACTORS:
            try:
                print(f"-- {name}\n{fn(rep)}")
            except Unrecognised as e:
                print(f"-- {name}: UNRECOGNISED {e}")
