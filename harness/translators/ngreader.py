"""C20: which allocation discipline does Nodegraph::from_reader use for the table whose size is read from the file?"""
import re
from translate import read, strip_rust_comments, rust_fn_body, norm, Unrecognised


def x_ng(report):
    src = strip_rust_comments(read("src/core/src/sketch/nodegraph.rs"))
    body = norm(rust_fn_body(src, "from_reader"))
    if "let byte_size = tablesize / 8 + 1;" not in body:
        raise Unrecognised("from_reader", "byte_size computation changed")
    pre = re.search(r"vec!\[0; byte_size / 4\]", body) is not None
    bounded = re.search(r"\.take\(byte_size as u64\)\s*\.read_to_end\(", body) is not None
    if pre == bounded:
        raise Unrecognised("from_reader", "cannot tell whether the table buffer is pre-allocated from the size field "
                                           "or read through a bounded reader")
    # any other allocation sized by a file field?
    others = [m for m in re.findall(r"(?:vec!\[[^\]]*;\s*([a-z_]+)[^\]]*\]|with_capacity\(([a-z_]+)[^)]*\))", body)]
    names = {a or b for a, b in others}
    allowed = {"n_tables", "byte_size", "buf"}
    if not names <= allowed | {""}:
        raise Unrecognised("from_reader", f"allocation sized by an unmodelled variable: {sorted(names - allowed)}")
    zero = re.search(r"let tablesize: usize = rdr\.read_u64::<LittleEndian>\(\)\? as usize; if tablesize == 0 \{ return Err\(", body) is not None
    notab = re.search(r"if n_tables == 0 \{ return Err\(", body) is not None
    report["outputs"]["ng_reader"] = {"prealloc": pre, "rejects_zero_table": zero, "rejects_no_tables": notab}
    return (f"\n/-- `Nodegraph::from_reader`: is the table buffer pre-allocated from the size field? -/\n"
            f"def ngPrealloc : Bool := {'true' if pre else 'false'}\n"
            f"/-- does it refuse a table of size zero (every lookup takes the hash modulo the size)? -/\n"
            f"def ngRejectsZeroTable : Bool := {'true' if zero else 'false'}\n"
            f"/-- does it refuse a file that declares no tables at all (expected_collisions takes a minimum over the tables)? -/\n"
            f"def ngRejectsNoTables : Bool := {'true' if notab else 'false'}\n")


def x_zipload(report):
    """C20: does `<ZipStorage as Storage>::load` size its output buffer from the zip member's DECLARED uncompressed size?"""
    src = strip_rust_comments(read("src/core/src/storage/mod.rs"))
    m = re.search(r"impl Storage for ZipStorage \{", src)
    if not m:
        raise Unrecognised("ZipStorage::load", "impl Storage for ZipStorage not found")
    body = norm(rust_fn_body(src[m.end():], "load"))
    if ".read(entry)" not in body or "read_to_end(&mut contents)" not in body:
        raise Unrecognised("ZipStorage::load", "no longer reads the entry through read_to_end into `contents`")
    fresh = re.search(r"let mut contents = Vec::new\(\);", body) is not None
    pre = re.search(r"let mut contents = Vec::with_capacity\(\s*entry\.size[^)]*\);", body) is not None
    if fresh == pre:
        raise Unrecognised("ZipStorage::load", "cannot tell how the output buffer is allocated: " + body[-200:])
    others = [x for x in re.findall(r"(?:with_capacity|vec!\[[^\]]*;)\s*\(?([a-z_.]+)", body) if "entry" in x and not pre]
    if others:
        raise Unrecognised("ZipStorage::load", f"allocation sized by a field of the zip entry: {others}")
    report["outputs"]["zip_load"] = {"prealloc_from_declared_size": pre}
    return (f"\n/-- `<ZipStorage as Storage>::load`: is the output buffer pre-allocated from the member's DECLARED uncompressed size? -/\n"
            f"def zipLoadPrealloc : Bool := {'true' if pre else 'false'}\n")


def x_hll(report):
    """C20: HyperLogLog::from_reader — are p, q and the registers checked before they are used as shift count, allocation
    size and index?"""
    src = strip_rust_comments(read("src/core/src/sketch/hyperloglog/mod.rs"))
    body = norm(rust_fn_body(src, "from_reader"))
    for need in ("let p = rdr.read_u8()? as usize;", "let q = rdr.read_u8()? as usize;", "let ksize = rdr.read_u8()? as usize;",
                 "let n_registers = 1 << p;", "let mut registers = vec![0u8; n_registers];", "rdr.read_exact(&mut registers)?;"):
        if need not in body:
            raise Unrecognised("HyperLogLog::from_reader", "expected `" + need + "`")
    checks_p = re.search(r"if !\(4\.\.=18\)\.contains\(&p\) \|\| q != 64 - p \{ return Err\(", body) is not None
    checks_r = re.search(r"if registers\.iter\(\)\.any\(\|&r\| r as usize > q \+ 1\) \{ return Err\(", body) is not None
    if body.index("let n_registers = 1 << p;") < (body.index("contains(&p)") if checks_p else -1):
        raise Unrecognised("HyperLogLog::from_reader", "p is checked after it has been used")
    others = len(re.findall(r"\bif\b", body)) - int(checks_p) - int(checks_r)
    if others:
        raise Unrecognised("HyperLogLog::from_reader", "unmodelled conditional in the reader")
    report["outputs"]["hll_reader"] = {"checks_p_q": checks_p, "checks_registers": checks_r}
    return (f"\n/-- `HyperLogLog::from_reader`: are p (4..=18) and q (= 64 - p) checked before the registers are allocated; are the "
            f"registers checked against q + 1? -/\n"
            f"def hllChecksHeader : Bool := {'true' if checks_p else 'false'}\n"
            f"def hllChecksRegisters : Bool := {'true' if checks_r else 'false'}\n")


EXTRACTORS = [("ng_reader", x_ng), ("zip_load", x_zipload), ("hll_reader", x_hll)]
SERVES = ["C20"]
