"""C20: which allocation discipline does Nodegraph::from_reader use for the table whose size is read from the file?"""
import re
from translate import read, strip_rust_comments, rust_fn_body, norm, Unrecognised


def x_ng(report):
    src = strip_rust_comments(read("src/core/src/sketch/nodegraph.rs"))
    body = norm(rust_fn_body(src, "from_reader"))
    if "let byte_size = tablesize / 8 + 1;" not in body:
        raise Unrecognised("from_reader", "byte_size computation changed")
    pre = re.search(r"vec!\[0; byte_size / 4\]", body) is not None
    bounded = re.search(r"\.take\(byte_size as u64\)\s*\.read_to_end\(", body) is not None
    if pre == bounded:
        raise Unrecognised("from_reader", "cannot tell whether the table buffer is pre-allocated from the size field "
                                           "or read through a bounded reader")
    # any other allocation sized by a file field?
    others = [m for m in re.findall(r"(?:vec!\[[^\]]*;\s*([a-z_]+)[^\]]*\]|with_capacity\(([a-z_]+)[^)]*\))", body)]
    names = {a or b for a, b in others}
    allowed = {"n_tables", "byte_size", "buf"}
    if not names <= allowed | {""}:
        raise Unrecognised("from_reader", f"allocation sized by an unmodelled variable: {sorted(names - allowed)}")
    zero = re.search(r"let tablesize: usize = rdr\.read_u64::<LittleEndian>\(\)\? as usize; if tablesize == 0 \{ return Err\(", body) is not None
    report["outputs"]["ng_reader"] = {"prealloc": pre, "rejects_zero_table": zero}
    return (f"\n/-- `Nodegraph::from_reader`: is the table buffer pre-allocated from the size field? -/\n"
            f"def ngPrealloc : Bool := {'true' if pre else 'false'}\n"
            f"/-- does it refuse a table of size zero (every lookup takes the hash modulo the size)? -/\n"
            f"def ngRejectsZeroTable : Bool := {'true' if zero else 'false'}\n")


EXTRACTORS = [("ng_reader", x_ng)]
SERVES = ["C20"]
