"""Translator pieces for C07 / C08: the comparison operators and the threshold arithmetic the gather model
hard-codes are re-read from /repo's source on every run (strict, fail closed) and written to
Generated.lean; `Props/C07.lean` (`translator_shapes`) states that the model uses the same ones.

  search.py  _find_best               `if best_result is None or sr.score > best_result.score:`
  index/__init__.py CounterGather.peek `if match_size < n_threshold_hashes:`
  search.py  calc_threshold_from_bp   `float(threshold_bp) / scaled`, `n_threshold_hashes / query_size`, `threshold > 1.0`
  search.py  search_databases_with_flat_query   `if md5 not in found_md5:` + `results.sort(key=lambda x: -x[0])`
  index/__init__.py best_containment  `sorted(results, key=lambda x: (-x.score, x.signature.md5sum()))`
"""
import re

from translate import Unrecognised, norm, py_fn_body, read

OPS = {">": "gt", ">=": "ge", "<": "lt", "<=": "le"}


def _one(pattern, text, what, why):
    m = re.search(pattern, text, re.S)
    if not m:
        raise Unrecognised(what, why + ": " + text[:200])
    return m


def x_gather(report):
    search = read("src/sourmash/search.py")
    index = read("src/sourmash/index/__init__.py")
    fb = norm(py_fn_body(search, "_find_best"))
    m = _one(r"if best_result is None or sr\.score (>=|>|<=|<) best_result\.score :?", fb.replace(":", " :"),
             "_find_best", "comparison of scores across counters not recognised")
    find_best = OPS[m.group(1)]
    if "for counter in counters : counter.consume ( best_intersect_mh )" not in \
            re.sub(r"([():])", r" \1 ", fb).replace("  ", " ").replace("  ", " "):
        raise Unrecognised("_find_best", "the consume loop over all counters not recognised")
    m = _one(r"class CounterGather.*?def peek\(self, cur_query_mh, \*, threshold_bp=0\):(.*?)\n    def consume", index,
             "CounterGather.peek", "method not found")
    peek = norm(re.sub(r"#[^\n]*", "", m.group(1)))
    m = _one(r"if match_size (>=|>|<=|<) n_threshold_hashes:", peek, "CounterGather.peek",
             "threshold comparison not recognised")
    peek_cmp = OPS[m.group(1)]
    # the lazy-refresh loop: largest counter, recomputed at the current resolution, accepted only if exact
    for frag in ("while True: most_common = counter.most_common() if not most_common: return [] "
                 "dataset_id, match_size = most_common[0]",
                 "intersect_mh = cur_query_mh & match_mh if len(intersect_mh) == match_size: break",
                 "if intersect_mh: counter[dataset_id] = len(intersect_mh) else: del counter[dataset_id]"):
        if frag not in peek:
            raise Unrecognised("CounterGather.peek", "lazy-refresh loop not recognised: " + frag[:60])
    ct = norm(py_fn_body(search, "calc_threshold_from_bp"))
    shape = []
    for pat, tag in ((r"n_threshold_hashes = float\(threshold_bp\) / scaled", "bp/scaled"),
                     (r"threshold = n_threshold_hashes / query_size", "n/query_size"),
                     (r"if threshold (>=|>) 1\.0: raise ValueError", None)):
        mm = _one(pat, ct, "calc_threshold_from_bp", "expression shape not recognised")
        shape.append(tag if tag else "unattainable-" + OPS[mm.group(1)] + "-1.0")
    sd = norm(py_fn_body(search, "search_databases_with_flat_query"))
    sd = norm(re.sub(r"#[^\n]*", "", py_fn_body(search, "search_databases_with_flat_query")))
    for pat in (r"md5 = \(match\.md5sum\(\), match\.minhash\.scaled, match\.minhash\.num\) if md5 not in found_md5: "
                r"results\.append\(\(score, match, filename\)\) found_md5\.add\(md5\)",
                r"results\.sort\(key=lambda x: -x\[0\]\)"):
        _one(pat, sd, "search_databases_with_flat_query", "de-duplication / sort shape not recognised")
    _one(r"results = sorted\(results, key=lambda x: \(-x\.score, x\.signature\.md5sum\(\)\)\)", norm(index),
         "Index.best_containment", "tie-break sort key not recognised")
    out = {"findBestCmp": find_best, "peekBelowCmp": peek_cmp, "thresholdShape": ";".join(shape),
           "searchDedupKey": "md5,scaled,num", "peekLoop": "lazy-refresh", "bestContainmentKey": "-score,md5"}
    report["outputs"]["gather"] = out
    report["inputs"]["_find_best"] = fb[:400]
    report["inputs"]["calc_threshold_from_bp"] = ct[:400]
    return ("\n/-- C07 / C08: operators and expression shapes re-read from search.py / index/__init__.py -/\n"
            f"def gatherFindBestCmp : String := \"{find_best}\"\n"
            f"def gatherPeekBelowCmp : String := \"{peek_cmp}\"\n"
            f"def gatherThresholdShape : String := \"{out['thresholdShape']}\"\n"
            f"def searchDedupKey : String := \"md5,scaled,num\"\n"
            f"def gatherPeekLoop : String := \"lazy-refresh\"\n"
            f"def bestContainmentKey : String := \"-score,md5\"\n")


EXTRACTORS = [("gather", x_gather)]
SERVES = ["C07", "C08"]
