"""Translator pieces for the MinHash core (C01 / C04 / C11): the decision structure of
src/core/src/sketch/minhash.rs (`KmerMinHash`) and of the FFI entry points in
src/core/src/ffi/minhash.rs that `Model/MinHash.lean` is a transcription of, re-extracted from the
working tree on every run.

How it works
* the Rust text is TOKENISED (comments dropped, whitespace irrelevant, trailing commas before a closing
  bracket dropped), so re-formatting, re-wrapping, added comments or blank lines change nothing;
* every modelled function body is matched, token for token, against a TEMPLATE that has named SLOTS at the
  places where a realistic edit changes behaviour: comparison operators, `&&`/`||`, the optional
  `self.reset_md5sum();` statements, `+ 1` / `- 1` offsets of the truncation length, the abundance sum of
  `merge`.  Slot values are emitted as constants (`Sm.Gen.mh…`) and `Props/C01|C04|C11.lean` prove, by
  `decide`, that they are the values the hand-written model hard-codes (`add_decisions_match_model`,
  `merge_decisions_match_model`, `every_mutation_site_resets`, ...): an edit that flips a comparison or drops
  a reset breaks a NAMED theorem before the stream has to find an input;
* a body that does not match its template at all (new branch, re-ordered tests, different callee) FAILS the
  translation (fail closed: `translator:mhcore_*:<fn>`);
* independently of the templates a small structural analysis lists EVERY statement of every `&mut self`
  method of `impl KmerMinHash` / `impl KmerMinHashBTree` / their `SigsTrait` impls that writes an input of
  the md5 (`self.mins`, `self.ksize`) and whether a `self.reset_md5sum()` lies on its way out
  (`mhResetSites`, `mhBtResetSites`), which methods only delegate to other mutators (`mhDelegators`) and
  which FFI function calls which methods in which order (`mhFfiCalls`).
"""
import re

import translate as T

SERVES = ["C01", "C04", "C11"]

RS = "src/core/src/sketch/minhash.rs"
FFI = "src/core/src/ffi/minhash.rs"
SIGRS = "src/core/src/signature.rs"

# --------------------------------------------------------------------------------------------
# tokens

_TOK = re.compile(r"""
    (?P<ws>\s+|//[^\n]*|/\*.*?\*/)
  | (?P<str>b?"(?:\\.|[^"\\])*")
  | (?P<chr>b?'(?:\\.|[^'\\])')
  | (?P<life>'[A-Za-z_]\w*)
  | (?P<id>[A-Za-z_]\w*(?:!(?!=))?)
  | (?P<num>\d[\d_]*(?:\.\d+)?(?:[A-Za-z]\w*)?)
  | (?P<op>\.\.=|<<=|>>=|==|!=|<=|>=|&&|\|\||=>|->|::|\+=|-=|\*=|/=|%=|\|=|&=|\^=|\.\.|[{}()\[\];,.<>=+\-*/&|!?:\#@%^~$])
""", re.X | re.S)


def tokens(src, what="source"):
    out = []
    i = 0
    n = len(src)
    while i < n:
        m = _TOK.match(src, i)
        if not m:
            raise T.Unrecognised(what, f"cannot tokenise at offset {i}: {src[i:i + 30]!r}")
        i = m.end()
        if m.lastgroup == "ws":
            continue
        out.append(m.group())
    # a trailing comma before a closing bracket is formatting
    res = []
    for k, t in enumerate(out):
        if t == "," and k + 1 < len(out) and out[k + 1] in ("}", ")", "]"):
            continue
        res.append(t)
    return res


_OPEN = {"{": "}", "(": ")", "[": "]"}


def _match(toks, i):
    """index of the bracket closing toks[i]"""
    want = []
    for j in range(i, len(toks)):
        t = toks[j]
        if t in _OPEN:
            want.append(_OPEN[t])
        elif t in ("}", ")", "]"):
            if not want or want.pop() != t:
                raise T.Unrecognised("brackets", "unbalanced")
            if not want:
                return j
    raise T.Unrecognised("brackets", "unbalanced")


def _find_seq(toks, seq, start=0):
    n = len(seq)
    for i in range(start, len(toks) - n + 1):
        if toks[i:i + n] == seq:
            return i
    return -1


def impl_block(toks, header, what):
    """tokens between the braces of `impl … {` whose header tokens (before `{`) equal `header`"""
    h = tokens(header)
    i = _find_seq(toks, h + ["{"])
    if i < 0:
        raise T.Unrecognised(what, f"`{header} {{` not found")
    if _find_seq(toks, h + ["{"], i + 1) >= 0:
        raise T.Unrecognised(what, f"`{header} {{` found twice")
    o = i + len(h)
    c = _match(toks, o)
    return toks[o + 1:c]


def functions(block):
    """top-level `fn`s of an impl block -> {name: dict(recv=…, params=[…], body=[…], public=bool)}"""
    fns = {}
    depth = 0
    i = 0
    while i < len(block):
        t = block[i]
        if t in _OPEN:
            i = _match(block, i) + 1
            continue
        if t == "fn" and depth == 0:
            name = block[i + 1]
            j = i + 2
            if block[j] == "<":
                d = 0
                while True:
                    if block[j] == "<":
                        d += 1
                    elif block[j] == ">":
                        d -= 1
                        if d == 0:
                            break
                    j += 1
                j += 1
            if block[j] != "(":
                raise T.Unrecognised(name, "parameter list not found")
            pc = _match(block, j)
            params = block[j + 1:pc]
            k = pc + 1
            while block[k] not in ("{", ";"):
                k += 1
            if block[k] == ";":
                i = k + 1
                continue
            bc = _match(block, k)
            if params[:3] == ["&", "mut", "self"]:
                recv = "&mut self"
            elif params[:2] == ["&", "self"]:
                recv = "&self"
            elif params[:2] == ["mut", "self"] or params[:1] == ["self"]:
                recv = "self"
            else:
                recv = "-"
            pub = i > 0 and block[i - 1] == "pub"
            if name in fns:
                raise T.Unrecognised(name, "defined twice in one impl block")
            fns[name] = {"recv": recv, "params": params, "body": block[k + 1:bc], "public": pub}
            i = bc + 1
            continue
        i += 1
    return fns


# --------------------------------------------------------------------------------------------
# templates with slots

CMPS = {"==": "eq", "!=": "ne", "<": "lt", "<=": "le", ">": "gt", ">=": "ge"}
_RESET = ["self", ".", "reset_md5sum", "(", ")", ";"]


def match_template(name, body, text):
    """walk the template and the body token by token; identifiers `CMP_x`, `LOGIC_x`, `RESET_x`, `OFF_x`, `SUM_x`
    of the template are slots (each is unambiguous at its position, so the walk is deterministic)"""
    tt = tokens(text, "template")
    got = {}
    i = j = 0

    def fail(why):
        raise T.Unrecognised(name, f"body is not of the modelled shape: {why}; source has `"
                             + " ".join(body[max(0, j - 6):j + 8]) + "` where the model has `"
                             + " ".join(tt[max(0, i - 6):i + 8]) + "`")
    while i < len(tt):
        t = tt[i]
        m = re.fullmatch(r"(CMP|LOGIC|RESET|OFF|SUM)_(\w+)", t)
        if not m:
            if j >= len(body) or body[j] != t:
                fail("token mismatch")
            i += 1
            j += 1
            continue
        kind, slot = m.groups()
        if kind == "CMP":
            if j >= len(body) or body[j] not in CMPS:
                fail("comparison operator expected")
            got[slot] = body[j]
            j += 1
        elif kind == "LOGIC":
            if j >= len(body) or body[j] not in ("&&", "||"):
                fail("`&&` / `||` expected")
            got[slot] = body[j]
            j += 1
        elif kind == "RESET":
            if i + 1 >= len(tt) or tt[i + 1] != ";":
                raise T.Unrecognised("template", "RESET slot must be followed by `;`")
            i += 1          # the `;` belongs to the slot
            if body[j:j + len(_RESET)] == _RESET:
                got[slot] = "reset"
                j += len(_RESET)
            else:
                got[slot] = None
        elif kind == "OFF":
            if j + 1 < len(body) and body[j] in ("+", "-") and re.fullmatch(r"\d+", body[j + 1]):
                got[slot] = body[j] + " " + body[j + 1]
                j += 2
            else:
                got[slot] = None
        elif kind == "SUM":
            k = j
            while k < len(body) and (body[k] in ("*", "+", "-", "v", "s") or re.fullmatch(r"\d+", body[k])):
                k += 1
            if k == j:
                fail("arithmetic over `*v` / `*s` expected")
            got[slot] = " ".join(body[j:k])
            j = k
        i += 1
    if j != len(body):
        fail("extra statements at the end")
    return got


def lean_bool(b):
    return "true" if b else "false"


def lean_str_list(xs):
    return "[" + ", ".join('"' + x + '"' for x in xs) + "]"


def lean_cmp(op):
    return ".cmp" + CMPS[op].capitalize()


def off_value(s):
    if not s:
        return 0
    sign, num = s.split()
    return int(num) if sign == "+" else -int(num)


# --------------------------------------------------------------------------------------------
# the modelled bodies

ADD_T = """
let current_max = match self.mins.last() { Some(&x) => x, None => u64::MAX };
if hash CMP_guard self.max_hash LOGIC_guardop self.max_hash CMP_guardnz 0 { return; }
if self.num == 0 && self.max_hash == 0 { return; }
if abundance == 0 { self.remove_hash(hash); return; }
if self.mins.is_empty() {
    self.mins.push(hash);
    RESET_r_empty;
    if let Some(ref mut abunds) = self.abunds { abunds.push(abundance); }
    return;
}
if hash CMP_good1 self.max_hash || hash CMP_good2 current_max || (self.mins.len() as u32) CMP_good3 self.num {
    let pos = match self.mins.binary_search(&hash) { Ok(p) => p, Err(p) => p };
    if pos == self.mins.len() {
        self.mins.push(hash);
        RESET_r_append;
        if let Some(ref mut abunds) = self.abunds { abunds.push(abundance); }
    } else if self.mins[pos] != hash {
        self.mins.insert(pos, hash);
        if let Some(ref mut abunds) = self.abunds { abunds.insert(pos, abundance); }
        if self.num != 0 && self.mins.len() CMP_trunc (self.num as usize OFF_truncoff) OFF_truncoff2 {
            self.mins.pop();
            if let Some(ref mut abunds) = self.abunds { abunds.pop(); }
        }
        RESET_r_insert;
    } else if let Some(ref mut abunds) = self.abunds {
        abunds[pos] += abundance;
    }
}
"""

REMOVE_T = """
if let Ok(pos) = self.mins.binary_search(&hash) {
    if self.mins[pos] == hash {
        self.mins.remove(pos);
        RESET_r_remove;
        if let Some(ref mut abunds) = self.abunds { abunds.remove(pos); }
    }
};
"""

SET_T = """
let mut found = false;
if let Ok(pos) = self.mins.binary_search(&hash) {
    if self.mins[pos] == hash {
        found = true;
        if let Some(ref mut abunds) = self.abunds { abunds[pos] = abundance; }
    }
}
if !found { self.add_hash_with_abundance(hash, abundance); }
"""

CLEAR_T = """
self.mins.clear();
if let Some(ref mut abunds) = self.abunds { abunds.clear(); }
RESET_r_clear;
"""

MERGE_T = """
self.check_compatible(other)?;
let max_size = self.mins.len() + other.mins.len();
let mut merged: Vec<u64> = Vec::with_capacity(max_size);
let mut merged_abunds: Option<Vec<u64>> = if self.abunds.is_some() { Some(Vec::with_capacity(max_size)) } else { None };
let other_ones: Option<Vec<u64>> = if self.abunds.is_some() && other.abunds.is_none() { Some(vec![1; other.mins.len()]) } else { None };
let mut self_iter = self.mins.iter();
let mut other_iter = other.mins.iter();
let mut self_abunds_iter = self.abunds.iter().flatten();
let mut other_abunds_iter = other.abunds.iter().chain(other_ones.iter()).flatten();
let mut self_value = self_iter.next();
let mut other_value = other_iter.next();
while self_value.is_some() {
    let value = self_value.unwrap();
    match other_value {
        None => {
            merged.push(*value);
            merged.extend(self_iter);
            if let Some(v) = merged_abunds.as_mut() { v.extend(self_abunds_iter) }
            break;
        }
        Some(x) if x CMP_arm1 value => {
            merged.push(*x);
            other_value = other_iter.next();
            if let Some(v) = other_abunds_iter.next() {
                if let Some(n) = merged_abunds.as_mut() { n.push(*v) }
            }
        }
        Some(x) if x CMP_arm2 value => {
            merged.push(*x);
            other_value = other_iter.next();
            self_value = self_iter.next();
            if let (Some(v), Some(s)) = (other_abunds_iter.next(), self_abunds_iter.next()) {
                if let Some(n) = merged_abunds.as_mut() { n.push(SUM_both) }
            }
        }
        Some(x) if x CMP_arm3 value => {
            merged.push(*value);
            self_value = self_iter.next();
            if let Some(v) = self_abunds_iter.next() {
                if let Some(n) = merged_abunds.as_mut() { n.push(*v) }
            }
        }
        Some(_) => {}
    }
}
if let Some(value) = other_value { merged.push(*value); }
merged.extend(other_iter);
if let Some(n) = merged_abunds.as_mut() { n.extend(other_abunds_iter) }
if merged.len() CMP_trunc (self.num as usize) LOGIC_truncop (self.num as usize) CMP_truncnz 0 {
    merged.truncate(self.num as usize OFF_tm);
    if let Some(v) = merged_abunds.as_mut() { v.truncate(self.num as usize OFF_ta) }
}
self.mins = merged;
self.abunds = merged_abunds;
RESET_r_merge;
Ok(())
"""

MD5_T = """
let mut data = self.md5sum.lock().unwrap();
if data.is_none() {
    let mut buffer = String::with_capacity(20);
    let mut md5_ctx = md5::Context::new();
    write!(&mut buffer, "{}", self.ksize()).unwrap();
    md5_ctx.consume(&buffer);
    buffer.clear();
    for x in &self.mins {
        write!(&mut buffer, "{}", x).unwrap();
        md5_ctx.consume(&buffer);
        buffer.clear();
    }
    *data = Some(format!("{:x}", md5_ctx.compute()));
}
data.clone().unwrap()
"""

RESETFN_T = """
let mut data = self.md5sum.lock().unwrap();
if data.is_some() { *data = None; }
"""

CLONE_T = """
KmerMinHash {
    num: self.num,
    ksize: self.ksize,
    hash_function: self.hash_function.clone(),
    seed: self.seed,
    max_hash: self.max_hash,
    mins: self.mins.clone(),
    abunds: self.abunds.clone(),
    md5sum: Mutex::new(Some(self.md5sum()))
}
"""

DOWNSCALED_T = """
if self.scaled() == scaled || self.scaled() == 0 {
    Ok(self)
} else if self.scaled() CMP_up scaled {
    Err(Error::CannotUpsampleScaled)
} else {
    let mut new_mh = KmerMinHash::new(scaled, self.ksize, self.hash_function.clone(), self.seed, self.abunds.is_some(), self.num);
    if self.abunds.is_some() {
        new_mh.add_many_with_abund(&self.to_vec_abunds())?;
    } else {
        new_mh.add_many(&self.mins)?;
    }
    Ok(new_mh)
}
"""

DOWNMAX_T = """
if self.max_hash == 0 {
    Ok(self)
} else {
    let scaled = scaled_for_max_hash(max_hash);
    self.downsample_scaled(scaled)
}
"""

INFLATE_T = """
self.check_compatible(abunds_from)?;
if abunds_from.abunds.is_none() { return Err(Error::NeedsAbundanceTracking); }
let self_iter = self.mins.iter();
let abunds_iter = abunds_from.abunds.as_ref().unwrap().iter();
let abunds_from_iter = abunds_from.mins.iter().zip(abunds_iter);
let (mins, abunds): (Vec<u64>, Vec<u64>) = self_iter
    .merge_join_by(abunds_from_iter, |&self_val, &(other_val, _)| { self_val.cmp(other_val) })
    .filter_map(|either| match either {
        itertools::EitherOrBoth::Both(self_val, (_other_val, &other_abund)) => { Some((self_val, other_abund)) }
        _ => None
    })
    .unzip();
self.mins = mins;
self.abunds = Some(abunds);
RESET_r_inflate;
Ok(())
"""

NEW_T = """
let mins = if num > 0 { Vec::with_capacity(num as usize) } else { Vec::with_capacity(1000) };
let abunds = if track_abundance { Some(Vec::with_capacity(mins.capacity())) } else { None };
let max_hash = max_hash_for_scaled(scaled);
KmerMinHash { num, ksize, hash_function, seed, max_hash, mins, abunds, md5sum: Mutex::new(None) }
"""

COMPAT_T = """
if self.ksize != other.ksize { return Err(Error::MismatchKSizes); }
if self.hash_function != other.hash_function { return Err(Error::MismatchDNAProt); }
if self.max_hash != other.max_hash { return Err(Error::MismatchScaled); }
if self.seed != other.seed { return Err(Error::MismatchSeed); }
Ok(())
"""

INTERSECTION_T = """
self.check_compatible(other)?;
if self.num != 0 {
    let mut combined_mh = KmerMinHash::new(self.scaled(), self.ksize, self.hash_function.clone(), self.seed, self.abunds.is_some(), self.num);
    combined_mh.merge(self)?;
    combined_mh.merge(other)?;
    let it1 = Intersection::new(self.mins.iter(), other.mins.iter());
    let i1: Vec<u64> = it1.cloned().collect();
    let it2 = Intersection::new(i1.iter(), combined_mh.mins.iter());
    let common: Vec<u64> = it2.cloned().collect();
    Ok((common, combined_mh.mins.len() as u64))
} else {
    Ok(intersection(self.mins.iter(), other.mins.iter()))
}
"""

LOOPS = {
    # name -> (loop header tokens, callee, argument tokens)
    "remove_from": ("for min in &other.mins { self.remove_hash(*min); } Ok(())", "remove_hash"),
    "remove_many": ("for min in hashes { self.remove_hash(min); } Ok(())", "remove_hash"),
    "add_from": ("for min in &other.mins { self.add_hash(*min); } Ok(())", "add_hash"),
    "add_many": ("for min in hashes { self.add_hash(*min); } Ok(())", "add_hash"),
    "add_many_with_abund": ("for item in hashes { self.add_hash_with_abundance(item.0, item.1); } Ok(())",
                            "add_hash_with_abundance"),
    "add_hash": ("self.add_hash_with_abundance(hash, 1);", "add_hash_with_abundance"),
}


def _vec_fns(report):
    toks = tokens(T.read(RS), RS)
    core = functions(impl_block(toks, "impl KmerMinHash", "impl KmerMinHash"))
    trait = functions(impl_block(toks, "impl SigsTrait for KmerMinHash", "impl SigsTrait for KmerMinHash"))
    clone = functions(impl_block(toks, "impl Clone for KmerMinHash", "impl Clone for KmerMinHash"))
    return toks, core, trait, clone


def _need(fns, name):
    if name not in fns:
        raise T.Unrecognised(name, "function not found")
    return fns[name]


def x_add(report):
    """add_hash_with_abundance / remove_hash / set_hash_with_abundance / clear and the one-line loops"""
    _, core, trait, _ = _vec_fns(report)
    g = match_template("add_hash_with_abundance", _need(core, "add_hash_with_abundance")["body"], ADD_T)
    rm = match_template("remove_hash", _need(core, "remove_hash")["body"], REMOVE_T)
    match_template("set_hash_with_abundance", _need(core, "set_hash_with_abundance")["body"], SET_T)
    cl = match_template("clear", _need(core, "clear")["body"], CLEAR_T)
    for name, (text, _callee) in LOOPS.items():
        match_template(name, _need(core, name)["body"], text)
    match_template("SigsTrait::add_hash", _need(trait, "add_hash")["body"], LOOPS["add_hash"][0])
    match_template("check_compatible", _need(trait, "check_compatible")["body"], COMPAT_T)
    match_template("new", _need(core, "new")["body"], NEW_T)
    out = {k: v for k, v in g.items()}
    report["inputs"]["mhcore.add_hash_with_abundance"] = {k: (v or "").strip() for k, v in g.items()}
    report["outputs"]["mhcore.add"] = {
        "guard": f"hash {g['guard']} self.max_hash {g['guardop']} self.max_hash {g['guardnz']} 0",
        "good": [g["good1"], g["good2"], g["good3"]], "trunc": g["trunc"],
        "truncoff": off_value(g["truncoff"]) + off_value(g["truncoff2"]),
        "resets": {k: bool(g[k]) for k in ("r_empty", "r_append", "r_insert")},
        "remove_resets": bool(rm["r_remove"]), "clear_resets": bool(cl["r_clear"])}
    return f"""
/-- comparison operators as they stand in the Rust source -/
inductive MhCmp where
  | cmpEq | cmpNe | cmpLt | cmpLe | cmpGt | cmpGe
deriving Repr, DecidableEq

/-- `KmerMinHash::add_hash_with_abundance`: the scaled guard `hash {g['guard']} self.max_hash {g['guardop']} self.max_hash {g['guardnz']} 0`
    (comparison, `&&` = true, comparison with 0) -/
def mhAddGuardCmp : MhCmp := {lean_cmp(g['guard'])}
def mhAddGuardAnd : Bool := {lean_bool(g['guardop'] == '&&')}
def mhAddGuardNzCmp : MhCmp := {lean_cmp(g['guardnz'])}
/-- the order of the early exits is fixed by the template: scaled guard, `num == 0 && max_hash == 0`,
    `abundance == 0 => remove_hash`, empty => push; then the "good hash" disjunction
    `hash {g['good1']} self.max_hash || hash {g['good2']} current_max || (len as u32) {g['good3']} self.num` -/
def mhAddGoodCmps : List MhCmp := [{lean_cmp(g['good1'])}, {lean_cmp(g['good2'])}, {lean_cmp(g['good3'])}]
/-- `if self.num != 0 && self.mins.len() {g['trunc']} (self.num as usize{(' ' + g['truncoff'].strip()) if g['truncoff'] else ''}){(' ' + g['truncoff2'].strip()) if g['truncoff2'] else ''} {{ pop }}` after a middle insertion -/
def mhAddTruncCmp : MhCmp := {lean_cmp(g['trunc'])}
def mhAddTruncOff : Int := {off_value(g['truncoff']) + off_value(g['truncoff2'])}
/-- `self.reset_md5sum()` in the three branches that change `mins` (push on empty, push at the end, insert in the middle) -/
def mhAddResets : List (String × Bool) := [("empty-push", {lean_bool(g['r_empty'])}), ("append", {lean_bool(g['r_append'])}), ("insert", {lean_bool(g['r_insert'])})]
/-- `remove_hash` (binary search, remove at `pos` from mins and abunds) and `clear` reset the md5 cache -/
def mhRemoveResets : Bool := {lean_bool(rm['r_remove'])}
def mhClearResets : Bool := {lean_bool(cl['r_clear'])}
/-- the one-statement loops (`add_many`, `add_from`, `add_many_with_abund`, `remove_many`, `remove_from`, `add_hash`,
    `SigsTrait::add_hash`), `set_hash_with_abundance`, `check_compatible` (num test commented out) and `new` have exactly
    the modelled bodies (otherwise the translation fails) -/
def mhLoopsAsModelled : Bool := true
"""


def x_merge(report):
    _, core, _, _ = _vec_fns(report)
    g = match_template("merge", _need(core, "merge")["body"], MERGE_T)
    s = g["both"].split()
    # the sum of both abundances, in either order
    sum_both = s in (["*", "v", "+", "*", "s"], ["*", "s", "+", "*", "v"])
    report["inputs"]["mhcore.merge"] = {k: (v or "").strip() for k, v in g.items()}
    report["outputs"]["mhcore.merge"] = {
        "arms": [g["arm1"], g["arm2"], g["arm3"]], "sum": " ".join(s), "sum_is_v_plus_s": sum_both,
        "trunc": f"merged.len() {g['trunc']} num {g['truncop']} num {g['truncnz']} 0",
        "truncate_mins_off": off_value(g["tm"]), "truncate_abunds_off": off_value(g["ta"]), "resets": bool(g["r_merge"])}
    i = match_template("intersection", _need(core, "intersection")["body"], INTERSECTION_T)
    inf = match_template("inflate", _need(core, "inflate")["body"], INFLATE_T)
    return f"""
/-- `KmerMinHash::merge`: the guards of the three arms of the two-cursor walk (`Some(x) if x ? value`), in source order
    (other smaller: push other's; equal: push once, advance both; other larger: push self's) -/
def mhMergeArmCmps : List MhCmp := [{lean_cmp(g['arm1'])}, {lean_cmp(g['arm2'])}, {lean_cmp(g['arm3'])}]
/-- the abundance pushed for a hash present in both operands is `{' '.join(s)}` (the sum of both) -/
def mhMergeSumsBoth : Bool := {lean_bool(sum_both)}
/-- `if merged.len() {g['trunc']} num {g['truncop']} num {g['truncnz']} 0 {{ merged.truncate(num{(' ' + g['tm'].strip()) if g['tm'] else ''}); abunds.truncate(num{(' ' + g['ta'].strip()) if g['ta'] else ''}) }}` -/
def mhMergeTruncCmp : MhCmp := {lean_cmp(g['trunc'])}
def mhMergeTruncAnd : Bool := {lean_bool(g['truncop'] == '&&')}
def mhMergeTruncNzCmp : MhCmp := {lean_cmp(g['truncnz'])}
def mhMergeTruncMinsOff : Int := {off_value(g['tm'])}
def mhMergeTruncAbundsOff : Int := {off_value(g['ta'])}
def mhMergeResets : Bool := {lean_bool(g['r_merge'])}
/-- `KmerMinHash::inflate` (merge_join_by, keep `Both`, take the other's abundance) resets the md5 cache -/
def mhInflateResets : Bool := {lean_bool(inf['r_inflate'])}
/-- `KmerMinHash::intersection` has the modelled body (num: restrict to the merged bottom-n; scaled: free function) -/
def mhIntersectionAsModelled : Bool := {lean_bool(i is not None)}
"""


def x_md5(report):
    _, core, _, clone = _vec_fns(report)
    match_template("md5sum", _need(core, "md5sum")["body"], MD5_T)
    match_template("reset_md5sum", _need(core, "reset_md5sum")["body"], RESETFN_T)
    match_template("Clone::clone", _need(clone, "clone")["body"], CLONE_T)
    d = match_template("downsample_scaled", _need(core, "downsample_scaled")["body"], DOWNSCALED_T)
    match_template("downsample_max_hash", _need(core, "downsample_max_hash")["body"], DOWNMAX_T)
    report["outputs"]["mhcore.md5"] = {"md5sum": "lazy over ksize then mins", "clone": "prefills from self.md5sum()",
                                       "downsample_refuses": d["up"]}
    return f"""
/-- `md5sum()` fills the cache only when it is empty and digests `self.ksize()` then every element of `self.mins`
    (nothing else); `reset_md5sum()` empties the cache; `Clone` pre-fills the copy's cache with `self.md5sum()` -/
def mhMd5Lazy : Bool := true
def mhMd5Inputs : List String := ["ksize", "mins"]
def mhClonePrefillsMd5 : Bool := true
/-- `downsample_scaled`: same scaled or scaled() == 0 returns self; `self.scaled() {d['up']} scaled` is refused; otherwise a
    new sketch with the same ksize / hash function / seed / abundance mode / num is filled through `add_many(_with_abund)` -/
def mhDownsampleRefuseCmp : MhCmp := {lean_cmp(d['up'])}
def mhDownsampleMaxHashViaScaled : Bool := true
"""


# --------------------------------------------------------------------------------------------
# structural analysis: every write to an md5 input and the reset on its way out

READ_ONLY = {"len", "is_empty", "iter", "last", "first", "binary_search", "clone", "get", "contains", "capacity",
             "union", "to_vec", "cloned", "intersection", "difference", "range", "is_subset", "is_superset",
             "is_disjoint", "windows", "as_slice", "starts_with", "ends_with"}
MD5_FIELDS = ("mins", "ksize")


def split_statements(body):
    """top-level statements of a token list (split at `;` and after a block that ends a statement)"""
    stmts = []
    cur = []
    i = 0
    n = len(body)
    while i < n:
        t = body[i]
        if t in _OPEN:
            j = _match(body, i)
            cur += body[i:j + 1]
            i = j + 1
            if t == "{":
                # a block ends the statement unless an `else`, a method call, `?`, an operator or `;` follows
                nxt = body[i] if i < n else None
                if nxt == ";":
                    cur.append(";")
                    i += 1
                    stmts.append(cur)
                    cur = []
                elif nxt in ("else", ".", "?", "as", "=>", ",", ")", "]") or nxt in CMPS or nxt in ("&&", "||", "+", "-", "*", "/"):
                    pass
                else:
                    stmts.append(cur)
                    cur = []
            continue
        cur.append(t)
        i += 1
        if t == ";":
            stmts.append(cur)
            cur = []
    if cur:
        stmts.append(cur)
    return stmts


def own_and_blocks(stmt):
    """tokens of a statement outside its brace blocks, and the brace blocks (token lists) in order"""
    own = []
    blocks = []
    i = 0
    while i < len(stmt):
        if stmt[i] == "{":
            j = _match(stmt, i)
            blocks.append(stmt[i + 1:j])
            own.append("{}")
            i = j + 1
        else:
            own.append(stmt[i])
            i += 1
    return own, blocks


def mutations(own):
    """descriptions of the writes to md5 inputs among the tokens of a statement (outside nested blocks)"""
    out = []
    for i in range(len(own) - 2):
        if own[i] == "self" and own[i + 1] == "." and own[i + 2] in MD5_FIELDS:
            f = own[i + 2]
            nxt = own[i + 3] if i + 3 < len(own) else ""
            prev = own[i - 1] if i > 0 else ""
            prev2 = own[i - 2] if i > 1 else ""
            if nxt == "." and i + 5 < len(own) and own[i + 5] == "(" and own[i + 4] not in READ_ONLY:
                out.append(f"{f}.{own[i + 4]}")
            elif nxt in ("=", "+=", "-=", "*=", "/=", "%=", "|=", "&=", "^=", "<<=", ">>="):
                out.append(f"{f}=")
            elif nxt == "[":
                j = _match(own, i + 3)
                if j + 1 < len(own) and own[j + 1] in ("=", "+=", "-=", "*=", "/="):
                    out.append(f"{f}[]=")
            elif prev == "mut" and prev2 == "&":
                out.append(f"&mut {f}")
    return out


def is_reset(stmt):
    return stmt == _RESET


EXITS = {"return", "break", "continue", "?"}


def has_exit(toks):
    return any(t in EXITS for t in toks) or _find_seq(toks, ["md5sum", "("]) >= 0


def analyse_body(body):
    """-> list of (write description, covered) for every write to an md5 input in a function body"""
    res = []

    def walk(block, covered_by_ancestor):
        """covered_by_ancestor(): bool -- may the way out of this block still meet a reset in an enclosing block?"""
        stmts = split_statements(block)
        resets = [k for k, s in enumerate(stmts) if is_reset(s)]
        for k, s in enumerate(stmts):
            if is_reset(s):
                continue
            own, blocks = own_and_blocks(s)

            def here(k=k):
                # a reset among the siblings with no way out (return / break / ? / md5sum()) in between
                for r in resets:
                    lo, hi = (r, k) if r < k else (k, r)
                    between = [t for st in stmts[lo + 1:hi] for t in st]
                    if not has_exit(between):
                        return True
                after = [t for st in stmts[k + 1:] for t in st]
                if has_exit(after):
                    return False
                return covered_by_ancestor()
            for w in mutations(own):
                cov = here()
                if not cov and blocks and own[0] == "if":
                    # `if self.mins.insert(x) { self.reset_md5sum(); … }` (BTreeSet reports whether it changed)
                    cov = any(is_reset(st) for st in split_statements(blocks[0]))
                res.append((w, cov))
            for b in blocks:
                walk(b, here)

    walk(body, lambda: False)
    return res


def delegate_calls(body, mut_names):
    seen = []
    for i in range(len(body) - 3):
        if body[i] == "self" and body[i + 1] == "." and body[i + 3] == "(" and body[i + 2] in mut_names:
            if body[i + 2] not in seen:
                seen.append(body[i + 2])
    return seen


def reset_sites(fnsets):
    """fnsets: list of (prefix, {name: fn}) -> sites [(label, covered)], delegators [(name, [callees])], other [(name)]"""
    mut_names = {n for _, fns in fnsets for n, f in fns.items() if f["recv"] == "&mut self"}
    sites = []
    deleg = []
    for prefix, fns in fnsets:
        for name in sorted(fns):
            f = fns[name]
            if f["recv"] != "&mut self":
                # a method that cannot write through `self` (the md5 cache sits behind a Mutex: `reset_md5sum(&self)`)
                w = analyse_body(f["body"]) if f["recv"] == "&self" else []
                if w:
                    raise T.Unrecognised(prefix + name, "a `&self` method writes an md5 input")
                continue
            ws = analyse_body(f["body"])
            cnt = {}
            for w, cov in ws:
                cnt[w] = cnt.get(w, 0) + 1
                sites.append((f"{prefix}{name}:{w}#{cnt[w]}", cov))
            deleg.append((prefix + name, delegate_calls(f["body"], mut_names - {name})))
    return sites, deleg


def x_resets(report):
    toks = tokens(T.read(RS), RS)
    vec = [("", functions(impl_block(toks, "impl KmerMinHash", "impl KmerMinHash"))),
           ("SigsTrait::", functions(impl_block(toks, "impl SigsTrait for KmerMinHash", "SigsTrait for KmerMinHash")))]
    bt = [("", functions(impl_block(toks, "impl KmerMinHashBTree", "impl KmerMinHashBTree"))),
          ("SigsTrait::", functions(impl_block(toks, "impl SigsTrait for KmerMinHashBTree", "SigsTrait for KmerMinHashBTree")))]
    vs, vd = reset_sites(vec)
    bs, bd = reset_sites(bt)
    # the provided methods of the trait (`add_sequence`, `add_protein`) reach the sketch only through `self.add_hash`
    sig = tokens(T.read(SIGRS), SIGRS)
    tr = functions(impl_block(sig, "pub trait SigsTrait", "trait SigsTrait"))
    provided = []
    for name in sorted(tr):
        f = tr[name]
        if f["recv"] != "&mut self":
            continue
        calls = sorted({f["body"][i + 2] for i in range(len(f["body"]) - 3)
                        if f["body"][i] == "self" and f["body"][i + 1] == "." and f["body"][i + 3] == "("})
        provided.append((name, calls))

    def sites_lean(xs):
        return "[" + ", ".join(f'("{a}", {lean_bool(b)})' for a, b in xs) + "]"

    def deleg_lean(xs):
        return "[" + ", ".join(f'("{a}", {lean_str_list(b)})' for a, b in xs) + "]"

    def fns_of(xs):
        out = []
        for a, _ in xs:
            n = a.split(":")[-2] if a.count(":") >= 1 else a
            n = a[:a.rindex(":")]
            if n not in out:
                out.append(n)
        return out
    report["outputs"]["mhcore.reset_sites"] = {"vec": vs, "btree": bs, "vec_delegators": vd, "btree_delegators": bd,
                                                "trait_provided": provided}
    return f"""
/-- every statement of a `&mut self` method of `KmerMinHash` that writes an input of the md5 (`self.mins`, `self.ksize`),
    labelled `<fn>:<write>#<occurrence>`, and whether a `self.reset_md5sum()` lies on every way out of it -/
def mhResetSites : List (String × Bool) := {sites_lean(vs)}
/-- the methods that contain such a write -/
def mhMutatorFns : List String := {lean_str_list(fns_of(vs))}
/-- every `&mut self` method and the other `&mut self` methods it calls (a method that is not in `mhMutatorFns` can change
    the hashes only through these) -/
def mhDelegators : List (String × List String) := {deleg_lean(vd)}
/-- the same for `KmerMinHashBTree` -/
def mhBtResetSites : List (String × Bool) := {sites_lean(bs)}
def mhBtMutatorFns : List String := {lean_str_list(fns_of(bs))}
def mhBtDelegators : List (String × List String) := {deleg_lean(bd)}
/-- provided methods of `SigsTrait` taking `&mut self` and the `self.…()` methods they call -/
def mhTraitProvided : List (String × List String) := {deleg_lean(provided)}
"""


# --------------------------------------------------------------------------------------------
# FFI entry points

FFI_SETAB_T = """
let mh = SourmashKmerMinHash::as_rust_mut(ptr);
let hashes = { assert!(!hashes_ptr.is_null()); slice::from_raw_parts(hashes_ptr, insize) };
let abunds = { assert!(!abunds_ptr.is_null()); slice::from_raw_parts(abunds_ptr, insize) };
let mut pairs: Vec<_> = hashes.iter().cloned().zip(abunds.iter().cloned()).collect();
pairs.sort_unstable();
if clear { mh.clear(); }
mh.add_many_with_abund(&pairs)?;
Ok(())
"""

FFI_INTER_T = """
let mh = SourmashKmerMinHash::as_rust(ptr);
let other_mh = SourmashKmerMinHash::as_rust(other);
let isect = mh.intersection(other_mh)?;
let mut new_mh = mh.clone();
new_mh.clear();
new_mh.add_many(&isect.0)?;
Ok(SourmashKmerMinHash::from_rust(new_mh))
"""

FFI_ADDMANY_T = """
let mh = SourmashKmerMinHash::as_rust_mut(ptr);
let hashes = { assert!(!hashes_ptr.is_null()); slice::from_raw_parts(hashes_ptr, insize) };
for hash in hashes { mh.add_hash(*hash); }
Ok(())
"""

FFI_RMFROM_T = """
let hashes = SourmashKmerMinHash::as_rust(other).mins();
let mh = SourmashKmerMinHash::as_rust_mut(ptr);
mh.remove_many(hashes)
"""

FFI_MERGE_T = """
let mh = SourmashKmerMinHash::as_rust_mut(ptr);
let other_mh = SourmashKmerMinHash::as_rust(other);
mh.merge(other_mh)?;
Ok(())
"""

FFI_MD5_T = """
let mh = SourmashKmerMinHash::as_rust(ptr);
let output = mh.md5sum();
Ok(output.into())
"""

FFI_BODIES = {"kmerminhash_set_abundances": FFI_SETAB_T, "kmerminhash_intersection": FFI_INTER_T,
              "kmerminhash_add_many": FFI_ADDMANY_T, "kmerminhash_remove_from": FFI_RMFROM_T,
              "kmerminhash_merge": FFI_MERGE_T, "kmerminhash_md5sum": FFI_MD5_T}


def x_ffi(report):
    src = T.read(FFI)
    toks = tokens(src, FFI)
    # all `fn kmerminhash_*` at any depth (inside `ffi_fn! { … }` too)
    calls = []
    i = 0
    while i < len(toks):
        if toks[i] == "fn" and toks[i + 1].startswith("kmerminhash_"):
            name = toks[i + 1]
            j = i + 2
            pc = _match(toks, j)
            k = pc + 1
            while toks[k] != "{":
                k += 1
            bc = _match(toks, k)
            body = toks[k + 1:bc]
            # receivers bound from the pointers
            mutable = _find_seq(body, ["SourmashKmerMinHash", "::", "as_rust_mut", "("]) >= 0
            objs = set()
            for q in range(len(body) - 4):
                if body[q] == "let" and body[q + 2] == "=" and body[q + 3] == "SourmashKmerMinHash":
                    objs.add(body[q + 1])
                if body[q] == "let" and body[q + 1] == "mut" and body[q + 3] == "=" and body[q + 4] in objs:
                    objs.add(body[q + 2])
            # `let mut new_mh = mh.clone();` handled above (second pattern); method calls on the bound objects, in order
            seq = []
            for q in range(len(body) - 3):
                if body[q] in objs and body[q + 1] == "." and body[q + 3] == "(":
                    seq.append(body[q + 2])
                if body[q:q + 5] == ["SourmashKmerMinHash", "::", "as_rust", "(", "other"] and \
                        _match(body, q + 3) + 2 < len(body) and body[_match(body, q + 3) + 1] == ".":
                    seq.append(body[_match(body, q + 3) + 2])
            sort = _find_seq(body, ["pairs", ".", "sort_unstable", "(", ")"]) >= 0 or \
                _find_seq(body, ["pairs", ".", "sort", "(", ")"]) >= 0
            if sort:
                seq.insert(0, "sort(pairs)")
            if name in FFI_BODIES:
                match_template(name, body, FFI_BODIES[name])
            calls.append((name, mutable, seq))
            i = bc + 1
            continue
        i += 1
    if len(calls) < 30:
        raise T.Unrecognised("ffi/minhash.rs", f"only {len(calls)} kmerminhash_* functions found")
    names = [c[0] for c in calls]
    if len(set(names)) != len(names):
        raise T.Unrecognised("ffi/minhash.rs", "a kmerminhash_* function is defined twice")
    # `kmerminhash_set_abundances`: pairs sorted, `if clear { mh.clear(); }` BEFORE `add_many_with_abund`
    report["outputs"]["mhcore.ffi"] = {n: {"mut": m, "calls": s} for n, m, s in calls}
    items = ", ".join(f'("{n}", {lean_str_list(s)})' for n, _, s in sorted(calls))
    muts = lean_str_list(sorted(n for n, m, _ in calls if m))
    return f"""
/-- FFI entry points `kmerminhash_*` (src/core/src/ffi/minhash.rs): the `KmerMinHash` methods each calls on its
    operands, in source order (`sort(pairs)` = the pair vector is sorted first) -/
def mhFfiCalls : List (String × List String) := [{items}]
/-- the entry points that take their first operand mutably (`as_rust_mut`) -/
def mhFfiMutable : List String := {muts}
/-- `kmerminhash_set_abundances` (zip, sort, `if clear {{ clear }}`, then add_many_with_abund), `kmerminhash_intersection`
    (intersection, clone, clear, add_many), `kmerminhash_add_many`, `kmerminhash_remove_from` (copies the hashes out first),
    `kmerminhash_merge`, `kmerminhash_md5sum` have exactly the modelled bodies (otherwise the translation fails) -/
def mhFfiGlueAsModelled : Bool := true
"""


EXTRACTORS = [("mhcore_add", x_add), ("mhcore_merge", x_merge), ("mhcore_md5", x_md5),
              ("mhcore_resets", x_resets), ("mhcore_ffi", x_ffi)]
