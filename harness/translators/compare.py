"""Translator piece for C16: re-read from src/sourmash/compare.py the expression shapes the
hand-written model (lean/SmVerif/Model/CompareMatrix.lean) transcribes:

  * which loop index is the RECEIVER of the pairwise call in each serial builder
  * the assignment targets (`M[i][j] = M[j][i] = v`  vs  `M[i][j] = v`)
  * the loop shapes (combinations(range(n), 2)  vs  double range(n) loop), the initial matrices
  * `col_idx = index + 1`, the placement statement, `siglist[index + 1:]`, the chunk size rounding,
    the serial/parallel switch of compare_all_pairs

Strict, fail closed: anything else raises Unrecognised.  Output: constants in Sm.Gen that
`Sm.C16.source_shapes` (Props/C16.lean) compares with what the model assumes.
"""
import ast

from translate import Unrecognised, read

SRC = "src/sourmash/compare.py"


def _fn(tree, name):
    for node in tree.body:
        if isinstance(node, ast.FunctionDef) and node.name == name:
            return node
    raise Unrecognised(name, "function not found in compare.py")


def _u(node):
    return ast.unparse(node).replace(" ", "")


def _calls(fn, methods):
    """(receiver index var, argument index var) of every call siglist[X].<method>(siglist[Y], ...)"""
    out = []
    for node in ast.walk(fn):
        if isinstance(node, ast.Call) and isinstance(node.func, ast.Attribute) and node.func.attr in methods:
            recv, args = node.func.value, node.args
            if not args:
                raise Unrecognised(fn.name, f"call of {node.func.attr} without positional argument")
            r, a = _u(recv), _u(args[0])
            if not (r.startswith("siglist[") and r.endswith("]") and a.startswith("siglist[") and a.endswith("]")):
                raise Unrecognised(fn.name, f"pairwise call not of the shape siglist[x].{node.func.attr}(siglist[y], ...): {r} {a}")
            out.append((node.func.attr, r[8:-1], a[8:-1]))
    return out


def _assign_targets(fn, var):
    """unparsed target lists of every assignment into the matrix variable"""
    out = []
    for node in ast.walk(fn):
        if isinstance(node, ast.Assign) and any(_u(t).startswith(var + "[") for t in node.targets):
            out.append([_u(t) for t in node.targets])
    return out


def _loops(fn):
    return [(_u(n.target), _u(n.iter)) for n in ast.walk(fn) if isinstance(n, ast.For)]


def _assigns(fn):
    return {(_u(n.targets[0]) if len(n.targets) == 1 else tuple(_u(t) for t in n.targets)): _u(n.value)
            for n in ast.walk(fn) if isinstance(n, ast.Assign)}


def x_compare(report):
    src = read(SRC)
    try:
        tree = ast.parse(src)
    except SyntaxError as e:
        raise Unrecognised("compare.py", "does not parse: " + str(e))
    res = {}
    spec = {
        "compare_serial": ("similarities", {"similarity", "jaccard_ani"}, True),
        "compare_serial_max_containment": ("containments", {"max_containment", "max_containment_ani"}, True),
        "compare_serial_avg_containment": ("containments", {"avg_containment"}, True),
        "compare_serial_containment": ("containments", {"contained_by", "containment_ani"}, False),
    }
    for name, (var, methods, symmetric) in spec.items():
        fn = _fn(tree, name)
        calls = _calls(fn, methods)
        if {c[0] for c in calls} != methods:
            raise Unrecognised(name, f"expected pairwise calls {sorted(methods)}, found {sorted({c[0] for c in calls})}")
        orders = {(r, a) for _, r, a in calls}
        if name == "compare_serial_avg_containment":
            # the ANI branch (since /repo b596f84): the two calls MinHash.avg_containment_ani makes, with the flag,
            #   r1 = siglist[j].containment_ani(siglist[i], downsample=downsample)
            #   r2 = siglist[i].containment_ani(siglist[j], downsample=downsample)
            #   ani = None; if r1.ani is not None and r2.ani is not None: ani = (r1.ani + r2.ani) / 2
            asg_ = _assigns(fn)
            want_r = {"r1": "siglist[{0}].containment_ani(siglist[{1}],downsample=downsample)",
                      "r2": "siglist[{1}].containment_ani(siglist[{0}],downsample=downsample)"}
            first = None
            for a, b in (("j", "i"), ("i", "j")):
                if all(asg_.get(v) == t.format(a, b) for v, t in want_r.items()):
                    first = a
            if first is None:
                raise Unrecognised(name, f"ANI branch: r1 / r2 are not the two containment_ani calls with the flag: "
                                         f"r1={asg_.get('r1')} r2={asg_.get('r2')}")
            res[name + ".ani_first_receiver"] = first
            ifs_ = [(_u(n.test), [_u(b) for b in n.body]) for n in ast.walk(fn) if isinstance(n, ast.If)]
            if ("r1.aniisnotNoneandr2.aniisnotNone", ["ani=(r1.ani+r2.ani)/2"]) not in ifs_ or asg_.get("ani") is None:
                raise Unrecognised(name, f"ANI branch: averaging rule changed: {ifs_}")
            if any(_u(n.func) == "FracMinHashComparison" for n in ast.walk(fn) if isinstance(n, ast.Call)):
                raise Unrecognised(name, "FracMinHashComparison is used again (the model follows the containment_ani calls)")
        if len(orders) != 1:
            raise Unrecognised(name, f"pairwise calls use different argument orders: {sorted(orders)}")
        (r, a), = orders
        if {r, a} != {"i", "j"}:
            raise Unrecognised(name, f"pairwise call indices are not the loop variables i, j: {r}, {a}")
        res[name + ".receiver"] = r
        tg = _assign_targets(fn, var)
        want = [f"{var}[i][j]", f"{var}[j][i]"] if symmetric else [f"{var}[i][j]"]
        if not tg or any(t != want for t in tg):
            raise Unrecognised(name, f"assignment targets changed: {tg} (modelled: {want})")
        loops = _loops(fn)
        asg = _assigns(fn)
        if symmetric:
            if loops != [("(i,j)", "iterator")] or asg.get("iterator") != "itertools.combinations(range(n),2)":
                raise Unrecognised(name, f"loop is not `for i, j in itertools.combinations(range(n), 2)`: {loops}")
        else:
            if loops != [("i", "range(n)"), ("j", "range(n)")]:
                raise Unrecognised(name, f"loop is not the double range(n) loop: {loops}")
        if asg.get(var) != "np.ones((n,n))" or asg.get("n") != "len(siglist)":
            raise Unrecognised(name, "initial matrix is not np.ones((n, n)) with n = len(siglist)")
        nz = [n for n in ast.walk(fn) if isinstance(n, ast.If) and _u(n.test) == "aniisNone"]
        if not nz or any(_u(b) != "ani=0.0" for n in nz for b in n.body):
            raise Unrecognised(name, "`if ani is None: ani = 0.0` changed")
    # similarity_args_unpack / get_similarities_at_index
    fn = _fn(tree, "similarity_args_unpack")
    asg = _assigns(fn)
    if asg.get(("sig1", "sig2")) is None and asg.get("(sig1,sig2)") != "args":
        raise Unrecognised("similarity_args_unpack", "`sig1, sig2 = args` changed")
    calls = {(n.func.attr, _u(n.func.value), _u(n.args[0])) for n in ast.walk(fn)
             if isinstance(n, ast.Call) and isinstance(n.func, ast.Attribute) and n.func.attr in ("similarity", "jaccard_ani")}
    if calls != {("similarity", "sig1", "sig2"), ("jaccard_ani", "sig1", "sig2")}:
        raise Unrecognised("similarity_args_unpack", f"pairwise calls changed: {sorted(calls)}")
    fn = _fn(tree, "get_similarities_at_index")
    asg = _assigns(fn)
    if asg.get("sig_iterator") != "itertools.product([siglist[index]],siglist[index+1:])":
        raise Unrecognised("get_similarities_at_index", "sig_iterator changed: " + str(asg.get("sig_iterator")))
    if asg.get("similarity_list") != "list(map(func,sig_iterator))":
        raise Unrecognised("get_similarities_at_index", "similarity_list changed")
    res["row_start_offset"] = 1
    # compare_parallel
    fn = _fn(tree, "compare_parallel")
    asg = _assigns(fn)
    if asg.get("col_idx") != "index+1":
        raise Unrecognised("compare_parallel", "col_idx changed: " + str(asg.get("col_idx")))
    res["col_offset"] = 1
    place = ("memmap_similarities[index,col_idx+idx_condensed]", "memmap_similarities[idx_condensed+col_idx,index]")
    if asg.get(place) != "item":
        raise Unrecognised("compare_parallel", "placement statement changed")
    if asg.get("(chunksize,extra)") != "divmod(length_siglist,n_jobs)":
        raise Unrecognised("compare_parallel", "chunk size computation changed")
    ifs = [(_u(n.test), [_u(b) for b in n.body]) for n in ast.walk(fn) if isinstance(n, ast.If)]
    if ifs != [("extra", ["chunksize+=1"])]:
        raise Unrecognised("compare_parallel", f"chunk size rounding changed: {ifs}")
    if asg.get("similarities") != "np.eye(length_siglist,dtype=np.float64)":
        raise Unrecognised("compare_parallel", "initial matrix is not np.eye(n)")
    if asg.get("result") != "pool.imap(func,range(length_siglist),chunksize=chunksize)":
        raise Unrecognised("compare_parallel", "pool.imap call changed: " + str(asg.get("result")))
    loops = _loops(fn)
    if loops != [("(index,l)", "enumerate(result)"), ("(idx_condensed,item)", "enumerate(l)")]:
        raise Unrecognised("compare_parallel", f"placement loops changed: {loops}")
    # compare_all_pairs
    fn = _fn(tree, "compare_all_pairs")
    ifs = [_u(n.test) for n in ast.walk(fn) if isinstance(n, ast.If)]
    if ifs != ["n_jobsisNoneorn_jobs==1"]:
        raise Unrecognised("compare_all_pairs", f"serial/parallel switch changed: {ifs}")
    report["outputs"]["compare"] = res
    report["inputs"]["compare.py"] = "AST shapes of compare_serial*, similarity_args_unpack, get_similarities_at_index, compare_parallel, compare_all_pairs"

    def b(name):
        return "true" if res[name + ".receiver"] == "i" else "false"

    return f"""
/-- compare.py (C16): is the RECEIVER of the pairwise call the row index `i` (else the column index `j`)? -/
def cmpSerialRecvIsRow : Bool := {b('compare_serial')}
def cmpContainmentRecvIsRow : Bool := {b('compare_serial_containment')}
def cmpMaxRecvIsRow : Bool := {b('compare_serial_max_containment')}
def cmpAvgRecvIsRow : Bool := {b('compare_serial_avg_containment')}
/-- compare_serial_avg_containment, ANI branch: is the receiver of the FIRST containment_ani call (`r1`) the row index? -/
def cmpAvgAniFirstRecvIsRow : Bool := {'true' if res['compare_serial_avg_containment.ani_first_receiver'] == 'i' else 'false'}
/-- compare.py: `col_idx = index + {res['col_offset']}`, `siglist[index + {res['row_start_offset']}:]` -/
def cmpParColOffset : Nat := {res['col_offset']}
def cmpParRowStart : Nat := {res['row_start_offset']}
"""


EXTRACTORS = [("compare", x_compare)]
SERVES = ["C16"]
