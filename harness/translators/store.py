"""Translator pieces for C10 (collection formats): re-extracted from /repo's working tree on every run,
strict and fail closed (an unrecognised shape raises `Unrecognised`, the run reports the tie as broken).

  save_load.py    `@add_loader(desc, priority)` decorators            -> Gen.loaderPriorities
                  `_load_database`: sorted chain, which exceptions mean "next loader"
                  `_save_classes` + the `matches` suffix of every saver -> Gen.saveClasses
  manifest.py     `required_keys`, the assignments of `make_manifest_row` -> Gen.manifestRequiredKeys / manifestRowSources
  sqlite_index.py `MAX_SQLITE_INT`, `convert_hash_to/from` bodies      -> Gen.maxSqliteInt (+ shape check)
  sbt_storage.py  `_content_matches` / `_generate_filename` / `save`: which zip objects the content-addressed
                  name search consults                                  -> Gen.zipNameConsultsBuffer
"""
import ast
import os
import re

import translate
from translate import Unrecognised, norm


def _lean_str(s):
    return '"' + s.replace("\\", "\\\\").replace('"', '\\"') + '"'


def _fn(tree, name, cls=None):
    for node in ast.walk(tree):
        if cls is not None:
            if isinstance(node, ast.ClassDef) and node.name == cls:
                for sub in node.body:
                    if isinstance(sub, ast.FunctionDef) and sub.name == name:
                        return sub
        elif isinstance(node, ast.FunctionDef) and node.name == name:
            return node
    raise Unrecognised(name, "function not found" + (f" in class {cls}" if cls else ""))


def _body_src(fn):
    """the statements of a function, docstring dropped, unparsed and whitespace-normalised"""
    body = list(fn.body)
    if body and isinstance(body[0], ast.Expr) and isinstance(getattr(body[0], "value", None), ast.Constant) \
            and isinstance(body[0].value.value, str):
        body = body[1:]
    return squash(" ; ".join(ast.unparse(s) for s in body))


def squash(s):
    """whitespace- and statement-separator-insensitive form of a piece of (unparsed) Python"""
    return re.sub(r"[\s;]+", " ", s).strip()


def x_loaders(report):
    src = translate.read("src/sourmash/save_load.py")
    tree = ast.parse(src)
    table = []
    for node in tree.body:
        if not isinstance(node, ast.FunctionDef):
            continue
        for dec in node.decorator_list:
            if isinstance(dec, ast.Call) and isinstance(dec.func, ast.Name) and dec.func.id == "add_loader":
                if len(dec.args) != 2 or dec.keywords or not all(isinstance(a, ast.Constant) for a in dec.args):
                    raise Unrecognised("add_loader", "decorator arguments are not two literals on " + node.name)
                desc, prio = dec.args[0].value, dec.args[1].value
                if not isinstance(desc, str) or not isinstance(prio, int) or isinstance(prio, bool) or prio < 0:
                    raise Unrecognised("add_loader", f"unexpected literal types on {node.name}")
                table.append((prio, desc, node.name))
    if not table:
        raise Unrecognised("add_loader", "no loader registered")
    # add_loader must register (priority, name, func)
    if _body_src(_fn(tree, "add_loader")) != squash(
            "def dec_priority(func): _loader_functions.append((priority, name, func)) return func ; return dec_priority"):
        raise Unrecognised("add_loader", "body changed: " + _body_src(_fn(tree, "add_loader"))[:200])
    if not re.search(r"^_loader_functions = \[\]$", src, re.M):
        raise Unrecognised("_loader_functions", "no longer starts empty")
    ld = _body_src(_fn(tree, "_load_database"))
    need = [
        "load_from_functions = sorted(itertools.chain(_loader_functions, plugin_fns))",
        "for priority, desc, load_fn in load_from_functions:",
        "except (ValueError, IndexNotLoaded):",
        "if db is not None: loaded = True",
        "raise ValueError(f\"Error while reading signatures from '{filename}'.\")",
    ]
    for piece in need:
        if squash(piece) not in ld:
            raise Unrecognised("_load_database", "missing shape: " + piece)
    report["inputs"]["loader_decorators"] = [list(t) for t in table]
    report["outputs"]["loaderPriorities"] = [list(t) for t in table]

    # savers
    sc = None
    for node in tree.body:
        if isinstance(node, ast.Assign) and len(node.targets) == 1 and isinstance(node.targets[0], ast.Name) \
                and node.targets[0].id == "_save_classes":
            sc = node.value
    if sc is None or not isinstance(sc, ast.List):
        raise Unrecognised("_save_classes", "list not found")
    savers = []
    for el in sc.elts:
        if not (isinstance(el, ast.Tuple) and len(el.elts) == 2 and isinstance(el.elts[0], ast.Constant)
                and isinstance(el.elts[0].value, int) and isinstance(el.elts[1], ast.Name)):
            raise Unrecognised("_save_classes", "entry is not (int, ClassName)")
        savers.append((el.elts[0].value, el.elts[1].id))
    match_shapes = {
        "return location is None": "none",
        "if location: return location.endswith('/')": "suffix:/",
        "if location: return location.endswith('.zip')": "suffix:.zip",
        "if location: return location.endswith('.sqldb')": "suffix:.sqldb",
        "return bool(location)": "any",
    }
    out_savers = []
    for prio, cname in savers:
        body = _body_src(_fn(tree, "matches", cls=cname))
        if body not in match_shapes:
            raise Unrecognised(cname + ".matches", "unmodelled predicate: " + body[:160])
        out_savers.append((prio, cname, match_shapes[body]))
    ssl = _body_src(_fn(tree, "SaveSignaturesToLocation"))
    for piece in ["save_list = itertools.chain(_save_classes, sourmash_plugins.get_save_to_functions())",
                  "for priority, cls in sorted(save_list, key=lambda x: x[0]):",
                  "if cls.matches(location):"]:
        if squash(piece) not in ssl:
            raise Unrecognised("SaveSignaturesToLocation", "missing shape: " + piece)
    report["outputs"]["saveClasses"] = [list(t) for t in out_savers]
    lines = ["", "/-- `@add_loader(description, priority)` registrations of save_load.py: (priority, description, function) -/",
             "def loaderPriorities : List (Nat × String × String) := ["
             + ", ".join(f"({p}, {_lean_str(d)}, {_lean_str(f)})" for p, d, f in table) + "]",
             "/-- `_save_classes` of save_load.py with the predicate of each `matches`: (priority, class, predicate) -/",
             "def saveClasses : List (Nat × String × String) := ["
             + ", ".join(f"({p}, {_lean_str(c)}, {_lean_str(m)})" for p, c, m in out_savers) + "]", ""]
    return "\n".join(lines)


def x_manifest(report):
    src = translate.read("src/sourmash/manifest.py")
    tree = ast.parse(src)
    keys = None
    for node in ast.walk(tree):
        if isinstance(node, ast.ClassDef) and node.name == "BaseCollectionManifest":
            for sub in node.body:
                if isinstance(sub, ast.Assign) and isinstance(sub.targets[0], ast.Name) \
                        and sub.targets[0].id == "required_keys":
                    if not isinstance(sub.value, ast.Tuple) or not all(
                            isinstance(e, ast.Constant) and isinstance(e.value, str) for e in sub.value.elts):
                        raise Unrecognised("required_keys", "not a tuple of string literals")
                    keys = [e.value for e in sub.value.elts]
    if keys is None:
        raise Unrecognised("required_keys", "not found")
    fn = _fn(tree, "make_manifest_row", cls="BaseCollectionManifest")
    args = [a.arg for a in fn.args.args] + [a.arg for a in fn.args.kwonlyargs]
    if args != ["cls", "ss", "location", "include_signature"]:
        raise Unrecognised("make_manifest_row", "signature changed: " + ",".join(args))
    assigns = []
    pre = []
    for st in fn.body:
        if isinstance(st, ast.Assign) and len(st.targets) == 1 and isinstance(st.targets[0], ast.Subscript) \
                and isinstance(st.targets[0].value, ast.Name) and st.targets[0].value.id == "row" \
                and isinstance(st.targets[0].slice, ast.Constant):
            assigns.append((st.targets[0].slice.value, ast.unparse(st.value)))
        elif isinstance(st, ast.Assign):
            pre.append(norm(ast.unparse(st)))
        elif isinstance(st, (ast.Expr, ast.Assert, ast.Return)):
            continue
        elif isinstance(st, ast.If) and squash(ast.unparse(st)) == squash("if include_signature: row['signature'] = ss"):
            continue
        else:
            raise Unrecognised("make_manifest_row", "unexpected statement: " + ast.unparse(st)[:120])
    if pre != ["mh = ss.minhash", "row = {}"]:
        raise Unrecognised("make_manifest_row", "preamble changed: " + repr(pre))
    report["inputs"]["make_manifest_row"] = assigns
    report["outputs"]["manifestRequiredKeys"] = keys
    return "\n".join([
        "", "/-- `BaseCollectionManifest.required_keys` -/",
        "def manifestRequiredKeys : List String := [" + ", ".join(_lean_str(k) for k in keys) + "]",
        "/-- `row[<column>] = <expression>` assignments of `make_manifest_row`, in source order -/",
        "def manifestRowSources : List (String × String) := ["
        + ", ".join(f"({_lean_str(k)}, {_lean_str(v)})" for k, v in assigns) + "]", ""])


def x_sqlite(report):
    src = translate.read("src/sourmash/index/sqlite_index.py")
    tree = ast.parse(src)
    m = re.search(r"^MAX_SQLITE_INT\s*=\s*(.+)$", src, re.M)
    if not m:
        raise Unrecognised("MAX_SQLITE_INT", "constant not found")
    expr = norm(m.group(1))
    if not re.fullmatch(r"[0-9*\-+ ()]+", expr):
        raise Unrecognised("MAX_SQLITE_INT", "not an integer literal expression: " + expr)
    val = eval(expr, {"__builtins__": {}})  # digits and * - + ( ) only
    to = _body_src(_fn(tree, "convert_hash_to"))
    frm = _body_src(_fn(tree, "convert_hash_from"))
    if to != squash("return BitArray(uint=x, length=64).int if x > MAX_SQLITE_INT else x"):
        raise Unrecognised("convert_hash_to", "body changed: " + to[:200])
    if frm != squash("return BitArray(int=x, length=64).uint if x < 0 else x"):
        raise Unrecognised("convert_hash_from", "body changed: " + frm[:200])
    ins = _body_src(_fn(tree, "insert", cls="SqliteIndex"))
    for piece in ["if ss.minhash.num: raise ValueError(\"cannot store 'num' signatures in SqliteIndex\")",
                  "if ss.minhash.track_abundance: raise ValueError('cannot store signatures with abundance in SqliteIndex')",
                  "if self.scaled is not None and self.scaled != ss.minhash.scaled:",
                  "hh = convert_hash_to(h)"]:
        if squash(piece) not in ins:
            raise Unrecognised("SqliteIndex.insert", "missing shape: " + piece)
    seed_recorded = "row['seed'] = " in ins
    report["inputs"]["MAX_SQLITE_INT"] = expr
    report["outputs"]["maxSqliteInt"] = val
    report["outputs"]["sqliteRecordsSeed"] = seed_recorded
    return "\n".join([
        "", "/-- `MAX_SQLITE_INT` of sqlite_index.py (`convert_hash_to/from` have the modelled two's-complement shape) -/",
        f"def maxSqliteInt : Nat := {val}",
        "/-- does `SqliteIndex.insert` put the sketch's seed into the row it hands to `_insert_row`? -/",
        f"def sqliteRecordsSeed : Bool := {'true' if seed_recorded else 'false'}", ""])


CONTENT_MATCHES_ORIG = "info = zf.getinfo(path) ; entry_content = zf.read(info) ; if entry_content == content: return True ; return False"
CONTENT_MATCHES_PATCHED = ("try: entry_content = zf.read(zf.getinfo(path)) except KeyError: "
                           "if self.bufferzip is None or zf is self.bufferzip: raise "
                           "entry_content = self.bufferzip.read(path) ; return entry_content == content")


def x_zipstorage(report):
    src = translate.read("src/sourmash/sbt_storage.py")
    tree = ast.parse(src)
    cm = _body_src(_fn(tree, "_content_matches", cls="_RwZipStorage"))
    if cm == squash(CONTENT_MATCHES_ORIG):
        consults_buffer = False
    elif cm == squash(CONTENT_MATCHES_PATCHED):
        consults_buffer = True
    else:
        raise Unrecognised("_content_matches", "not one of the modelled shapes: " + cm[:300])
    gf = _body_src(_fn(tree, "_generate_filename", cls="_RwZipStorage"))
    want = squash(
        "try: matches = self._content_matches(zf, path, content) ; "
        "if matches: return (path, False) "
        "except KeyError: return (path, True) ; "
        "newpath = None ; n = 0 ; "
        "while newpath is None: testpath = f'{path}_{n}' ; "
        "try: matches = self._content_matches(zf, testpath, content) ; "
        "if matches: return (testpath, False) else: n += 1 "
        "except KeyError: return (testpath, True) ; assert 0")
    if gf != want:
        raise Unrecognised("_generate_filename", "body changed: " + gf[:400])
    sv = _body_src(_fn(tree, "save", cls="_RwZipStorage"))
    for piece in ["if overwrite: newpath = path do_write = True else: newpath, do_write = self._generate_filename(self.zipfile, path, content)",
                  "if do_write: try: self._write_to_zf(self.zipfile, newpath, content, compress=compress) except (ValueError, RuntimeError): if self.bufferzip: self._write_to_zf(self.bufferzip, newpath, content, compress=compress) else: raise ValueError(\"can't write data\")",
                  "return newpath"]:
        if squash(piece) not in sv:
            raise Unrecognised("_RwZipStorage.save", "missing shape: " + piece[:120])
    fl = _body_src(_fn(tree, "flush", cls="_RwZipStorage"))
    for piece in ["buffer_names = set(self.bufferzip.namelist())", "zf_names = set(self.zipfile.namelist())",
                  "new_data = buffer_names - zf_names", "duplicated = buffer_names & zf_names",
                  "all_data = buffer_names.union(zf_names)",
                  "if item in duplicated or item in buffer_names: self._write_to_zf(final_file, item, self.bufferzip.read(item)) else: self._write_to_zf(final_file, item, self.zipfile.read(item))",
                  "for item in new_data: self._write_to_zf(zf, item, self.bufferzip.read(item))"]:
        if squash(piece) not in fl:
            raise Unrecognised("_RwZipStorage.flush", "missing shape: " + piece[:120])
    report["inputs"]["_content_matches"] = cm
    report["outputs"]["zipNameConsultsBuffer"] = consults_buffer
    return "\n".join([
        "", "/-- does the content-addressed name search of `_RwZipStorage` (`_content_matches`, used by",
        "    `_generate_filename`) also look into `bufferzip`?  false = the code as found (finding D10) -/",
        f"def zipNameConsultsBuffer : Bool := {'true' if consults_buffer else 'false'}", ""])


def x_lca(report):
    src = translate.read("src/sourmash/lca/lca_db.py")
    tree = ast.parse(src)
    body = _body_src(_fn(tree, "_signatures", cls="LCA_Database"))
    for piece in ["mhd = defaultdict(minhash.copy_and_clear)", "temp_vals = defaultdict(list)",
                  "for hashval, idlist in self._hashval_to_idx.items(): for idx in idlist:",
                  "for sig, vals in temp_vals.items(): mhd[sig].add_many(vals)",
                  "sigd = {} for idx, mh in mhd.items(): ident = self._idx_to_ident[idx] name = self._ident_to_name[ident] "
                  "ss = SourmashSignature(mh, name=name)"]:
        if squash(piece) not in body:
            raise Unrecognised("LCA_Database._signatures", "missing shape: " + piece[:100])
    touch = squash("for idx in self._idx_to_ident: mhd[idx]")
    between = body[body.index(squash("mhd[sig].add_many(vals)")) + len(squash("mhd[sig].add_many(vals)")):body.index(squash("sigd = {}"))].strip()
    if between == "":
        yields_empty = False
    elif between == touch:
        yields_empty = True
    else:
        raise Unrecognised("LCA_Database._signatures", "unmodelled statements before `sigd = {}`: " + between[:200])
    ln = _body_src(_fn(tree, "__len__", cls="LCA_Database"))
    if ln != squash("return self._next_index"):
        raise Unrecognised("LCA_Database.__len__", "body changed: " + ln[:100])
    report["outputs"]["lcaYieldsEmpty"] = yields_empty
    return "\n".join([
        "", "/-- does `LCA_Database._signatures` create an entry for every idx of `_idx_to_ident` (so that sketches",
        "    that are empty at the database's scaled are returned)?  false = before the fix of D11 -/",
        f"def lcaYieldsEmpty : Bool := {'true' if yields_empty else 'false'}", ""])


TO_PICKLIST_OLD = ("pl = picklist.SignaturePicklist('manifest') ; "
                   "pl.pickset = {pl._get_value_for_manifest_row(row) for row in self.rows} ; return pl")
TO_PICKLIST_NEW = ("pl = picklist.SignaturePicklist('manifest') ; pl.preprocess_fn = lambda x: x ; "
                   "pl.pickset = {pl._get_value_for_manifest_row(row) for row in self.rows} ; return pl")


def x_picklist(report):
    """what a manifest-derived picklist compares: (identifier, md5[:8]) (the 'manifest' preprocess_fn) or the
    rows' full (name, md5) (preprocess_fn replaced by the identity); CollectionManifest and
    SqliteCollectionManifest must agree"""
    res = []
    for rel, cls, prefix in (("src/sourmash/manifest.py", "CollectionManifest", "picklist."),
                             ("src/sourmash/index/sqlite_index.py", "SqliteCollectionManifest", "")):
        tree = ast.parse(translate.read(rel))
        body = _body_src(_fn(tree, "to_picklist", cls=cls))
        old = squash(TO_PICKLIST_OLD.replace("picklist.", prefix))
        new = squash(TO_PICKLIST_NEW.replace("picklist.", prefix))
        if body == old:
            res.append(False)
        elif body == new:
            res.append(True)
        else:
            raise Unrecognised(cls + ".to_picklist", "not one of the modelled shapes: " + body[:300])
    if res[0] != res[1]:
        raise Unrecognised("to_picklist", "CollectionManifest and SqliteCollectionManifest build different picklists")
    ptree = ast.parse(translate.read("src/sourmash/picklist.py"))
    comb = _body_src(_fn(ptree, "combine_ident_md5"))
    if comb != squash("name, md5 = x ; ident = name.split(' ')[0] ; md5 = md5[:8] ; return (ident, md5)"):
        raise Unrecognised("combine_ident_md5", "body changed: " + comb[:200])
    gv = _body_src(_fn(ptree, "_get_value_for_manifest_row", cls="SignaturePicklist"))
    for piece in ["if self.coltype in self.meta_coltypes: q = (row['name'], row['md5'])", "q = self.preprocess_fn(q)"]:
        if squash(piece) not in gv:
            raise Unrecognised("_get_value_for_manifest_row", "missing shape: " + piece)
    report["outputs"]["manifestPicklistFullKey"] = res[0]
    return "\n".join([
        "", "/-- does `manifest.to_picklist()` compare the rows' full (name, md5) (true, since cff7217) or",
        "    (identifier, md5[:8]) (false)? -/",
        f"def manifestPicklistFullKey : Bool := {'true' if res[0] else 'false'}", ""])


SERVES = ["C10"]

EXTRACTORS = [("c10_lca", x_lca), ("c10_picklist", x_picklist), ("c10_loaders", x_loaders), ("c10_manifest", x_manifest), ("c10_sqlite", x_sqlite),
              ("c10_zipstorage", x_zipstorage)]
