"""Translator pieces for C18 (LCA databases).  Strict, fail closed.

Extracted from /repo's current source into `namespace Sm.Gen`:

* `lcaTaxlist`        lca_utils.taxlist(include_strain=True), the literal rank list
* `taxNcbiRanks`      tax_utils.NCBI_RANKS (what LineageDB_Sqlite zips rows with)
* `sqlTaxSelect` / `sqlTaxInsert`   column order of the SELECT in LineageDB_Sqlite.__getitem__ and of the
                      INSERT in MultiLineageDB._save_sqlite (both positional against the ranks)
* `lcaDownStrict`, `lcaDownThrRust`   the comparison and the threshold expression of
                      LCA_Database.downsample_scaled (`k < max_hash`, `_get_max_hash_for_scaled(scaled)`)
* `lcaSigBatch`       the batch constant of LCA_Database._signatures
* `lcaSummKeepGe`, `lcaClsKeepGe`, `lcaClsMajorityGt`  the three threshold comparisons of summarize / classify
* `lineageTreeTwin`   tax_utils.LineageTree.add_lineage / find_lca are the same statements as
                      lca_utils.build_tree / find_lca (AST comparison after renaming)
"""
import ast
import os
import re

from translate import Unrecognised, read


def _func(tree, name, cls=None):
    body = tree.body
    if cls is not None:
        for n in body:
            if isinstance(n, ast.ClassDef) and n.name == cls:
                body = n.body
                break
        else:
            raise Unrecognised(cls, "class not found")
    for n in body:
        if isinstance(n, ast.FunctionDef) and n.name == name:
            return n
    raise Unrecognised((cls + "." if cls else "") + name, "function not found")


def _nodoc(fn):
    b = list(fn.body)
    if b and isinstance(b[0], ast.Expr) and isinstance(getattr(b[0], "value", None), ast.Constant) \
            and isinstance(b[0].value.value, str):
        b = b[1:]
    return b


def _dump(nodes):
    return "\n".join(ast.dump(n, annotate_fields=False, include_attributes=False) for n in nodes)


class _Rename(ast.NodeTransformer):
    def __init__(self, names, attrs):
        self.names = names
        self.attrs = attrs

    def visit_Name(self, node):
        return ast.copy_location(ast.Name(self.names.get(node.id, node.id), node.ctx), node)

    def visit_Attribute(self, node):
        self.generic_visit(node)
        if isinstance(node.value, ast.Name) and (node.value.id, node.attr) in self.attrs:
            return ast.copy_location(ast.Name(self.attrs[(node.value.id, node.attr)], node.ctx), node)
        return node


def _lean_strs(xs):
    return "[" + ", ".join('"' + x + '"' for x in xs) + "]"


def _bool(b):
    return "true" if b else "false"


def x_lca(report):
    out = {}
    # ---- lca_utils.taxlist ------------------------------------------------
    lu_src = read("src/sourmash/lca/lca_utils.py")
    lu = ast.parse(lu_src)
    f = _func(lu, "taxlist")
    b = _nodoc(f)
    ok = (len(b) == 2 and isinstance(b[0], ast.Expr) and isinstance(b[0].value, ast.YieldFrom)
          and isinstance(b[0].value.value, ast.List)
          and all(isinstance(e, ast.Constant) and isinstance(e.value, str) for e in b[0].value.value.elts)
          and isinstance(b[1], ast.If) and isinstance(b[1].test, ast.Name) and b[1].test.id == "include_strain"
          and len(b[1].body) == 1 and not b[1].orelse and isinstance(b[1].body[0], ast.Expr)
          and isinstance(b[1].body[0].value, ast.Yield) and isinstance(b[1].body[0].value.value, ast.Constant))
    if not ok:
        raise Unrecognised("lca_utils.taxlist", "no longer `yield from [literals]; if include_strain: yield literal`")
    taxlist = [e.value for e in b[0].value.value.elts] + [b[1].body[0].value.value.value]
    dflt = f.args.defaults
    if not (len(dflt) == 1 and isinstance(dflt[0], ast.Constant) and dflt[0].value is True):
        raise Unrecognised("lca_utils.taxlist", "include_strain no longer defaults to True")
    out["lcaTaxlist"] = taxlist

    # ---- tax_utils.NCBI_RANKS, RankLineageInfo.ranks default ---------------
    tu_src = read("src/sourmash/tax/tax_utils.py")
    tu = ast.parse(tu_src)
    ncbi = None
    for n in tu.body:
        if isinstance(n, ast.Assign) and len(n.targets) == 1 and isinstance(n.targets[0], ast.Name) \
                and n.targets[0].id == "NCBI_RANKS" and isinstance(n.value, ast.Tuple):
            ncbi = [e.value for e in n.value.elts if isinstance(e, ast.Constant)]
            if len(ncbi) != len(n.value.elts):
                ncbi = None
    if ncbi is None:
        raise Unrecognised("tax_utils.NCBI_RANKS", "not a literal tuple of strings")
    if not re.search(r"class RankLineageInfo\(BaseLineageInfo\):.*?\n    ranks: tuple = NCBI_RANKS\n", tu_src, re.S):
        raise Unrecognised("RankLineageInfo.ranks", "default is no longer NCBI_RANKS")
    out["taxNcbiRanks"] = ncbi

    # ---- SQL taxonomy column orders -----------------------------------------
    gi = ast.get_source_segment(tu_src, _func(tu, "__getitem__", "LineageDB_Sqlite"))
    m = re.search(r'f"SELECT ([a-z_, ]+) FROM \{self\.table_name\} WHERE ident=\?"', gi)
    if not m:
        raise Unrecognised("LineageDB_Sqlite.__getitem__", "SELECT statement shape changed")
    sel = [c.strip() for c in m.group(1).split(",")]
    if "while tup and not tup[-1].name:" not in gi or "tup = tup[:-1]" not in gi:
        raise Unrecognised("LineageDB_Sqlite.__getitem__", "trailing-empty stripping loop changed")
    sv = ast.get_source_segment(tu_src, _func(tu, "_save_sqlite", "MultiLineageDB"))
    m = re.search(r'"INSERT INTO sourmash_taxonomy \(ident, ([a-z_, ]+)\) VALUES \(\?(?:, \?)*\)"', sv)
    if not m:
        raise Unrecognised("MultiLineageDB._save_sqlite", "INSERT statement shape changed")
    ins = [c.strip() for c in m.group(1).split(",")]
    if "x = [ident, *[t.name for t in tax]]" not in sv or not re.search(r"while len\(x\) < (\d+):\s*\n\s*x\.append\(\"\"\)", sv):
        raise Unrecognised("MultiLineageDB._save_sqlite", "row construction changed")
    npad = int(re.search(r"while len\(x\) < (\d+):", sv).group(1))
    if npad != len(ins) + 1:
        raise Unrecognised("MultiLineageDB._save_sqlite", "padding length does not match the column count")
    out["sqlTaxSelect"] = sel
    out["sqlTaxInsert"] = ins
    # the `columns` tuple LineageDB_Sqlite zips with the ranks to compute `available_ranks`
    cols = None
    for n in tu.body:
        if isinstance(n, ast.ClassDef) and n.name == "LineageDB_Sqlite":
            for st in n.body:
                if isinstance(st, ast.Assign) and len(st.targets) == 1 and isinstance(st.targets[0], ast.Name) \
                        and st.targets[0].id == "columns" and isinstance(st.value, ast.Tuple):
                    cols = [e.value for e in st.value.elts if isinstance(e, ast.Constant)]
                    if len(cols) != len(st.value.elts):
                        cols = None
    if cols is None or sorted(cols) != sorted(sel):
        raise Unrecognised("LineageDB_Sqlite.columns", "not a literal tuple of the taxonomy column names")
    init_src = ast.get_source_segment(tu_src, _func(tu, "__init__", "LineageDB_Sqlite"))
    if "for column, rank in zip(self.columns, RankLineageInfo().taxlist):" not in init_src or \
            'WHERE {column} IS NOT NULL AND {column} != ""' not in init_src:
        raise Unrecognised("LineageDB_Sqlite.__init__", "available_ranks computation changed")
    out["sqlTaxColumns"] = cols

    # ---- LCA_Database.downsample_scaled ---------------------------------------
    db_src = read("src/sourmash/lca/lca_db.py")
    dbt = ast.parse(db_src)
    ds = _nodoc(_func(dbt, "downsample_scaled", "LCA_Database"))
    seg = [ast.unparse(s) for s in ds]
    want_head = ["if scaled == self.scaled:\n    return\nelif scaled < self.scaled:\n    raise ValueError(f'cannot decrease scaled from {self.scaled} to {scaled}')",
                 "self._invalidate_cache()"]
    want_tail = ["new_hashvals = defaultdict(set)", None, "self._hashval_to_idx = new_hashvals", "self.scaled = scaled"]
    if len(seg) != 7 or seg[:2] != want_head or seg[3] != want_tail[0] or seg[5:] != want_tail[2:]:
        raise Unrecognised("LCA_Database.downsample_scaled", "statement list changed: " + " // ".join(seg)[:300])
    thr = {"max_hash = _get_max_hash_for_scaled(scaled)": False,
           "max_hash = sourmash.MinHash(n=0, ksize=self.ksize, scaled=scaled)._max_hash": True}
    if seg[2] not in thr:
        raise Unrecognised("LCA_Database.downsample_scaled", "threshold expression not one of the modelled shapes: " + seg[2])
    loops = {"for k, v in self._hashval_to_idx.items():\n    if k < max_hash:\n        new_hashvals[k] = v": True,
             "for k, v in self._hashval_to_idx.items():\n    if k <= max_hash:\n        new_hashvals[k] = v": False}
    if seg[4] not in loops:
        raise Unrecognised("LCA_Database.downsample_scaled", "filter loop not one of the modelled shapes: " + seg[4])
    out["lcaDownThrRust"] = thr[seg[2]]
    out["lcaDownStrict"] = loops[seg[4]]
    report["inputs"]["lca.downsample_scaled"] = [seg[2], seg[4]]

    # ---- _signatures batch constant ---------------------------------------------
    sg = ast.get_source_segment(db_src, _func(dbt, "_signatures", "LCA_Database"))
    m = re.findall(r"if len\(temp_hashes\) > (\d+):", sg)
    if len(m) != 1:
        raise Unrecognised("LCA_Database._signatures", "batch condition changed")
    out["lcaSigBatch"] = int(m[0])

    # ---- thresholds of summarize / classify ----------------------------------------
    sm_src = read("src/sourmash/lca/command_summarize.py")
    sm = ast.unparse(_func(ast.parse(sm_src), "summarize"))
    want = ("for lca, count in counts.most_common():\n        if count < threshold:\n            break\n"
            "        if not lca:\n            aggregated_counts[lca] += count\n"
            "        while lca:\n            aggregated_counts[lca] += count\n            lca = lca[:-1]")
    if want not in sm:
        raise Unrecognised("command_summarize.summarize", "aggregation loop changed")
    out["lcaSummKeepGe"] = True
    cl_src = read("src/sourmash/lca/command_classify.py")
    cl = ast.unparse(_func(ast.parse(cl_src), "classify_signature"))
    want = ("if counts and majority:\n        majority_vote, count = counts.most_common()[0]\n        if count > threshold:\n"
            "            lca_utils.build_tree([majority_vote], tree)\n    else:\n"
            "        for lca, count in counts.most_common():\n            if count < threshold:\n                break\n"
            "            lca_utils.build_tree([lca], tree)")
    if want not in cl:
        raise Unrecognised("command_classify.classify_signature", "threshold logic changed")
    out["lcaClsKeepGe"] = True
    out["lcaClsMajorityGt"] = True
    # does `classify` turn --scaled (a float for argparse) into an int, as summarize_main / rankinfo_main do?
    cmain = ast.unparse(_func(ast.parse(cl_src), "classify"))
    if "lca_utils.load_databases(args.db, args.scaled)" not in cmain:
        raise Unrecognised("command_classify.classify", "load_databases call changed")
    out["clsScaledInt"] = "args.scaled = int(args.scaled)" in cmain
    for fn_src, nm in ((read("src/sourmash/lca/command_summarize.py"), "summarize_main"),
                       (read("src/sourmash/lca/command_rankinfo.py"), "rankinfo_main")):
        if "args.scaled = int(args.scaled)" not in ast.unparse(_func(ast.parse(fn_src), nm)):
            raise Unrecognised(nm, "no longer converts --scaled to int")

    # ---- `lca index`: the two identifier normalisations (spreadsheet side / signature side), each from its own site
    ci_src = read("src/sourmash/lca/command_index.py")
    cit = ast.parse(ci_src)
    CUTS = {'ident.split(".")[0]': "dotPrefix", 'ident.rsplit(".", 1)[0]': "dropLast",
            "ident.split('.')[0]": "dotPrefix", "ident.rsplit('.', 1)[0]": "dropLast"}

    def ident_norm(fn_name, cond_split, cond_keep):
        """find `if <cond_split>: ident = ident.split(" ")[0]; if not <cond_keep>: ident = <cut>` in the function"""
        fn = _func(cit, fn_name)
        hits = []
        for node in ast.walk(fn):
            if isinstance(node, ast.If) and ast.unparse(node.test) == cond_split and not node.orelse:
                body = [ast.unparse(x) for x in node.body]
                if not any(b.startswith("ident = ") or "\n    ident = " in b for b in body):
                    continue                                  # another use of the flag (a message), not a normalisation
                if len(body) == 2 and body[0] == "ident = ident.split(' ')[0]" and body[1].startswith(f"if not {cond_keep}:\n"):
                    inner = node.body[1]
                    if len(inner.body) == 1 and not inner.orelse:
                        stmt = ast.unparse(inner.body[0])
                        if stmt.startswith("ident = ") and stmt[len("ident = "):] in CUTS:
                            hits.append(CUTS[stmt[len("ident = "):]])
                            continue
                raise Unrecognised(fn_name, "identifier normalisation not one of the modelled shapes: " + " // ".join(body)[:200])
        if len(hits) != 1:
            raise Unrecognised(fn_name, f"expected exactly one identifier normalisation, found {len(hits)}")
        return hits[0]

    out["idxTaxVersionCut"] = ident_norm("load_taxonomy_assignments", "split_identifiers", "keep_identifier_versions")
    out["idxSigVersionCut"] = ident_norm("index", "args.split_identifiers", "args.keep_identifier_versions")
    idx_fn = ast.unparse(_func(cit, "index"))
    if "if sig.name:\n                ident = sig.name\n            else:\n                ident = sig.filename" not in idx_fn \
            or "lineage = assignments.get(ident)" not in idx_fn:
        raise Unrecognised("command_index.index", "identifier source / lookup changed")
    # bookkeeping of consumed spreadsheet rows: set.remove raises KeyError for a row consumed before, set.discard does not
    n_rm, n_dc = idx_fn.count("record_remnants.remove(ident)"), idx_fn.count("record_remnants.discard(ident)")
    if n_rm + n_dc != 1 or "if lineage:\n                record_remnants." not in idx_fn:
        raise Unrecognised("command_index.index", "record_remnants bookkeeping changed")
    out["idxRemnantsRemoveRaises"] = n_rm == 1

    # ---- twin implementations -----------------------------------------------------
    bt = _nodoc(_func(lu, "build_tree"))
    # the per-assignment loop body of build_tree == body of LineageTree.add_lineage after its isinstance prelude
    loop = [s for s in bt if isinstance(s, ast.For)]
    if len(loop) != 1:
        raise Unrecognised("lca_utils.build_tree", "expected exactly one for loop")
    al = _nodoc(_func(tu, "add_lineage", "LineageTree"))
    if not (al and isinstance(al[0], ast.If) and "isinstance" in ast.unparse(al[0].test)
            and ast.unparse(al[0].body[0]) == "lineage = lineage.filled_lineage" and len(al[0].body) == 1 and not al[0].orelse):
        raise Unrecognised("LineageTree.add_lineage", "prelude changed")
    a = _dump(_Rename({"assignment": "lineage"}, {}).visit(ast.parse(ast.unparse(loop[0].body))).body)
    b2 = _dump(_Rename({}, {("self", "tree"): "tree"}).visit(ast.parse("\n".join(ast.unparse(s) for s in al[1:]))).body)
    if a != b2:
        raise Unrecognised("LineageTree.add_lineage", "differs from the loop body of lca_utils.build_tree")
    fl = _dump(_nodoc(_func(lu, "find_lca")))
    fl2 = _dump(_Rename({"lca": "lineage"}, {("self", "tree"): "tree"}).visit(
        ast.parse("\n".join(ast.unparse(s) for s in _nodoc(_func(tu, "find_lca", "LineageTree"))))).body)
    if fl != fl2:
        raise Unrecognised("LineageTree.find_lca", "differs from lca_utils.find_lca")
    # and the shape of lca_utils.find_lca itself
    want = ("node = tree\nlineage = []\nwhile 1:\n    if len(node) == 1:\n        lineage_tup = next(iter(node.keys()))\n"
            "        lineage.append(lineage_tup)\n        node = node[lineage_tup]\n    elif len(node) == 0:\n"
            "        return (tuple(lineage), 0)\n    else:\n        return (tuple(lineage), len(node))")
    got = "\n".join(ast.unparse(s) for s in _nodoc(_func(lu, "find_lca")))
    if got != want:
        raise Unrecognised("lca_utils.find_lca", "body changed: " + got[:300])
    out["lineageTreeTwin"] = True

    # ---- the SQLite twin: is downsample_scaled honoured by the queries?  are identifiers recorded? ----------
    sq_src = read("src/sourmash/index/sqlite_index.py")
    sqt = ast.parse(sq_src)
    g_get = ast.get_source_segment(sq_src, _func(sqt, "get", "_SqliteIndexHashvalToIndex"))
    g_iter = ast.get_source_segment(sq_src, _func(sqt, "__iter__", "_SqliteIndexHashvalToIndex"))
    marks = ["if key > sqlidx._max_hash:" in g_get and "return dv" in g_get,
             "if hashval <= max_hash:" in g_iter and "max_hash = self.sqlidx._max_hash" in g_iter]
    try:
        swl = ast.get_source_segment(sq_src, _func(sqt, "signatures_with_location", "LCA_SqliteDatabase"))
        marks.append("ss.minhash.downsample(scaled=self.scaled)" in swl and "if ss.minhash.scaled < self.scaled:" in swl)
        mh = ast.get_source_segment(sq_src, _func(sqt, "_max_hash", "LCA_SqliteDatabase"))
        marks.append("return MinHash(n=0, ksize=self.ksize, scaled=self.scaled)._max_hash" in mh)
    except Unrecognised:
        marks += [False, False]
    ds2 = ast.unparse(_func(sqt, "downsample_scaled", "LCA_SqliteDatabase"))
    if "self.scaled = scaled" not in ds2 or "if scaled < self.scaled:" not in ds2:
        raise Unrecognised("LCA_SqliteDatabase.downsample_scaled", "body changed")
    if all(marks):
        out["sqlDownHonoured"] = True
    elif not any(marks):
        # the unpatched shapes, exactly
        if "x = [convert_hash_from(h) for (h,) in c]" not in g_get or "yield convert_hash_from(hashval)" not in g_iter:
            raise Unrecognised("_SqliteIndexHashvalToIndex", "neither the known nor the patched shape")
        out["sqlDownHonoured"] = False
    else:
        raise Unrecognised("LCA_SqliteDatabase.downsample_scaled", "only part of the queries honour self.scaled: " + str(marks))
    bi = ast.get_source_segment(sq_src, _func(sqt, "_build_index", "LCA_SqliteDatabase"))
    cr = ast.get_source_segment(sq_src, _func(sqt, "create", "LCA_SqliteDatabase"))
    sv = ast.get_source_segment(db_src, _func(dbt, "save_to_sql", "LCA_Database"))
    for frag in ('ident = name.split(" ")[0]', 'ident = name.split(".")[0]', "lineage = lineage_db.get(ident)",
                 "ident_to_idx[ident] = idx", "if lineage:"):
        if frag not in bi:
            raise Unrecognised("LCA_SqliteDatabase._build_index", "fragment missing: " + frag)
    marks = ["sourmash_lca_idents" in bi and 'ident = stored_idents[row["_id"]]' in bi,
             "sourmash_lca_idents" in cr and "zip(sketch_ids, idents)" in cr,
             "idents = [self._idx_to_ident[idx] for idx in self._signatures]" in sv and "idents=idents" in sv]
    if all(marks):
        out["sqlStoresIdents"] = True
    elif not any(marks):
        out["sqlStoresIdents"] = False
    else:
        raise Unrecognised("LCA_SqliteDatabase identifiers", "identifier table only partly wired: " + str(marks))

    report["outputs"]["lca"] = out
    return f"""
/-- `lca_utils.taxlist()` -/
def lcaTaxlist : List String := {_lean_strs(out['lcaTaxlist'])}
/-- `tax_utils.NCBI_RANKS` (default ranks of `RankLineageInfo`) -/
def taxNcbiRanks : List String := {_lean_strs(out['taxNcbiRanks'])}
/-- column order of the SELECT in `LineageDB_Sqlite.__getitem__` / of the INSERT in `_save_sqlite` -/
def sqlTaxSelect : List String := {_lean_strs(out['sqlTaxSelect'])}
def sqlTaxInsert : List String := {_lean_strs(out['sqlTaxInsert'])}
/-- `LineageDB_Sqlite.columns`, zipped with the ranks to compute `available_ranks` -/
def sqlTaxColumns : List String := {_lean_strs(out['sqlTaxColumns'])}
/-- `LCA_Database.downsample_scaled`: `k < max_hash` (true) or `k <= max_hash` (false); threshold taken
    from a sketch built at the new scaled (true) or from `_get_max_hash_for_scaled` (false) -/
def lcaDownStrict : Bool := {_bool(out['lcaDownStrict'])}
def lcaDownThrRust : Bool := {_bool(out['lcaDownThrRust'])}
/-- `if len(temp_hashes) > N` in `LCA_Database._signatures` -/
def lcaSigBatch : Nat := {out['lcaSigBatch']}
/-- summarize keeps `count >= threshold`; classify keeps `count >= threshold`, majority needs `count > threshold` -/
def lcaSummKeepGe : Bool := {_bool(out['lcaSummKeepGe'])}
def lcaClsKeepGe : Bool := {_bool(out['lcaClsKeepGe'])}
def lcaClsMajorityGt : Bool := {_bool(out['lcaClsMajorityGt'])}
/-- `lca classify` converts `--scaled` (parsed as a float) to an int before using it -/
def clsScaledInt : Bool := {_bool(out['clsScaledInt'])}
/-- the queries of `LCA_SqliteDatabase` honour `downsample_scaled` (hashes above the threshold of `self.scaled` are
    invisible, signatures are downsampled); `save_to_sql` records the identifiers and `_build_index` uses them -/
def sqlDownHonoured : Bool := {_bool(out['sqlDownHonoured'])}
def sqlStoresIdents : Bool := {_bool(out['sqlStoresIdents'])}
/-- how `lca index --split-identifiers` drops the version when `--keep-identifier-versions` is not given: on the
    spreadsheet identifiers (`load_taxonomy_assignments`) and on the signature names (`index`), each read from
    its own statement -/
inductive VersionCut where
  | dotPrefix      -- `ident.split(".")[0]`
  | dropLast       -- `ident.rsplit(".", 1)[0]`
deriving Repr, DecidableEq
def idxTaxVersionCut : VersionCut := .{out['idxTaxVersionCut']}
def idxSigVersionCut : VersionCut := .{out['idxSigVersionCut']}
/-- `lca index` drops a consumed spreadsheet row with `set.remove` (KeyError when it is already gone), not `set.discard` -/
def idxRemnantsRemoveRaises : Bool := {_bool(out['idxRemnantsRemoveRaises'])}
/-- `LineageTree.add_lineage` / `.find_lca` are statement-for-statement `build_tree` / `find_lca` -/
def lineageTreeTwin : Bool := {_bool(out['lineageTreeTwin'])}
"""


EXTRACTORS = [("lca", x_lca)]
SERVES = ["C18"]
