"""Translator pieces for C19 (tax): literal tables and the expression shapes of the sanity checks
in src/sourmash/tax/tax_utils.py.  Strict, fail closed."""
import ast
import re

from translate import Unrecognised, read, norm


def _class_src(src, name):
    m = re.search(r"^class\s+" + re.escape(name) + r"\b.*?:\n", src, re.M)
    if not m:
        raise Unrecognised(name, "class not found")
    m2 = re.search(r"^(?:@dataclass.*\n)?class\s+\w+|^def\s+\w+", src[m.end():], re.M)
    return src[m.end(): m.end() + (m2.start() if m2 else len(src))]


def _method(tree, cls, name):
    for node in ast.walk(tree):
        if isinstance(node, ast.ClassDef) and node.name == cls:
            for f in node.body:
                if isinstance(f, ast.FunctionDef) and f.name == name:
                    return f
    raise Unrecognised(f"{cls}.{name}", "method not found")


def _lean_strs(xs):
    return "[" + ", ".join('"' + x.replace("\\", "\\\\").replace('"', '\\"') + '"' for x in xs) + "]"


def x_tax(report):
    src = read("src/sourmash/tax/tax_utils.py")
    tree = ast.parse(src)
    out = {}
    # rank tuples
    for const in ("NCBI_RANKS", "ICTV_RANKS"):
        val = None
        for node in tree.body:
            if isinstance(node, ast.Assign) and len(node.targets) == 1 and getattr(node.targets[0], "id", None) == const:
                try:
                    val = ast.literal_eval(node.value)
                except ValueError:
                    raise Unrecognised(const, "not a literal tuple")
        if not isinstance(val, tuple) or not all(isinstance(x, str) for x in val):
            raise Unrecognised(const, "literal tuple of strings expected")
        out[const] = list(val)
    # null names: the same literal set in both _init_from_lineage_dict bodies
    nulls = []
    for cls in ("RankLineageInfo", "ICTVRankLineageInfo"):
        f = _method(tree, cls, "_init_from_lineage_dict")
        found = None
        for node in ast.walk(f):
            if isinstance(node, ast.Assign) and getattr(node.targets[0], "id", None) == "null_names":
                call = node.value
                if not (isinstance(call, ast.Call) and getattr(call.func, "id", None) == "set" and len(call.args) == 1):
                    raise Unrecognised(cls + ".null_names", "expected set([...])")
                found = ast.literal_eval(call.args[0])
        if found is None:
            raise Unrecognised(cls + ".null_names", "assignment not found")
        # and it must be applied to the stripped name
        body = norm(ast.unparse(f))
        if "if name is not None and name.strip() in null_names: name = None" not in body:
            raise Unrecognised(cls + "._init_from_lineage_dict", "null-name filter changed")
        nulls.append(list(found))
    if sorted(nulls[0]) != sorted(nulls[1]):
        raise Unrecognised("null_names", "standard and ICTV lineages use different null names")
    out["null_names"] = nulls[0]
    # check_values: the comparisons, exactly -- the code as it is, or the proposed tolerance repair (D18)
    cv = norm(ast.unparse(_method(tree, "SummarizedGatherResult", "check_values")))
    cv = re.sub(r"raise ValueError\((?:'[^']*'|\"[^\"]*\")\)", "raise ValueError(MSG)", cv)
    want_asis = norm("def check_values(self): "
                     "if any([self.fraction > 1, self.f_weighted_at_rank > 1]): raise ValueError(MSG) "
                     "if any([self.fraction <= 0, self.f_weighted_at_rank <= 0]): raise ValueError(MSG)")
    want_rep = norm("def check_values(self): "
                    "if any([self.fraction > 1 + FLOAT_TOLERANCE, self.f_weighted_at_rank > 1 + FLOAT_TOLERANCE]): raise ValueError(MSG) "
                    "self.fraction = min(self.fraction, 1.0) self.f_weighted_at_rank = min(self.f_weighted_at_rank, 1.0) "
                    "if any([self.fraction <= 0, self.f_weighted_at_rank < 0]): raise ValueError(MSG)")
    want_rep2 = want_rep.replace("self.f_weighted_at_rank < 0]", "self.f_weighted_at_rank <= 0]")
    strict = False
    if cv == want_asis:
        repaired = False
    elif cv == want_rep:
        repaired = True
    elif cv == want_rep2:
        repaired = True
        strict = True
    else:
        raise Unrecognised("SummarizedGatherResult.check_values", "comparisons are not one of the two modelled shapes: " + cv[:300])
    tol = None
    for node in tree.body:
        if isinstance(node, ast.Assign) and getattr(node.targets[0], "id", None) == "FLOAT_TOLERANCE":
            tol = ast.literal_eval(node.value)
    if repaired:
        from fractions import Fraction
        if not isinstance(tol, float) or not 0 < tol < 1e-6:
            raise Unrecognised("FLOAT_TOLERANCE", "a float literal in (0, 1e-6) expected")
        # the literal as an exact ratio p/q with q a power of ten (so that divNat p q is the same double)
        m = re.search(r"^FLOAT_TOLERANCE\s*=\s*1e-(\d+)\s*$", src, re.M)
        if not m:
            raise Unrecognised("FLOAT_TOLERANCE", "literal of the form 1e-<n> expected")
        tol_den = 10 ** int(m.group(1))
        if float(Fraction(1, tol_den)) != tol:
            raise Unrecognised("FLOAT_TOLERANCE", "literal does not round-trip")
    else:
        tol_den = 0
    out["check_values"] = (("repaired: >1+tol -> error; clamp min(x,1.0); fraction<=0|fw" + ("<=" if strict else "<") + "0 -> error") if repaired
                           else "fraction>1|fw>1 -> error; fraction<=0|fw<=0 -> error")
    out["repaired"] = repaired
    out["repair_strict"] = strict
    # the remainder of build_summarized_result
    bs = norm(ast.unparse(_method(tree, "QueryTaxResult", "build_summarized_result")))
    rem_asis = ("f_unique = 1.0 - self.total_f_classified[rank] if f_unique > 0: f_weighted_at_rank = 1.0 - self.total_f_weighted[rank] "
                "bp_intersect_at_rank = self.query_info.query_bp - self.total_bp_classified[rank]")
    rem_rep = ("f_unique = 1.0 - self.total_f_classified[rank] if f_unique > FLOAT_TOLERANCE: "
               "f_weighted_at_rank = max(0.0, 1.0 - self.total_f_weighted[rank]) "
               "bp_intersect_at_rank = self.query_info.query_bp - self.total_bp_classified[rank]")
    rem_rep2 = ("f_unique = 1.0 - self.total_f_classified[rank] if f_unique > FLOAT_TOLERANCE: "
                "f_weighted_at_rank = 1.0 - self.total_f_weighted[rank] "
                "bp_intersect_at_rank = self.query_info.query_bp - self.total_bp_classified[rank]")
    for piece in ("sorted_sum_uniq_to_query.sort(key=lambda x: -x[1])",
                  "if f_unique == 0: continue",
                  (rem_rep2 if strict else rem_rep) if repaired else rem_asis,
                  "self.total_f_classified[rank] += f_unique self.total_f_weighted[rank] += f_weighted_at_rank "
                  "self.total_bp_classified[rank] += bp_intersect_at_rank"):
        if norm(piece) not in bs:
            raise Unrecognised("QueryTaxResult.build_summarized_result", "piece not found: " + piece[:80])
    out["build_summarized_result"] = "sort by -fraction; skip ==0; remainder 1.0-total if > " + ("FLOAT_TOLERANCE, weighted remainder max(0.0, .)" if repaired else "0")
    # summarize_up_ranks: the three accumulations under `rank in lininfo.filled_ranks`
    su = norm(ast.unparse(_method(tree, "QueryTaxResult", "summarize_up_ranks")))
    for piece in ("if lininfo and lininfo.filled_lineage:",
                  "if rank in lininfo.filled_ranks: lin_at_rank = lininfo.pop_to_rank(rank) "
                  "self.sum_uniq_weighted[rank][lin_at_rank] += taxres.f_unique_weighted "
                  "self.sum_uniq_to_query[rank][lin_at_rank] += taxres.f_unique_to_query "
                  "self.sum_uniq_bp[rank][lin_at_rank] += taxres.unique_intersect_bp"):
        if norm(piece) not in su:
            raise Unrecognised("QueryTaxResult.summarize_up_ranks", "piece not found: " + piece[:80])
    out["summarize_up_ranks"] = "three accumulators keyed by pop_to_rank(rank), only for filled ranks"
    # set_status: containment comparison
    ss = norm(ast.unparse(_method(tree, "ClassificationResult", "set_status")))
    if "elif containment_threshold is not None and self.fraction >= containment_threshold: self.status = 'match'" not in ss:
        raise Unrecognised("ClassificationResult.set_status", "containment comparison changed")
    # LineageDB.load, LIN branch: is `ranks` assigned before the row loop? (finding C19.4)
    ld = None
    for node in ast.walk(tree):
        if isinstance(node, ast.ClassDef) and node.name == "LineageDB":
            for f in node.body:
                if isinstance(f, ast.FunctionDef) and f.name == "load":
                    ld = norm(ast.unparse(f))
    if ld is None:
        raise Unrecognised("LineageDB.load", "method not found")
    lin_asis = norm("if lins: notify('Trying to read LIN taxonomy assignments.') if 'lin' not in header: "
                    "raise ValueError(f\"'lin' column not found: cannot read LIN taxonomy assignments from {filename}.\") "
                    "if ictv:")
    lin_init = lin_asis.replace(" if ictv:", " ranks = [] if ictv:")
    if lin_init in ld:
        lin_ranks_init = True
    elif lin_asis in ld:
        lin_ranks_init = False
    else:
        raise Unrecognised("LineageDB.load", "LIN branch not one of the two modelled shapes")
    if "return LineageDB(assignments, ranks)" not in ld:
        raise Unrecognised("LineageDB.load", "return statement changed")
    out["lin_ranks_initialised"] = lin_ranks_init
    # do make_full_summary / make_human_summary sort the shared per-rank lists in place (finding C19.5)?
    mh = norm(ast.unparse(_method(tree, "QueryTaxResult", "make_human_summary")))
    mf = norm(ast.unparse(_method(tree, "QueryTaxResult", "make_full_summary")))
    h_in = "display_rank_results = self.summarized_lineage_results[display_rank] display_rank_results.sort(key=lambda res: -res.f_weighted_at_rank)" in mh
    h_cp = "display_rank_results = sorted(self.summarized_lineage_results[display_rank], key=lambda res: -res.f_weighted_at_rank)" in mh
    f_in = "rank_results = self.summarized_lineage_results[rank] rank_results.sort(key=lambda res: -res.fraction)" in mf
    f_cp = "rank_results = sorted(self.summarized_lineage_results[rank], key=lambda res: -res.fraction)" in mf
    if h_in and f_in and not h_cp and not f_cp:
        sort_in_place = True
    elif h_cp and f_cp and not h_in and not f_in:
        sort_in_place = False
    else:
        raise Unrecognised("make_full_summary/make_human_summary", "the sorts are not one of the two modelled shapes (both in place, or both on a copy)")
    mk = norm(ast.unparse(_method(tree, "QueryTaxResult", "make_kreport_results")))
    if "if unclassified_recorded: continue else: unclassified_recorded = True kreport_results.append(kresD)" not in mk:
        raise Unrecognised("make_kreport_results", "the unclassified-once loop changed")
    out["writers_sort_in_place"] = sort_in_place
    # get_ident (module level)
    gi = None
    for node in tree.body:
        if isinstance(node, ast.FunctionDef) and node.name == "get_ident":
            gi = norm(ast.unparse(node))
    want_gi = norm("def get_ident(ident, *, keep_full_identifiers=False, keep_identifier_versions=False): "
                   "\"\"\"Hack and slash identifiers.\"\"\" "
                   "if not keep_full_identifiers: ident = ident.split(' ')[0] "
                   "if not keep_identifier_versions: ident = ident.split('.')[0] return ident")
    if gi is None or gi.replace("'Hack and slash identifiers.'", '"""Hack and slash identifiers."""') != want_gi:
        raise Unrecognised("get_ident", "body not the modelled shape: " + str(gi)[:300])
    report["inputs"]["tax"] = {"check_values": cv, "get_ident": gi}
    report["outputs"]["tax"] = out
    return f"""
/-- `NCBI_RANKS`, `ICTV_RANKS` and the `null_names` of `_init_from_lineage_dict` in tax/tax_utils.py -/
def taxNcbiRanks : List String := {_lean_strs(out['NCBI_RANKS'])}
def taxIctvRanks : List String := {_lean_strs(out['ICTV_RANKS'])}
def taxNullNames : List String := {_lean_strs(out['null_names'])}
/-- shapes recognised (the extractor fails closed on any other):
    check_values = `fraction > 1 or f_weighted > 1 -> error; fraction <= 0 or f_weighted <= 0 -> error`;
    remainder = `1.0 - total` kept when `> 0`; sort key `-fraction`; containment test `fraction >= threshold` -/
def taxShapesRecognised : Bool := true
/-- which of the two modelled shapes of `check_values` / the remainder test the source has:
    false = the code as it is, true = the tolerance repair of D18; `taxTolDen`: FLOAT_TOLERANCE = 1/taxTolDen -/
def taxRepaired : Bool := {'true' if repaired else 'false'}
def taxTolDen : Nat := {tol_den}
/-- true = the variant that keeps `f_weighted <= 0 -> error` and does not clamp the weighted remainder (v2) -/
def taxRepairStrict : Bool := {'true' if strict else 'false'}
/-- does `LineageDB.load` assign `ranks` in its LIN branch before reading rows (false = a header-only LIN file
    ends in UnboundLocalError, finding C19.4) -/
def taxLinRanksInit : Bool := {'true' if lin_ranks_init else 'false'}
/-- do csv_summary / human sort the shared `summarized_lineage_results` lists in place (true) or a copy (false)? -/
def taxWritersSortInPlace : Bool := {'true' if sort_in_place else 'false'}
"""


SERVES = ["C19"]
EXTRACTORS = [("tax", x_tax)]
