"""Translator module for C02: re-extract the five literal tables of
src/core/src/encodings.rs (COMPLEMENT, VALID, CODONTABLE, DAYHOFFTABLE, HPTABLE)
and the three literal bytes the surrounding functions use (`b'X'` for an unknown
codon / amino acid, `b'N'` padding of a 2-letter codon) into Generated.lean.

Strict: each table must have exactly the shape written below (modulo comments and
white space).  Duplicate keys are refused (a HashMap built from an array literal
keeps the LAST duplicate, `List.lookup` the first: rather than guess, fail closed).
"""
import re

from translate import Unrecognised, read, strip_rust_comments, norm, rust_fn_body

SRC = "src/core/src/encodings.rs"


def _byte(tok, what):
    """b'A' -> 65 ; also b'\\n' style escapes are refused (never used in these tables)"""
    m = re.fullmatch(r"b'([^\\'])'", tok)
    if not m:
        raise Unrecognised(what, "not a plain byte literal: " + tok[:20])
    return ord(m.group(1))


def _const_table(src, name, decl, init, rhs_re, what):
    """`<decl> = { let mut lookup = [<init>; 256]; (lookup[b'X' as usize] = <rhs>;)+ lookup };`"""
    m = re.search(re.escape(decl) + r"\s*=\s*\{(.*?)\n\};", src, re.S)
    if not m:
        raise Unrecognised(name, "declaration `" + decl + "` not found")
    body = norm(m.group(1))
    pre = f"let mut lookup = [{init}; 256];"
    if not body.startswith(pre) or not body.endswith("lookup"):
        raise Unrecognised(name, "initialiser/ending changed: " + body[:80])
    mid = body[len(pre):-len("lookup")].strip()
    stmts = [s.strip() for s in mid.split(";") if s.strip()]
    out = []
    for s in stmts:
        mm = re.fullmatch(r"lookup\[(b'.')\s+as\s+usize\]\s*=\s*(" + rhs_re + ")", s)
        if not mm:
            raise Unrecognised(name, "statement not of the form lookup[b'X' as usize] = ..: " + s[:60])
        out.append((_byte(mm.group(1), name), mm.group(2)))
    if not out:
        raise Unrecognised(name, "empty table")
    keys = [k for k, _ in out]
    if len(set(keys)) != len(keys):
        raise Unrecognised(name, "duplicate index assigned twice")
    return out


def _lazy_map(src, name, keyty, entry_re):
    """`static NAME: Lazy<HashMap<KEYTY, u8>> = Lazy::new(|| { [ (k, v), ... ] .iter() .cloned() .collect() });`"""
    m = re.search(r"static\s+" + name + r"\s*:\s*Lazy<HashMap<" + re.escape(keyty) + r",\s*u8>>\s*=\s*Lazy::new\(\|\|\s*\{\s*\[(.*?)\]\s*"
                  r"\.iter\(\)\s*\.cloned\(\)\s*\.collect\(\)\s*\}\);", src, re.S)
    if not m:
        raise Unrecognised(name, "declaration shape changed")
    body = norm(m.group(1))
    items = [x.strip() for x in re.split(r"\)\s*,", body) if x.strip()]
    out = []
    for it in items:
        it = it.rstrip(")").strip()
        mm = re.fullmatch(r"\(\s*" + entry_re + r"\s*,\s*(b'.')", it)
        if not mm:
            raise Unrecognised(name, "entry not recognised: " + it[:40])
        out.append((mm.group(1), _byte(mm.group(2), name)))
    if not out:
        raise Unrecognised(name, "empty table")
    keys = [k for k, _ in out]
    if len(set(keys)) != len(keys):
        dup = sorted({k for k in keys if keys.count(k) > 1})
        raise Unrecognised(name, "duplicate keys " + ",".join(dup))
    return out


def x_seq_tables(report):
    src = strip_rust_comments(read(SRC))
    comp = _const_table(src, "COMPLEMENT", "const COMPLEMENT: [u8; 256]", "0", r"b'.'", "COMPLEMENT")
    comp = [(k, _byte(v, "COMPLEMENT")) for k, v in comp]
    valid = _const_table(src, "VALID", "pub const VALID: [bool; 256]", "false", r"true", "VALID")
    valid = [k for k, _ in valid]
    codon = _lazy_map(src, "CODONTABLE", "&'static str", r'"([A-Za-z*]+)"')
    codon = [([ord(c) for c in k], v) for k, v in codon]
    dayhoff = [(_byte(k, "DAYHOFFTABLE"), v) for k, v in _lazy_map(src, "DAYHOFFTABLE", "u8", r"(b'.')")]
    hp = [(_byte(k, "HPTABLE"), v) for k, v in _lazy_map(src, "HPTABLE", "u8", r"(b'.')")]

    # the literal bytes of the functions around the tables
    def only_byte(fn, pattern, what):
        body = norm(rust_fn_body(src, fn))
        ms = re.findall(pattern, body)
        if not ms or len(set(ms)) != 1:
            raise Unrecognised(fn, what + " not found exactly once-valued in: " + body[:120])
        return _byte(ms[0], fn)

    x_codon = only_byte("translate_codon", r"Ok\((b'.')\)", "unknown-codon residue")
    n_pad = only_byte("translate_codon", r"v\.push\((b'.')\)", "2-letter codon padding")
    x_day = only_byte("aa_to_dayhoff", r"None => (b'.')", "default letter")
    x_hp = only_byte("aa_to_hp", r"None => (b'.')", "default letter")
    body = norm(rust_fn_body(src, "revcomp"))
    if body != "seq.iter() .rev() .map(|nt| COMPLEMENT[*nt as usize]) .collect()":
        raise Unrecognised("revcomp", "body changed: " + body[:120])

    report["outputs"]["seq_tables"] = {
        "COMPLEMENT": comp, "VALID": valid, "CODONTABLE_entries": len(codon),
        "DAYHOFFTABLE_entries": len(dayhoff), "HPTABLE_entries": len(hp),
        "unknown_codon": x_codon, "pad": n_pad, "unknown_dayhoff": x_day, "unknown_hp": x_hp}
    report["inputs"]["seq_tables"] = SRC

    def pairs(l):
        return "[" + ", ".join(f"({a}, {b})" for a, b in l) + "]"

    def cod(l):
        rows = []
        for i in range(0, len(l), 6):
            rows.append("  " + ", ".join("([" + ", ".join(map(str, k)) + f"], {v})" for k, v in l[i:i + 6]))
        return "[\n" + ",\n".join(rows) + "]"

    return f"""
/-- encodings.rs `COMPLEMENT`: the assigned entries `(index, value)`; every other index holds 0 -/
def complementEntries : List (Nat × Nat) := {pairs(comp)}
/-- encodings.rs `VALID`: the indices set to `true`; every other index is `false` -/
def validEntries : List Nat := [{", ".join(map(str, valid))}]
/-- encodings.rs `CODONTABLE` in source order (keys are the bytes of the codon string; no duplicate keys) -/
def codonEntries : List (List Nat × Nat) := {cod(codon)}
/-- encodings.rs `DAYHOFFTABLE` in source order -/
def dayhoffEntries : List (Nat × Nat) := {pairs(dayhoff)}
/-- encodings.rs `HPTABLE` in source order -/
def hpEntries : List (Nat × Nat) := {pairs(hp)}
/-- `translate_codon`: residue for a codon that is not in the table; byte appended to a 2-letter codon -/
def unknownCodon : Nat := {x_codon}
def codonPad : Nat := {n_pad}
/-- `aa_to_dayhoff` / `aa_to_hp`: letter for an amino acid that is not in the table -/
def unknownDayhoff : Nat := {x_day}
def unknownHp : Nat := {x_hp}
"""


EXTRACTORS = [("seq_tables", x_seq_tables)]
SERVES = ["C02"]
