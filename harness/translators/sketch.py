"""Translator pieces for C14: the literal tables the sketch command's parameter handling is
built from, re-read from /repo's working tree on every run (strict, fail closed).

  * command_sketch.py  DEFAULTS (per-moltype default parameter strings), DEFAULT_MMHASH_SEED,
                       the `k * 3` multiplier applied to non-DNA k sizes
  * cmd.rs             ComputeParameters builder defaults (ksizes, num_hashes, seed, scaled,
                       track_abundance, dna/protein/dayhoff/hp) and the ORDER in which
                       build_template pushes one sketch per molecule type for each k
  * command_compute.py ComputeParameters.__init__ keyword defaults
"""
import ast
import re

from translate import Unrecognised, read, strip_rust_comments, rust_fn_body


def lean_str(s):
    if any(ord(c) < 32 or ord(c) > 126 or c in '"\\' for c in s):
        raise Unrecognised("sketch", f"string literal with characters the translator does not emit: {s!r}")
    return '"' + s + '"'


def x_sketch(report):
    py = read("src/sourmash/command_sketch.py")
    tree = ast.parse(py)
    defaults = None
    seed = None
    for node in tree.body:
        if isinstance(node, ast.Assign) and len(node.targets) == 1 and isinstance(node.targets[0], ast.Name):
            name = node.targets[0].id
            if name == "DEFAULTS":
                v = node.value
                if not (isinstance(v, ast.Call) and isinstance(v.func, ast.Name) and v.func.id == "dict" and not v.args):
                    raise Unrecognised("DEFAULTS", "not a dict(...) call with keyword arguments")
                defaults = []
                for kw in v.keywords:
                    if kw.arg is None or not (isinstance(kw.value, ast.Constant) and isinstance(kw.value.value, str)):
                        raise Unrecognised("DEFAULTS", "entry is not name=\"string\"")
                    defaults.append((kw.arg, kw.value.value))
            elif name == "DEFAULT_MMHASH_SEED":
                if not (isinstance(node.value, ast.Constant) and isinstance(node.value.value, int)):
                    raise Unrecognised("DEFAULT_MMHASH_SEED", "not an integer literal")
                seed = node.value.value
    if defaults is None or seed is None:
        raise Unrecognised("command_sketch.py", "DEFAULTS / DEFAULT_MMHASH_SEED not found")
    if sorted(k for k, _ in defaults) != ["dayhoff", "dna", "hp", "protein"]:
        raise Unrecognised("DEFAULTS", f"molecule types changed: {[k for k, _ in defaults]}")
    m = re.search(r"if self\.mult_ksize_by_3 and not def_dna:\s*\n\s*ksizes = \[k \* (\d+) for k in ksizes\]", py)
    if not m:
        raise Unrecognised("get_compute_params", "k-size multiplier shape not recognised")
    mult = int(m.group(1))
    # the order of the item tests in _parse_params_str (the model follows this order)
    fn = next((n for n in tree.body if isinstance(n, ast.FunctionDef) and n.name == "_parse_params_str"), None)
    if fn is None:
        raise Unrecognised("_parse_params_str", "function not found")
    loop = next((n for n in fn.body if isinstance(n, ast.For)), None)
    if loop is None or len(loop.body) != 1 or not isinstance(loop.body[0], ast.If):
        raise Unrecognised("_parse_params_str", "loop shape changed")
    tests = []
    node = loop.body[0]
    while True:
        tests.append(ast.unparse(node.test))
        if len(node.orelse) == 1 and isinstance(node.orelse[0], ast.If):
            node = node.orelse[0]
        else:
            break
    expected = ["item == 'abund'", "item == 'noabund'", "item.startswith('k')", "item.startswith('num')",
                "item.startswith('scaled')", "item.startswith('seed')", "item in ('protein', 'dayhoff', 'hp', 'dna')"]
    if tests != expected:
        raise Unrecognised("_parse_params_str", f"item tests changed: {tests}")

    # does __init__ end with the size check of patches/C14.1-sketch-refuse-zero-size.diff ?
    cls_f = next((n for n in tree.body if isinstance(n, ast.ClassDef) and n.name == "_signatures_for_sketch_factory"), None)
    init_f = next((n for n in cls_f.body if isinstance(n, ast.FunctionDef) and n.name == "__init__"), None) if cls_f else None
    if init_f is None:
        raise Unrecognised("_signatures_for_sketch_factory.__init__", "not found")
    last = init_f.body[-1]
    want_loop = ("for moltype, params in self.params_list:\n    d = self.defaults[moltype]\n    if not params.get('num', d.get('num', 0)) "
                 "and (not params.get('scaled', d.get('scaled', 0))):\n        raise ValueError('must set either num or scaled to a non-zero value')")
    if isinstance(last, ast.For) and "non-zero value" in ast.unparse(last):
        if ast.unparse(last) != want_loop:
            raise Unrecognised("_signatures_for_sketch_factory.__init__", "size check present but not in the modelled shape: " + ast.unparse(last)[:200])
        refuses_zero = True
    elif "non-zero value" in ast.unparse(init_f):
        raise Unrecognised("_signatures_for_sketch_factory.__init__", "size check present but not as the last statement")
    else:
        refuses_zero = False

    # does _compute_individual create the --output-dir directory (patches/C14.2-sketch-create-output-dir.diff)?
    ci = dup_src = None
    for n in tree.body:
        if isinstance(n, ast.FunctionDef) and n.name == "_compute_individual":
            ci = ast.unparse(n)
    if ci is None:
        raise Unrecognised("_compute_individual", "not found in command_sketch.py")
    want_mk = "if args.output_dir:\n                os.makedirs(args.output_dir, exist_ok=True)\n                sigfile = os.path.join(args.output_dir, sigfile)"
    want_no = "if args.output_dir:\n                sigfile = os.path.join(args.output_dir, sigfile)"
    if want_mk in ci:
        creates_outdir = True
    elif want_no in ci and "makedirs" not in ci:
        creates_outdir = False
    else:
        raise Unrecognised("_compute_individual", "--output-dir handling has neither known shape")

    # Rust side
    rs = strip_rust_comments(read("src/core/src/cmd.rs"))
    bt = rust_fn_body(rs, "build_template")
    order = re.findall(r"if params\.(\w+) \{\s*ksigs\.push\(", bt)
    if len(re.findall(r"\.abunds\(if params\.track_abundance \{\s*Some\(Default::default\(\)\)\s*\} else \{\s*None\s*\}\)", bt)) != 4:
        raise Unrecognised("build_template", "abunds(if params.track_abundance {Some(default)} else {None}) not present once per molecule type")
    hfs = re.findall(r"\.hash_function\(HashFunctions::Murmur64(\w+)\)", bt)
    if len(order) != 4 or sorted(order) != ["dayhoff", "dna", "hp", "protein"]:
        raise Unrecognised("build_template", f"molecule branches changed: {order}")
    if [h.lower() for h in hfs] != order:
        raise Unrecognised("build_template", f"branch / hash function pairing changed: {order} vs {hfs}")
    if not re.search(r"let max_hash = max_hash_for_scaled\(params\.scaled\);", bt):
        raise Unrecognised("build_template", "max_hash no longer max_hash_for_scaled(params.scaled)")
    for field in (r"\.num\(params\.num_hashes\)", r"\.ksize\(\*k\)", r"\.max_hash\(max_hash\)", r"\.seed\(params\.seed\)"):
        if len(re.findall(field, bt)) != 4:
            raise Unrecognised("build_template", f"builder call {field} not present once per molecule type")
    dflt = {}
    m = re.search(r"pub struct ComputeParameters \{(.*?)\n\}", rs, re.S)
    if not m:
        raise Unrecognised("ComputeParameters", "struct not found")
    for mm in re.finditer(r"#\[builder\(default = (.*?)\)\]\s*\n\s*(\w+):", m.group(1)):
        dflt[mm.group(2)] = mm.group(1).strip()
    want = {"ksizes": "vec![21, 31, 51]", "num_hashes": "500u32", "seed": "42u64", "scaled": "0u64",
            "track_abundance": "false", "dna": "true", "protein": "false", "dayhoff": "false", "hp": "false"}
    got = {k: dflt.get(k) for k in want}
    ks = re.fullmatch(r"vec!\[([\d, ]+)\]", got["ksizes"] or "")
    if not ks:
        raise Unrecognised("ComputeParameters", f"ksizes default not a vec! literal: {got['ksizes']}")
    rk = [int(x) for x in ks.group(1).split(",")]
    def num(field, suffix):
        mm = re.fullmatch(r"(\d+)" + suffix, got[field] or "")
        if not mm:
            raise Unrecognised("ComputeParameters", f"{field} default shape changed: {got[field]}")
        return int(mm.group(1))
    rnum, rseed, rscaled = num("num_hashes", "u32"), num("seed", "u64"), num("scaled", "u64")
    flags = {}
    for f in ("track_abundance", "dna", "protein", "dayhoff", "hp"):
        if got[f] not in ("true", "false"):
            raise Unrecognised("ComputeParameters", f"{f} default shape changed: {got[f]}")
        flags[f] = got[f]

    # command_sketch.py carries its own copies of ComputeParameters, _compute_individual, _compute_merged,
    # add_seq and set_sig_name (the ones `sketch` runs); command_compute.py has the originals (`compute`).
    # The model follows ONE text: fail closed if the copies differ.
    cc_src = read("src/sourmash/command_compute.py")
    dup = {}
    for label, src in (("compute", cc_src), ("sketch", py)):
        t = ast.parse(src)
        dup[label] = {n.name: ast.get_source_segment(src, n) for n in t.body
                      if isinstance(n, (ast.FunctionDef, ast.ClassDef))}
    required = ("ComputeParameters", "_compute_individual", "_compute_merged", "add_seq", "set_sig_name")
    for name in required:
        if name not in dup["sketch"] or name not in dup["compute"]:
            raise Unrecognised(name, "no longer defined in both command_sketch.py and command_compute.py")
    # EVERY top-level function / class the two modules both define must be textually the same
    shared = sorted(set(dup["sketch"]) & set(dup["compute"]))
    for name in shared:
        if dup["sketch"][name] != dup["compute"][name]:
            raise Unrecognised(name, "the copies in command_sketch.py and command_compute.py differ: decide which one the model follows")
    report["inputs"]["sketch_compute_shared_definitions"] = shared
    # Python ComputeParameters.__init__ keyword defaults (the copy the sketch factory uses)
    cc = ast.parse(py)
    cls = next((n for n in cc.body if isinstance(n, ast.ClassDef) and n.name == "ComputeParameters"), None)
    init = next((n for n in cls.body if isinstance(n, ast.FunctionDef) and n.name == "__init__"), None) if cls else None
    if init is None:
        raise Unrecognised("ComputeParameters.__init__", "not found")
    pyd = {a.arg: ast.literal_eval(d) for a, d in zip(init.args.kwonlyargs, init.args.kw_defaults)}
    if set(pyd) != {"ksizes", "seed", "protein", "dayhoff", "hp", "dna", "num_hashes", "track_abundance", "scaled"}:
        raise Unrecognised("ComputeParameters.__init__", f"keyword set changed: {sorted(pyd)}")

    report["inputs"]["sketch"] = {"DEFAULTS": defaults, "DEFAULT_MMHASH_SEED": seed, "k_mult": mult,
                                  "parse_tests": tests, "refuses_zero_size": refuses_zero, "creates_outdir": creates_outdir, "build_template_order": order,
                                  "rust_defaults": got, "py_defaults": {k: repr(v) for k, v in pyd.items()}}
    b = lambda x: "true" if x in (True, "true") else "false"
    out = [""]
    out.append("/-- `DEFAULTS` in command_sketch.py: per-moltype default parameter strings -/")
    out.append("def sketchDefaults : List (String × String) := [" +
               ", ".join(f"({lean_str(k)}, {lean_str(v)})" for k, v in defaults) + "]")
    out.append(f"def sketchDefaultSeed : Nat := {seed}")
    out.append("/-- `_signatures_for_sketch_factory.__init__` ends with the check that refuses a parameter set with neither num nor scaled (patches/C14.1) -/")
    out.append(f"def sketchRefusesZero : Bool := {'true' if refuses_zero else 'false'}")
    out.append("/-- `_compute_individual` creates the `--output-dir` directory before writing into it (patches/C14.2) -/")
    out.append(f"def sketchCreatesOutdir : Bool := {'true' if creates_outdir else 'false'}")
    out.append("/-- non-DNA k sizes are multiplied by this in `get_compute_params` -/")
    out.append(f"def sketchKMult : Nat := {mult}")
    out.append("/-- order in which `build_template` (cmd.rs) pushes one sketch per molecule type for each k -/")
    out.append("def templateMolOrder : List String := [" + ", ".join(lean_str(o) for o in order) + "]")
    out.append("/-- `ComputeParameters` builder defaults in cmd.rs: ksizes, num_hashes, seed, scaled, track, dna, protein, dayhoff, hp -/")
    out.append(f"def cpRustDefaults : List Nat × Nat × Nat × Nat × Bool × Bool × Bool × Bool × Bool := "
               f"({rk}, {rnum}, {rseed}, {rscaled}, {flags['track_abundance']}, {flags['dna']}, {flags['protein']}, "
               f"{flags['dayhoff']}, {flags['hp']})")
    out.append("/-- `ComputeParameters.__init__` keyword defaults in command_compute.py (same order) -/")
    out.append(f"def cpPyDefaults : List Nat × Nat × Nat × Nat × Bool × Bool × Bool × Bool × Bool := "
               f"({list(pyd['ksizes'])}, {pyd['num_hashes']}, {pyd['seed']}, {pyd['scaled']}, {b(pyd['track_abundance'])}, "
               f"{b(pyd['dna'])}, {b(pyd['protein'])}, {b(pyd['dayhoff'])}, {b(pyd['hp'])})")
    return "\n".join(out) + "\n"


def x_btree_d14(report):
    """which of the two known shapes the four `current_max` / abundance-0 sites of KmerMinHashBTree have:
    all as first found (defect D14) -> false, all repaired as in patches/C14-btree-current-max.diff -> true,
    anything else (a partial or different repair) -> unrecognised (the model has no variant for it)"""
    from translate import norm
    src = strip_rust_comments(read("src/core/src/sketch/minhash.rs"))
    i_bt = src.index("impl KmerMinHashBTree {")
    bt = src[i_bt:]
    flags = {}
    add = norm(rust_fn_body(bt, "add_hash_with_abundance"))
    if "if abundance == 0 { return; }" in add:
        flags["abundance0"] = False
    elif "if abundance == 0 { self.remove_hash(hash); return; }" in add:
        flags["abundance0"] = True
    else:
        raise Unrecognised("KmerMinHashBTree::add_hash_with_abundance", "abundance == 0 branch has neither known shape")
    merge = norm(rust_fn_body(bt, "merge"))
    n = merge.count("current_max")
    if n == 0:
        flags["merge"] = False
    elif n == 1 and "self.current_max = *self.mins.iter().next_back().unwrap_or(&0);" in merge:
        flags["merge"] = True
    else:
        raise Unrecognised("KmerMinHashBTree::merge", "current_max handling has neither known shape")
    m = re.search(r"impl From<KmerMinHash> for KmerMinHashBTree \{(.*?)\n\}\n", src, re.S)
    if not m:
        raise Unrecognised("From<KmerMinHash> for KmerMinHashBTree", "impl not found")
    frm = norm(m.group(1))
    n = frm.count("current_max")
    if n == 0:
        flags["from_vec"] = False
    elif n == 1 and "new_mh.current_max = *new_mh.mins.iter().next_back().unwrap_or(&0);" in frm:
        flags["from_vec"] = True
    else:
        raise Unrecognised("From<KmerMinHash> for KmerMinHashBTree", "current_max handling has neither known shape")
    m = re.search(r"impl<'de> Deserialize<'de> for KmerMinHashBTree \{(.*?)\n\}\n", src, re.S)
    if not m:
        raise Unrecognised("Deserialize for KmerMinHashBTree", "impl not found")
    de = norm(m.group(1))
    if "current_max = 0;" in de and de.count("current_max = *mins.iter().next_back().unwrap_or(&0);") == 1:
        flags["deserialize"] = False
    elif "current_max = 0;" not in de and de.count("let current_max = *mins.iter().next_back().unwrap_or(&0);") == 1:
        flags["deserialize"] = True
    else:
        raise Unrecognised("Deserialize for KmerMinHashBTree", "current_max handling has neither known shape")
    report["outputs"]["btree_d14"] = flags
    vals = set(flags.values())
    if len(vals) != 1:
        raise Unrecognised("KmerMinHashBTree D14 sites", f"partially repaired ({flags}): the model has the all-as-found and the all-repaired variant only")
    rep = "true" if vals == {True} else "false"
    return ("\n/-- KmerMinHashBTree: abundance 0 removes and merge / From<KmerMinHash> / Deserialize refresh `current_max`\n"
            "    (false = the four sites as first found, defect D14; true = repaired) -/\n"
            f"def btreeD14Repaired : Bool := {rep}\n")


SERVES = ["C14"]
EXTRACTORS = [("sketch", x_sketch), ("btree_d14", x_btree_d14)]
