"""Translator pieces for C05: the expression shapes of the comparison code that the
hand-written model (lean/SmVerif/Model/Compare.lean) transcribes.  Strict: a shape
that is no longer found makes the run report the tie as broken.

Extracted (and re-checked by `Sm.C05.translator_tie`, a `decide` theorem):
  * the ordered list of fields `check_compatible` compares, with the error each raises
    (and that the `num` comparison is still commented out);
  * the Jaccard expression `common as f64 / u64::max(1, size) as f64`;
  * the swap-by-size condition of `count_common`;
  * in minhash.py: the statement sequence of `contained_by` / `max_containment` (downsample of both
    operands, `count_common` BEFORE the empty-sketch early return, bias-factor expression, clamp),
    of `avg_containment`, and the `num` guard of `jaccard`.
"""
import re

from translate import Unrecognised, read, strip_rust_comments, rust_fn_body, py_fn_body, norm, tok


def _method_body(py, name):
    """body of method `name` of class MinHash (first definition in the file)"""
    m = re.search(r"^    def\s+" + re.escape(name) + r"\s*\(.*?\):\n", py, re.M | re.S)
    if not m:
        raise Unrecognised(name, "method not found")
    lines = []
    for line in py[m.end():].split("\n"):
        if line.strip() == "":
            continue
        if not line.startswith("        "):
            break
        lines.append(line)
    body = "\n".join(lines)
    body = re.sub(r'"""(.|\n)*?"""', "", body)
    body = re.sub(r'^\s*"[^"\n]*"\s*$', "", body, flags=re.M)
    body = re.sub(r"#[^\n]*", "", body)
    return norm(body)


def x_cmp(report):
    raw = read("src/core/src/sketch/minhash.rs")
    i_vec = raw.index("impl SigsTrait for KmerMinHash {")
    i_end = raw.index("struct Intersection<")
    seg_raw = raw[i_vec:i_end]
    if not re.search(r"/\*\s*if self\.num != other\.num", seg_raw):
        raise Unrecognised("check_compatible", "the commented-out `num` comparison is gone (num may now be checked)")
    seg = strip_rust_comments(seg_raw)
    body = tok(rust_fn_body(seg, "check_compatible"))
    fields = re.findall(r"if self\.(\w+) != other\.(\w+) \{ return Err \( Error::(\w+) \) ; \}", body)
    rebuilt = " ".join(f"if self.{a} != other.{b} {{ return Err ( Error::{e} ) ; }}" for a, b, e in fields) + " Ok ( ( ) )"
    if norm(rebuilt) != body or any(a != b for a, b, _ in fields):
        raise Unrecognised("check_compatible", "body is not a sequence of field comparisons: " + body[:200])
    report["inputs"]["check_compatible"] = body
    src = strip_rust_comments(raw)
    i0 = src.index("impl KmerMinHash {")
    i1 = src.index("impl SigsTrait for KmerMinHash {")
    vec = src[i0:i1]
    jb = tok(rust_fn_body(vec, "jaccard"))
    m = re.search(r"Ok \( common as f64 / u64::max \( (\d+) , size \) as f64 \)", jb)
    if not m or "else { Ok ( 0.0 ) }" not in jb:
        raise Unrecognised("jaccard", "expression shape changed: " + jb[:200])
    floor = int(m.group(1))
    report["inputs"]["jaccard"] = jb
    cb = tok(rust_fn_body(vec, "count_common"))
    if "if self.size ( ) < other.size ( ) { Intersection::new ( self.mins.iter ( ) , other.mins.iter ( ) ) } else " \
       "{ Intersection::new ( other.mins.iter ( ) , self.mins.iter ( ) ) }" not in cb:
        raise Unrecognised("count_common", "swap-by-size shape changed: " + cb[:300])
    ab = tok(rust_fn_body(vec, "angular_similarity"))
    for need in ("abunds.iter ( ) .map ( |a| ( a * a ) ) .sum ( )", "f64::min ( prod as f64 / ( norm_a * norm_b ) , 1. )",
                 "2. * prod.acos ( ) / PI", "Ok ( 1. - distance )"):
        if need not in ab:
            raise Unrecognised("angular_similarity", f"shape `{need}` not found")
    py = read("src/sourmash/minhash.py")
    bias = "bias_factor = 1.0 - (1.0 - 1.0 / self_mh.scaled) ** total_denom"
    head = ["self_mh, other_mh = self, other", "if downsample and self.scaled != other.scaled:",
            "scaled = max(self.scaled, other.scaled)", "self_mh = self.downsample(scaled=scaled)",
            "other_mh = other.downsample(scaled=scaled)", "common = self_mh.count_common(other_mh)"]
    # shapes must occur IN THIS ORDER (count_common, i.e. the compatibility refusal, before the early return)
    shapes = {
        "contained_by": head + ["denom = len(self_mh)", "if not denom: return 0.0",
                                "total_denom = float( denom * self_mh.scaled )", bias,
                                "containment = common / (denom * bias_factor)",
                                "if containment >= 1: return 1.0 elif containment <= 0: return 0.0 else: return containment"],
        "max_containment": head + ["min_denom = min((len(self_mh), len(other_mh)))", "if not min_denom: return 0.0",
                                   "total_denom = float( min_denom * self_mh.scaled )", bias,
                                   "max_containment = common / (min_denom * bias_factor)",
                                   "if max_containment >= 1: return 1.0 elif max_containment <= 0: return 0.0 else: return max_containment"],
        "avg_containment": ["c1 = self.contained_by(other, downsample)", "c2 = other.contained_by(self, downsample)",
                            "return (c1 + c2) / 2"],
        "jaccard": ["if self.num != other.num:", "raise TypeError(err)",
                    "lib.kmerminhash_similarity, other._get_objptr(), True, downsample"],
    }
    for fn, needs in shapes.items():
        b = _method_body(py, fn)
        report["inputs"]["py." + fn] = b
        pos = 0
        for need in needs:
            k = b.find(norm(need), pos)
            if k < 0:
                raise Unrecognised("minhash.py:" + fn, f"shape `{need}` not found (in order) in: {b[:300]}")
            pos = k + len(norm(need))
    report["outputs"]["cmp"] = {"compat_fields": fields, "jaccard_floor": floor}
    items = ", ".join(f'("{a}", "{e}")' for a, _, e in fields)
    return f"""
/-- `check_compatible` (KmerMinHash): compared fields in order, with the error raised -/
def cmpCompatFields : List (String × String) := [{items}]
/-- `jaccard`: `common as f64 / u64::max(cmpJaccardFloor, size) as f64` -/
def cmpJaccardFloor : Nat := {floor}
"""


EXTRACTORS = [("cmp", x_cmp)]
SERVES = ["C05"]
