"""Translator piece for C15 (ownership): the clone / copy / return-self facts that `Model/OwnObj.lean`
is built on are RE-READ from the source on every run (Python: exact AST shapes of the method bodies, docstrings
dropped; Rust: normalised text of the two FFI functions) and emitted as Boolean constants `Sm.Gen.own…`.

* a construct that is not found at all (class / method / function gone or renamed) fails the translation (fail closed);
* a construct that is found but no longer has the recorded shape is emitted as `false`: `Props/C15.lean` proves
  `source_clone_discipline` (every constant is `true`) by `decide`, so the PROOF breaks and names the fact; the model's
  `to_mutable` additionally follows `ownSigToMutableCopies` (aliasing variant when false), so the frame theorems
  about `GatherDatabases.__init__` break too.
"""
import ast
import re

from translate import Unrecognised, read, norm, strip_rust_comments, rust_fn_body

SERVES = ["C15"]


def _cls(tree, name):
    for n in tree.body:
        if isinstance(n, ast.ClassDef) and n.name == name:
            return n
    raise Unrecognised("own." + name, "class not found")


def _fn(cls, name, optional=False):
    for n in cls.body:
        if isinstance(n, ast.FunctionDef) and n.name == name:
            return n
    if optional:
        return None
    raise Unrecognised(f"own.{cls.name}.{name}", "method not found")


def _body(fn):
    """statements of a function without its docstring"""
    b = fn.body
    if b and isinstance(b[0], ast.Expr) and isinstance(getattr(b[0], "value", None), ast.Constant) \
            and isinstance(b[0].value.value, str):
        b = b[1:]
    return b


def _dump(stmts):
    return [ast.dump(s) for s in stmts]


def _same(fn, src):
    return _dump(_body(fn)) == _dump(ast.parse(src).body)


def _contains(fn, src):
    """the statements of `src` occur, in this order and contiguously, somewhere in the body of fn (any depth)"""
    want = _dump(ast.parse(src).body)
    for node in ast.walk(fn):
        for field in ("body", "orelse", "finalbody"):
            seq = getattr(node, field, None)
            if isinstance(seq, list):
                d = _dump(seq)
                for i in range(len(d) - len(want) + 1):
                    if d[i:i + len(want)] == want:
                        return True
    return False


def _has_assign_alias(cls, name, target):
    for n in cls.body:
        if isinstance(n, ast.Assign) and len(n.targets) == 1 and isinstance(n.targets[0], ast.Name) \
                and n.targets[0].id == name and isinstance(n.value, ast.Name) and n.value.id == target:
            return True
    return False


def _returns(fn):
    return [ast.dump(n.value) if n.value is not None else None for n in ast.walk(fn) if isinstance(n, ast.Return)]


def _only_returns(fn, src_expr):
    want = ast.dump(ast.parse(src_expr, mode="eval").body)
    r = _returns(fn)
    return bool(r) and all(x == want for x in r)


def _raises_only(fn, exc="ValueError"):
    b = _body(fn)
    return len(b) == 1 and isinstance(b[0], ast.Raise) and isinstance(b[0].exc, ast.Call) \
        and isinstance(b[0].exc.func, ast.Name) and b[0].exc.func.id == exc


def x_own(report):
    facts = {}
    # ---------------------------------------------------------------- signature.py
    sig = ast.parse(read("src/sourmash/signature.py"))
    S = _cls(sig, "SourmashSignature")
    F = _cls(sig, "FrozenSourmashSignature")
    facts["ownSigToMutableCopies"] = _same(_fn(S, "to_mutable"), "return self.copy()")
    facts["ownSigCopyBuildsNew"] = _same(
        _fn(S, "__copy__"),
        "a = SourmashSignature(self.minhash, name=self.name, filename=self.filename)\nreturn a") \
        and _has_assign_alias(S, "copy", "__copy__")
    facts["ownSigToFrozenCopies"] = _same(
        _fn(S, "to_frozen"), "new_ss = self.copy()\nnew_ss.__class__ = FrozenSourmashSignature\nreturn new_ss")
    facts["ownSigIntoFrozenInPlace"] = _same(_fn(S, "into_frozen"), "self.__class__ = FrozenSourmashSignature")
    facts["ownSigInitSetsViaSetters"] = _same(
        _fn(S, "__init__"),
        "self._objptr = lib.signature_new()\nif name:\n    self.name = name\nif filename:\n    self.filename = filename\n"
        "self.minhash = minhash")
    getter = setter = None
    for n in S.body:
        if isinstance(n, ast.FunctionDef) and n.name == "minhash":
            decos = [ast.dump(d) for d in n.decorator_list]
            if decos == [ast.dump(ast.parse("property", mode="eval").body)]:
                getter = n
            elif decos == [ast.dump(ast.parse("minhash.setter", mode="eval").body)]:
                setter = n
    if getter is None or setter is None:
        raise Unrecognised("own.SourmashSignature.minhash", "property getter / setter not found")
    facts["ownSigMinhashGetterWrapsFirstMh"] = _same(
        getter, "return FrozenMinHash._from_objptr(self._methodcall(lib.signature_first_mh))")
    facts["ownSigMinhashSetterCallsSetMh"] = _same(setter, "self._methodcall(lib.signature_set_mh, value._objptr)")
    facts["ownSigReducesToMutableClass"] = _same(
        _fn(S, "__reduce__"), "return (SourmashSignature, (self.minhash, self.name, self.filename))")
    facts["ownSigHasNoUpdate"] = _fn(S, "update", optional=True) is None
    facts["ownFrozenSigToMutableRebuilds"] = _same(
        _fn(F, "to_mutable"),
        "mut = SourmashSignature.__new__(SourmashSignature)\nstate_tup = self.__getstate__()\n"
        "mut.__setstate__(state_tup)\nreturn mut")
    facts["ownFrozenSigCopyIsSelf"] = _same(_fn(F, "__copy__"), "return self") and _has_assign_alias(F, "copy", "__copy__") \
        and _same(_fn(F, "to_frozen"), "return self")
    facts["ownUpdateCopiesThenFreezes"] = _same(
        _fn(F, "update"), "new_copy = self.to_mutable()\nyield new_copy\nnew_copy.into_frozen()")
    refusing = []
    for n in F.body:
        if isinstance(n, ast.FunctionDef) and n.name in ("minhash", "_name", "name", "filename", "add_sequence", "add_protein") \
                and _raises_only(n):
            refusing.append(n.name)
    facts["ownFrozenSigRefusesSetters"] = sorted(refusing) == sorted(
        ["minhash", "_name", "name", "filename", "add_sequence", "add_protein"])
    # ---------------------------------------------------------------- ffi/signature.rs
    rs = strip_rust_comments(read("src/core/src/ffi/signature.rs"))
    set_mh = norm(rust_fn_body(rs, "signature_set_mh"))
    first_mh = norm(rust_fn_body(rs, "signature_first_mh"))
    facts["ownSetMhClonesIn"] = ("sig.reset_sketches(); sig.push(Sketch::MinHash(mh.clone()));" in set_mh
                                 and "let mh = SourmashKmerMinHash::as_rust(other);" in set_mh)
    facts["ownFirstMhClonesOut"] = "Some(Sketch::MinHash(mh)) => { Ok(SourmashKmerMinHash::from_rust(mh.clone())) }" in first_mh \
        and "as_rust_mut" not in first_mh
    # ---------------------------------------------------------------- search.py / index
    search = ast.parse(read("src/sourmash/search.py"))
    G = _cls(search, "GatherDatabases")
    facts["ownGatherInitCopiesQuery"] = _contains(
        _fn(G, "__init__"), "query = query.to_mutable()\nquery.minhash = orig_query_mh")
    idx = ast.parse(read("src/sourmash/index/__init__.py"))
    I = _cls(idx, "Index")
    facts["ownCounterGatherUpdatesCopy"] = _contains(
        _fn(I, "counter_gather"),
        "with query.update() as prefetch_query:\n    prefetch_query.minhash = prefetch_query.minhash.flatten()")
    CG = _cls(idx, "CounterGather")
    facts["ownCounterGatherKeepsCopyOfQueryMh"] = _contains(
        _fn(CG, "__init__"), "self.orig_query_mh = query_mh.copy().flatten()")
    L = _cls(idx, "LinearIndex")
    facts["ownLinearInitCopiesList"] = _contains(_fn(L, "__init__"), "self._signatures = list(_signatures)")
    facts["ownLinearInsertAppends"] = _same(_fn(L, "insert"), "self._signatures.append(node)")
    facts["ownLinearSelectReturnsNew"] = _only_returns(_fn(L, "select"), "LinearIndex(siglist, self.location)") \
        and _contains(_fn(L, "select"), "siglist = []")
    Z = _cls(idx, "LazyLinearIndex")
    facts["ownLazyInitCopiesDict"] = _same(_fn(Z, "__init__"), "self.db = db\nself.selection_dict = dict(selection_dict)")
    facts["ownLazySelectCopiesDict"] = _contains(_fn(Z, "select"), "selection_dict = dict(self.selection_dict)") \
        and _only_returns(_fn(Z, "select"), "LazyLinearIndex(self.db, selection_dict)")
    ZP = _cls(idx, "ZipFileLinearIndex")
    zsel = _fn(ZP, "select")
    facts["ownZipSelectCopiesDict"] = _contains(zsel, "d = dict(self.selection_dict)") and \
        not _contains(zsel, "d = self.selection_dict")
    facts["ownZipSelectReturnsNew"] = all(
        r is not None and r.startswith("Call(func=Name(id='ZipFileLinearIndex'") for r in _returns(zsel)) and \
        len(_returns(zsel)) == 2 and _contains(zsel, "manifest = manifest.select_to_manifest(**kwargs)")
    M = _cls(idx, "MultiIndex")
    mload = _fn(M, "load")
    facts["ownMultiLoadRecomputesRows"] = _contains(mload, "manifest = CollectionManifest.create_manifest(sigloc_iter())") \
        and _contains(mload, "if iloc is None:\n    iloc = idx.location\nfor ss in idx.signatures():\n    yield ss, iloc") \
        and not any(isinstance(n, ast.Assign) and any(isinstance(t, ast.Subscript) for t in n.targets) for n in ast.walk(mload)) \
        and not any(isinstance(n, ast.Call) and isinstance(n.func, ast.Name) and n.func.id == "isinstance" for n in ast.walk(mload))
    facts["ownMultiSelectReturnsNew"] = _same(
        _fn(M, "select"),
        "_check_select_parameters(**kwargs)\nnew_manifest = self.manifest.select_to_manifest(**kwargs)\n"
        "return MultiIndex(new_manifest, self.parent, prepend_location=self.prepend_location)")
    SM = _cls(idx, "StandaloneManifestIndex")
    facts["ownStandaloneSelectReturnsNew"] = _same(
        _fn(SM, "select"),
        "_check_select_parameters(**kwargs)\nnew_manifest = self.manifest.select_to_manifest(**kwargs)\n"
        "return StandaloneManifestIndex(new_manifest, self._location, prefix=self.prefix)")
    # ---------------------------------------------------------------- manifest.py
    mf = ast.parse(read("src/sourmash/manifest.py"))
    CM = _cls(mf, "CollectionManifest")
    BM = _cls(mf, "BaseCollectionManifest")
    facts["ownManifestCtorNewRowList"] = _same(
        _fn(CM, "__init__"), "self.rows = []\nself._md5_set = set()\nself._add_rows(rows)") and _same(
        _fn(CM, "_add_rows"),
        "md5set = self._md5_set\nfor row in rows:\n    self.rows.append(row)\n    md5set.add(row['md5'])")
    facts["ownManifestAddBuildsNew"] = _same(
        _fn(CM, "__add__"), "mf = CollectionManifest(self.rows)\nmf._add_rows(other.rows)\nreturn mf")
    facts["ownManifestSelectReturnsNew"] = _same(
        _fn(CM, "select_to_manifest"), "new_rows = self._select(**kwargs)\nreturn CollectionManifest(new_rows)")
    wtc = _fn(BM, "write_to_csv")
    facts["ownWriteCsvLeavesRows"] = not any(isinstance(n, (ast.Delete, ast.AugAssign)) for n in ast.walk(wtc)) and \
        not any(isinstance(n, ast.Assign) and any(isinstance(t, ast.Subscript) for t in n.targets) for n in ast.walk(wtc)) and \
        _contains(wtc, "w = csv.DictWriter(fp, fieldnames=self.required_keys, extrasaction='ignore')")
    # ---------------------------------------------------------------- the two in-place selectors
    tail = ("if picklist is not None:\n    self.picklists.append(picklist)\n    if len(self.picklists) > 1:\n"
            "        raise ValueError({msg!r})\nreturn self")
    sbt = ast.parse(read("src/sourmash/sbt.py"))
    facts["ownSbtSelectInPlaceAppendThenRefuse"] = _contains(
        _fn(_cls(sbt, "SBT"), "select"), tail.format(msg="we do not (yet) support multiple picklists for SBTs"))
    lca = ast.parse(read("src/sourmash/lca/lca_db.py"))
    facts["ownLcaSelectInPlaceAppendThenRefuse"] = _contains(
        _fn(_cls(lca, "LCA_Database"), "select"),
        tail.format(msg="we do not (yet) support multiple picklists for LCA databases"))
    # ---------------------------------------------------------------- sqlite_index.py: what the SQLite loader hands out
    # (NOT part of `facts`: either shape is a legitimate source; the model follows it.  Finding C15.3 = the mutable shape.)
    sq = ast.parse(read("src/sourmash/index/sqlite_index.py"))
    SQ = _cls(sq, "SqliteIndex")
    ls, lss = _fn(SQ, "_load_sketch"), _fn(SQ, "_load_sketches")
    mut1 = _contains(ls, "return SourmashSignature(mh, name=name, filename=filename)")
    mut2 = _contains(lss, "ss = SourmashSignature(mh, name=row['name'], filename=row['filename'])\nyield ss, self.dbfile, sketch_id")
    fr1 = _contains(ls, "ss = SourmashSignature(mh, name=name, filename=filename)\nss.into_frozen()\nreturn ss")
    fr2 = _contains(lss, "ss = SourmashSignature(mh, name=row['name'], filename=row['filename'])\nss.into_frozen()\n"
                         "yield ss, self.dbfile, sketch_id")
    if mut1 and mut2:
        sqlite_mutable = True
    elif fr1 and fr2:
        sqlite_mutable = False
    else:
        raise Unrecognised("own.SqliteIndex._load_sketch", "neither the plain nor the freezing shape (or the two sites differ)")
    report["outputs"]["own.sqlite_hands_out_mutable"] = sqlite_mutable
    # SqliteIndex.find on a query that is empty (after downsampling): either shape is a legitimate source, the model follows it
    fnd = _fn(SQ, "find")
    if not _contains(fnd, "xx = self._get_matching_sketches(c1, query_mh.hashes, query_mh._max_hash)"):
        raise Unrecognised("own.SqliteIndex.find", "the call of _get_matching_sketches is not of the recorded shape")
    early = _contains(fnd, "if self.scaled > query_mh.scaled:\n    query_mh = query_mh.downsample(scaled=self.scaled)\n"
                           "if not query_mh:\n    return")
    gms = _fn(SQ, "_get_matching_sketches")
    if not _contains(gms, "max_hash = min(max_hash, max(hashes))"):
        raise Unrecognised("own.SqliteIndex._get_matching_sketches", "max(hashes) is not of the recorded shape")
    sqlite_refuses_empty = not early
    report["outputs"]["own.sqlite_find_refuses_empty_query"] = sqlite_refuses_empty
    # the lookup is materialised before any result is yielded (C15.4): a half-consumed search holds no cursor
    facts["ownSqliteFindMaterialises"] = _only_returns(gms, "c.fetchall()")
    report["inputs"]["own"] = "AST shapes of signature.py (SourmashSignature / FrozenSourmashSignature), search.py " \
        "(GatherDatabases.__init__), index/__init__.py (counter_gather, CounterGather, LinearIndex, LazyLinearIndex, " \
        "ZipFileLinearIndex, MultiIndex, StandaloneManifestIndex), manifest.py, sbt.py / lca_db.py select; " \
        "text of signature_set_mh / signature_first_mh in ffi/signature.rs"
    report["outputs"]["own"] = facts
    lines = ["", "/-- C15: clone / copy / return-self facts re-read from the source (true = the recorded shape) -/"]
    for k in sorted(facts):
        lines.append(f"def {k} : Bool := {str(bool(facts[k])).lower()}")
    lines.append("/-- `SqliteIndex._load_sketch` / `_load_sketches` return a plain (mutable) SourmashSignature (finding C15.3) -/")
    lines.append(f"def ownSqliteHandsOutMutable : Bool := {str(sqlite_mutable).lower()}")
    lines.append("/-- `SqliteIndex.find` raises ValueError (`max()` of no hashes) for an empty query instead of returning nothing (C06.2) -/")
    lines.append(f"def ownSqliteFindRefusesEmptyQuery : Bool := {str(sqlite_refuses_empty).lower()}")
    lines.append("def ownFacts : List (String × Bool) := [" +
                 ", ".join(f'("{k}", {k})' for k in sorted(facts)) + "]")
    return "\n".join(lines) + "\n"


EXTRACTORS = [("own", x_own)]
