"""Translator pieces for C13 (Sequence Bloom Tree / Nodegraph).

Strict, fail closed.  Extracted from /repo's working tree on every run:

* sbt.py  `SBT.parent` / `SBT.child`  -- the two position formulas (exact statement shape)
* sbt.py  `SBT._rebuild_node`         -- which of the two modelled loop bodies it has
                                         (older: merge leaves and children listed in
                                         `_missing_nodes`; repaired: merge every non-None child)
* sbt.py  `SBT.add_node`              -- whether it first rebuilds `sorted(self._missing_nodes)`
* sbt.py  `Node.unload` + the three `update` methods -- whether a node updated since it was
                                         loaded (`_dirty`) keeps its filter
(also: this nodegraph extractor's `ngLoadRefusesZero` duplicates `ngRejectsZeroTable` of
 translators/ngreader.py (C20); both are kept, they are read independently)
* sbtmh.py `SigLeaf.update`, sbt.py `Node.update`, `fill_min_n_below` -- the 0 -> 1 clamp is present
* nodegraph.rs  byte_size formula in save_to_writer / from_reader, block width, the start of
  the `with_tables` descent and its step, `hash % len` binning
"""
import ast
import re

import translate as T


def _func(tree, cls, name):
    for node in tree.body:
        if isinstance(node, ast.ClassDef) and node.name == cls:
            for f in node.body:
                if isinstance(f, ast.FunctionDef) and f.name == name:
                    return f
    raise T.Unrecognised(f"{cls}.{name}", "method not found")


def _body_dump(f):
    body = list(f.body)
    if body and isinstance(body[0], ast.Expr) and isinstance(getattr(body[0], "value", None), ast.Constant) \
            and isinstance(body[0].value.value, str):
        body = body[1:]
    return [ast.dump(s) for s in body]


def _stmts(src):
    return [ast.dump(s) for s in ast.parse(src).body]


REBUILD_HEAD = '''
node = self._nodes.get(pos, None)
if node is not None:
    return
node = Node(self.factory, name=f"internal.{pos}")
self._nodes[pos] = node
'''

REBUILD_SHIPPED = REBUILD_HEAD + '''
for c in self.children(pos):
    if c.pos in self._missing_nodes or isinstance(c.node, Leaf):
        cnode = c.node
        if cnode is None:
            self._rebuild_node(c.pos)
            cnode = self._nodes[c.pos]
        cnode.update(node)
'''

REBUILD_FIXED = REBUILD_HEAD + '''
for c in self.children(pos):
    cnode = c.node
    if cnode is None and c.pos in self._missing_nodes:
        self._rebuild_node(c.pos)
        cnode = self._nodes[c.pos]
    if cnode is not None:
        cnode.update(node)
'''

ADD_PRE = '''
for missing_pos in sorted(self._missing_nodes):
    self._rebuild_node(missing_pos)
'''

ADD_CLIMB = '''
while pos != 0:
    above = self.parent(pos)
    if above.node is not None or above.pos in self._missing_nodes:
        break
    pos = above.pos
'''

ABSENT_ANCESTORS = '''
missing = set()
for pos in list(nodes) + list(leaves):
    while pos > 0:
        pos = (pos - 1) // d
        if pos in nodes or pos in leaves or pos in missing:
            break
        missing.add(pos)
return missing
'''

UNLOAD_OLD = '''
if self.storage:
    self._data = None
'''

UNLOAD_KEEP = '''
if self.storage and not getattr(self, "_dirty", False):
    self._data = None
'''

REBUILD_FIXED_LATE = '''
node = self._nodes.get(pos, None)
if node is not None:
    return
node = Node(self.factory, name=f"internal.{pos}")
for c in self.children(pos):
    cnode = c.node
    if cnode is None and c.pos in self._missing_nodes:
        self._rebuild_node(c.pos)
        cnode = self._nodes[c.pos]
    if cnode is not None:
        cnode.update(node)
self._nodes[pos] = node
'''

CLAMP = "if min_n_below == 0:\n    min_n_below = 1\n"


def x_sbt(report):
    src = T.read("src/sourmash/sbt.py")
    tree = ast.parse(src)
    out = {}

    # --- position formulas
    par = _body_dump(_func(tree, "SBT", "parent"))
    want = _stmts("p = int(math.floor((pos - 1) / self.d))")[0]
    if want not in par:
        raise T.Unrecognised("SBT.parent", "`p = int(math.floor((pos - 1) / self.d))` not found")
    if _stmts("if pos == 0:\n    return None")[0] not in par:
        raise T.Unrecognised("SBT.parent", "`if pos == 0: return None` not found")
    ch = _body_dump(_func(tree, "SBT", "child"))
    if _stmts("cd = self.d * parent + pos + 1")[0] not in ch:
        raise T.Unrecognised("SBT.child", "`cd = self.d * parent + pos + 1` not found")
    chn = _body_dump(_func(tree, "SBT", "children"))
    if chn != _stmts("return [self.child(pos, c) for c in range(self.d)]"):
        raise T.Unrecognised("SBT.children", "not `[self.child(pos, c) for c in range(self.d)]`")
    out["parent"] = "(pos - 1) / d"
    out["child"] = "d * parent + i + 1"

    # --- _rebuild_node
    rb = _body_dump(_func(tree, "SBT", "_rebuild_node"))
    if rb == _stmts(REBUILD_SHIPPED):
        fixed = False
    elif rb == _stmts(REBUILD_FIXED) or rb == _stmts(REBUILD_FIXED_LATE):
        # (REBUILD_FIXED_LATE registers the node after the loop instead of before it: the same function whenever no
        #  child fails to load, which is all the model covers)
        fixed = True
    else:
        raise T.Unrecognised("SBT._rebuild_node", "body is neither the shipped nor the repaired shape")
    out["_rebuild_node"] = "repaired" if fixed else "shipped"

    # --- add_node: does it first rebuild the nodes recorded in _missing_nodes?
    an_all = _body_dump(_func(tree, "SBT", "add_node"))
    climb = _stmts(ADD_CLIMB)[0]
    an = [x for x in an_all if x not in (_stmts("self.manifest = None")[0], climb)]
    out["add_node_climbs_to_existing_parent"] = climb in an_all
    # which positions does a loader record as missing: every free one below the largest, or only absent ancestors?
    full = "tree._missing_nodes = {i for i in range(max_node) if i not in sbt_nodes and i not in sbt_leaves}"
    anc = 'tree._missing_nodes = _absent_ancestors(info["d"], sbt_nodes, sbt_leaves)'
    kinds = set()
    for ld in ("_load_v3", "_load_v4", "_load_v5", "_load_v6"):
        b = _body_dump(_func(tree, "SBT", ld))
        if _stmts(full)[0] in b:
            kinds.add("all-free")
        elif _stmts(anc)[0] in b:
            kinds.add("absent-ancestors")
        else:
            raise T.Unrecognised("SBT." + ld, "how _missing_nodes is computed is not one of the modelled shapes")
    if len(kinds) != 1:
        raise T.Unrecognised("SBT._load_v3.._v6", "the loaders disagree on how _missing_nodes is computed")
    anc_only = kinds == {"absent-ancestors"}
    if anc_only:
        helper = [n for n in tree.body if isinstance(n, ast.FunctionDef) and n.name == "_absent_ancestors"]
        if not helper or [ast.dump(x) for x in helper[0].body[1:]] != _stmts(ABSENT_ANCESTORS):
            raise T.Unrecognised("_absent_ancestors", "helper body not recognised")
    out["missing_nodes_are_absent_ancestors"] = anc_only
    first = _stmts("pos = self.new_node_pos(node)")[0]
    pre_loop = _stmts(ADD_PRE)[0]
    if an and an[0] == first:
        pre = False
    elif len(an) >= 2 and an[0] == pre_loop and an[1] == first:
        pre = True
    else:
        raise T.Unrecognised("SBT.add_node", "does not start with `pos = self.new_node_pos(node)` "
                             "nor with the rebuild of `sorted(self._missing_nodes)`")
    out["add_node_rebuilds_missing"] = pre
    # does an insertion drop the (now stale) manifest of a loaded tree?
    drops = _stmts("self.manifest = None")[0] in an_all
    out["insert_drops_manifest"] = drops

    # --- Node.unload and the dirty flag set by the three update methods
    un = _body_dump(_func(tree, "Node", "unload"))
    if un == _stmts(UNLOAD_OLD):
        keep = False
    elif un == _stmts(UNLOAD_KEEP):
        keep = True
    else:
        raise T.Unrecognised("Node.unload", "body is neither of the two modelled shapes")
    lun = _body_dump(_func(tree, "Leaf", "unload"))
    if lun != _stmts(UNLOAD_OLD):
        raise T.Unrecognised("Leaf.unload", "body changed (leaves are immutable in the model)")
    dirty = _stmts("parent._dirty = True")[0]
    mh0 = ast.parse(T.read("src/sourmash/sbtmh.py"))
    marks = [dirty in _body_dump(_func(tree, "Node", "update")),
             dirty in _body_dump(_func(tree, "Leaf", "update")),
             dirty in _body_dump(_func(mh0, "SigLeaf", "update"))]
    if keep and not all(marks):
        raise T.Unrecognised("update/_dirty", "unload honours `_dirty` but not every update method sets it: "
                             f"Node.update={marks[0]} Leaf.update={marks[1]} SigLeaf.update={marks[2]}")
    if not keep and any(marks):
        raise T.Unrecognised("update/_dirty", "`_dirty` is set but unload ignores it")
    if "_dirty" in src.replace("parent._dirty = True", "").replace('getattr(self, "_dirty", False)', ""):
        raise T.Unrecognised("_dirty", "the flag is used somewhere the model does not know about")
    out["unload_keeps_dirty"] = keep

    # --- legacy loaders: do `_load_v1` / `_load_v2` end with `_fill_min_n_below()` like `_load_v3`?
    fm = _stmts("tree._fill_min_n_below()")[0]
    l1 = fm in _body_dump(_func(tree, "SBT", "_load_v1"))
    l2 = fm in _body_dump(_func(tree, "SBT", "_load_v2"))
    if fm not in _body_dump(_func(tree, "SBT", "_load_v3")):
        raise T.Unrecognised("SBT._load_v3", "`tree._fill_min_n_below()` not found")
    if l1 != l2:
        raise T.Unrecognised("SBT._load_v1/_load_v2", "only one of the two legacy loaders fills min_n_below")
    out["legacy_loaders_fill_min_n_below"] = l1

    # --- select on an empty selection
    sel = _body_dump(_func(tree, "SBT", "select"))
    if _stmts("first_sig = next(iter(self.signatures()), None)")[0] in sel and \
            _stmts("if first_sig is None:\n    return self")[0] in sel:
        sel_ok = True
    elif _stmts("first_sig = next(iter(self.signatures()))")[0] in sel:
        sel_ok = False
    else:
        raise T.Unrecognised("SBT.select", "how the first signature is pulled is not one of the modelled shapes")
    out["select_empty_returns_self"] = sel_ok

    # --- node score for a query coarser than the tree
    fnd = ast.dump(_func(tree, "SBT", "find"))
    coarse = _stmts("if tree_scaled and scaled != tree_scaled:\n    subj_size = 1")[0] in fnd
    if _stmts('subj_size = node.metadata.get("min_n_below", -1)')[0] not in fnd or \
            _stmts("total_size = subj_size")[0] not in fnd:
        raise T.Unrecognised("SBT.find", "node_search: subj_size / total_size of an internal node not recognised")
    out["coarse_query_subj_size_one"] = coarse

    # --- combine: is the node cache (keyed by the OLD positions) forgotten?
    cb = ast.dump(_func(tree, "SBT", "combine"))
    cache_reset = "_nodescache" in cb
    if cache_reset and _stmts("self._nodescache = _NodesCache(maxsize=self._nodescache.maxsize)")[0] not in cb:
        raise T.Unrecognised("SBT.combine", "touches the node cache in a way that is not modelled")
    out["combine_resets_cache"] = cache_reset

    # --- the clamp
    clamp = _stmts(CLAMP)[0]
    nu = _body_dump(_func(tree, "Node", "update"))
    if not any(clamp in s for s in nu):
        raise T.Unrecognised("Node.update", "0 -> 1 clamp not found")
    mh = ast.parse(T.read("src/sourmash/sbtmh.py"))
    su = _body_dump(_func(mh, "SigLeaf", "update"))
    if clamp not in su:
        raise T.Unrecognised("SigLeaf.update", "0 -> 1 clamp not found")
    if _stmts("min_n_below = min(len(mh), min_n_below)")[0] not in su:
        raise T.Unrecognised("SigLeaf.update", "`min(len(mh), min_n_below)` not found")
    out["clamp"] = 1

    # --- nodegraph.rs
    rs = T.strip_rust_comments(T.read("src/core/src/sketch/nodegraph.rs"))
    sv = T.norm(T.rust_fn_body(rs, "save_to_writer"))
    ld = T.norm(T.rust_fn_body(rs, "from_reader"))
    m1 = re.search(r"let byte_size = tablesize / (\d+) \+ (\d+);", sv)
    m2 = re.search(r"let byte_size = tablesize / (\d+) \+ (\d+);", ld)
    if not m1 or not m2:
        raise T.Unrecognised("nodegraph byte_size", "`let byte_size = tablesize / 8 + 1;` not found in save/load")
    if m1.groups() != m2.groups():
        raise T.Unrecognised("nodegraph byte_size", "save and load disagree on byte_size")
    m3 = re.search(r"let \(div, rem\) = \(byte_size / (\d+), byte_size % (\d+)\);", sv)
    if not m3 or m3.group(1) != m3.group(2):
        raise T.Unrecognised("nodegraph blocks", "save: block split (byte_size / 4, byte_size % 4) not recognised")
    bb = m3.group(1)
    # from_reader: either the older per-block reader or the bounded whole-table reader
    old_rd = (re.search(r"let rem = byte_size % (\d+);", ld), re.search(r"vec!\[0; byte_size / (\d+)\]", ld))
    new_rd = (re.search(r"rdr\.by_ref\(\)\.take\(byte_size as u64\)\.read_to_end\(&mut buf\)\?;", ld),
              re.search(r"if buf\.len\(\) != byte_size \{", ld),
              re.search(r"buf\.resize\(\(byte_size \+ (\d+)\) / (\d+) \* (\d+), 0\);", ld),
              re.search(r"vec!\[0; buf\.len\(\) / (\d+)\]", ld))
    if all(old_rd):
        if {old_rd[0].group(1), old_rd[1].group(1)} != {bb}:
            raise T.Unrecognised("nodegraph blocks", "load: block width differs from save")
        out["load_reader"] = "per-block"
        zero_refused = False
    elif all(new_rd):
        r = new_rd[2]
        if not (r.group(2) == r.group(3) == new_rd[3].group(1) == bb and int(r.group(1)) == int(bb) - 1):
            raise T.Unrecognised("nodegraph blocks", "load: padding to whole blocks not recognised")
        out["load_reader"] = "bounded"
        zero_refused = bool(re.search(r"if tablesize == 0 \{ return Err\(", ld))
    else:
        raise T.Unrecognised("nodegraph blocks", "load: table reader not one of the modelled shapes")
    out["load_refuses_size_zero"] = zero_refused
    if "FixedBitSet::with_capacity_and_blocks(tablesize, blocks)" not in ld:
        raise T.Unrecognised("nodegraph blocks", "load: with_capacity_and_blocks(tablesize, blocks) not found")
    if "b\"OXLI\"" not in sv or "wtr.write_u8(4)?; wtr.write_u8(2)?;" not in sv:
        raise T.Unrecognised("nodegraph header", "OXLI / version 4 / ht_type 2 not recognised")
    wt = T.norm(T.rust_fn_body(rs, "with_tables"))
    # `(tablesize - 1) as u64` wraps for tablesize = 0 (release build); `tablesize.saturating_sub(1)` (f355fe6) is the
    # truncated subtraction the model's `Nat` subtraction already is
    m6 = re.search(r"let mut i = u64::max\(\(tablesize - (\d+)\) as u64, (\d+)\); if i % 2 == 0 \{ i -= 1 \}", wt)
    wt_sat = False
    if not m6:
        m6 = re.search(r"let mut i = u64::max\(tablesize\.saturating_sub\((\d+)\) as u64, (\d+)\); if i % 2 == 0 \{ i -= 1 \}", wt)
        wt_sat = bool(m6)
    m7 = re.search(r"if i == 1 \{ break; \} i -= (\d+);", wt)
    if not m6 or not m7 or "primal_check::miller_rabin(i)" not in wt:
        raise T.Unrecognised("with_tables", "descent over odd candidates not recognised")
    cnt = T.norm(T.rust_fn_body(rs, "count"))
    get = T.norm(T.rust_fn_body(rs, "get"))
    binning = "let bin = hash % bitset.len() as u64;"
    if binning not in cnt or binning not in get:
        raise T.Unrecognised("nodegraph binning", "`hash % bitset.len()` not found in count/get")
    out.update(byte_div=int(m1.group(1)), byte_add=int(m1.group(2)), block_bytes=int(m3.group(1)),
               wt_sub=int(m6.group(1)), wt_min=int(m6.group(2)), wt_step=int(m7.group(1)))
    report["inputs"]["sbt"] = {"_rebuild_node": out["_rebuild_node"], "parent": out["parent"], "child": out["child"],
                               "add_node_rebuilds_missing": pre, "unload_keeps_dirty": keep}
    report["outputs"]["sbt"] = out
    return f"""
/-- `SBT._rebuild_node`: false = shipped loop (merges leaves and children listed in
`_missing_nodes`), true = repaired loop (merges every non-None child) -/
def sbtRebuildFixed : Bool := {"true" if fixed else "false"}
/-- `SBT.add_node` first rebuilds every node recorded in `_missing_nodes` -/
def sbtAddRebuildsMissing : Bool := {"true" if pre else "false"}
/-- `SBT.add_node` drops the manifest of a loaded tree (which does not list the new signature) -/
def sbtInsertDropsManifest : Bool := {"true" if drops else "false"}
/-- `SBT.add_node` climbs from the proposed position to one whose parent exists (trees made by `combine`) -/
def sbtAddNodeClimbs : Bool := {"true" if out["add_node_climbs_to_existing_parent"] else "false"}
/-- the loaders record as missing only absent ANCESTORS of what was loaded (not every free position) -/
def sbtMissingOnlyAncestors : Bool := {"true" if anc_only else "false"}
/-- `SBT.combine` forgets the node cache (its keys are positions of the tree before the combination) -/
def sbtCombineResetsCache : Bool := {"true" if cache_reset else "false"}
/-- `Node.unload` keeps a filter updated since it was loaded (`_dirty`, set by the three `update` methods) -/
def sbtUnloadKeepsDirty : Bool := {"true" if keep else "false"}
/-- `_load_v1` / `_load_v2` end with `_fill_min_n_below()` (as `_load_v3` does) -/
def sbtLegacyFillsMin : Bool := {"true" if l1 else "false"}
/-- `SBT.select` on an empty selection returns the (empty) tree instead of raising StopIteration -/
def sbtSelectEmptyOk : Bool := {"true" if sel_ok else "false"}
/-- `find`: an internal node's size is taken as 1 when the query is coarser than the tree -/
def sbtCoarseSubjOne : Bool := {"true" if coarse else "false"}
/-- nodegraph.rs: `byte_size = tablesize / ngByteDiv + ngByteAdd`, blocks of `ngBlockBytes` bytes -/
def ngByteDiv : Nat := {out['byte_div']}
def ngByteAdd : Nat := {out['byte_add']}
def ngBlockBytes : Nat := {out['block_bytes']}
/-- `from_reader` refuses a table of size zero -/
def ngLoadRefusesZero : Bool := {"true" if out['load_refuses_size_zero'] else "false"}
/-- `with_tables`: start at `max (tablesize - ngWtSub) ngWtMin` made odd, step `ngWtStep` -/
def ngWtSub : Nat := {out['wt_sub']}
def ngWtMin : Nat := {out['wt_min']}
def ngWtStep : Nat := {out['wt_step']}
/-- `with_tables` subtracts with `saturating_sub` (true) or with a wrapping `-` that is only right for `tablesize ≥ 1` (false) -/
def ngWtSaturating : Bool := {"true" if wt_sat else "false"}
"""


EXTRACTORS = [("sbt", x_sbt)]
SERVES = ["C13"]
