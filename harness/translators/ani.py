"""Translator piece for C17: re-read from src/sourmash/distance_utils.py, src/sourmash/minhash.py and
src/core/src/ani_utils.rs the constants and expression shapes that lean/SmVerif/Model/AniResult.lean
transcribes.  Strict, fail closed.

  * default thresholds (p_threshold / prob_threshold = 1e-3, je_threshold / err_threshold = 1e-4)
  * check_distance, the `ani` / `ani_low` / `ani_high` properties, the __post_init__ bodies
  * the closed forms: point estimates, r1_to_q, var_n_mutated, the jaccard error bound,
    get_exp_probability_nothing_common
  * the MinHash wrappers: n_unique_kmers expressions and the size_is_accurate flag
  * ani_utils.rs: `ani_from_containment` (same closed form as the Python one) and whether
    `ani_ci_from_containment` replaces a failed root search by the default value
"""
import ast
import re

from translate import Unrecognised, read, strip_rust_comments, rust_fn_body, norm


def _u(node):
    return ast.unparse(node)


def _find(body, cls, name):
    for node in body:
        if isinstance(node, cls) and node.name == name:
            return node
    raise Unrecognised(name, "not found")


def _body_src(fn):
    """unparsed statements of a function, docstring dropped"""
    stmts = fn.body
    if stmts and isinstance(stmts[0], ast.Expr) and isinstance(getattr(stmts[0], "value", None), ast.Constant) \
            and isinstance(stmts[0].value.value, str):
        stmts = stmts[1:]
    return "\n".join(_u(s) for s in stmts)


def _canon(src):
    """the expected snippets are written for one Python version's ast.unparse; re-render them with the running one"""
    try:
        return ast.unparse(ast.parse(src))
    except SyntaxError:
        return src


def _has(src, frag):
    return norm(_canon(frag)) in norm(src)


def _expect(what, got, want):
    want = _canon(want)
    if norm(got) != norm(want):
        raise Unrecognised(what, f"shape changed: {norm(got)[:200]}  (modelled: {norm(want)[:120]})")


def _defaults(fn):
    a = fn.args
    d = {}
    pos = a.posonlyargs + a.args
    for arg, val in zip(pos[len(pos) - len(a.defaults):], a.defaults):
        d[arg.arg] = _u(val)
    for arg, val in zip(a.kwonlyargs, a.kw_defaults):
        if val is not None:
            d[arg.arg] = _u(val)
    return d


def _class_fields(cls):
    return {n.target.id: (_u(n.value) if n.value is not None else None) for n in cls.body if isinstance(n, ast.AnnAssign)}


def x_ani(report):
    tree = ast.parse(read("src/sourmash/distance_utils.py"))
    B = tree.body
    out = {}
    _expect("check_distance", _body_src(_find(B, ast.FunctionDef, "check_distance")),
            "if not 0 <= dist <= 1:\n    raise ValueError(f'Error: distance value {dist:.4f} is not between 0 and 1!')\nelse:\n    return dist")
    for fn in ("check_prob_threshold", "check_jaccard_error"):
        _expect(fn, _body_src(_find(B, ast.FunctionDef, fn)),
                "exceeds_threshold = False\nif threshold is not None and val > threshold:\n    exceeds_threshold = True\nreturn (val, exceeds_threshold)")
    ani = _find(B, ast.ClassDef, "ANIResult")
    f = _class_fields(ani)
    if f.get("size_is_inaccurate") != "False" or "p_threshold" not in f:
        raise Unrecognised("ANIResult", f"fields changed: {f}")
    out["p_threshold"] = f["p_threshold"]
    _expect("ANIResult.check_dist_and_p_threshold", _body_src(_find(ani.body, ast.FunctionDef, "check_dist_and_p_threshold")),
            "self.dist = check_distance(self.dist)\n(self.p_nothing_in_common, self.p_exceeds_threshold) = "
            "check_prob_threshold(self.p_nothing_in_common, self.p_threshold)")
    _expect("ANIResult.ani", _body_src(_find(ani.body, ast.FunctionDef, "ani")),
            "if self.size_is_inaccurate:\n    return None\nreturn 1 - self.dist")
    jac = _find(B, ast.ClassDef, "jaccardANIResult")
    f = _class_fields(jac)
    if f.get("jaccard_error") != "None" or "je_threshold" not in f:
        raise Unrecognised("jaccardANIResult", f"fields changed: {f}")
    out["je_threshold"] = f["je_threshold"]
    _expect("jaccardANIResult.__post_init__", _body_src(_find(jac.body, ast.FunctionDef, "__post_init__")),
            "self.check_dist_and_p_threshold()\nif self.jaccard_error is not None:\n    (self.jaccard_error, self.je_exceeds_threshold) = "
            "check_jaccard_error(self.jaccard_error, self.je_threshold)\nelse:\n    raise ValueError('Error: jaccard_error cannot be None.')")
    _expect("jaccardANIResult.ani", _body_src(_find(jac.body, ast.FunctionDef, "ani")),
            "if self.je_exceeds_threshold or self.size_is_inaccurate:\n    return None\nreturn 1 - self.dist")
    ci = _find(B, ast.ClassDef, "ciANIResult")
    f = _class_fields(ci)
    if f != {"dist_low": "None", "dist_high": "None"}:
        raise Unrecognised("ciANIResult", f"fields changed: {f}")
    _expect("ciANIResult.__post_init__", _body_src(_find(ci.body, ast.FunctionDef, "__post_init__")),
            "self.check_dist_and_p_threshold()\nif self.dist_low is not None and self.dist_high is not None:\n"
            "    self.dist_low = check_distance(self.dist_low)\n    self.dist_high = check_distance(self.dist_high)")
    _expect("ciANIResult.ani_low", _body_src(_find(ci.body, ast.FunctionDef, "ani_low")),
            "if self.dist_high is None or self.size_is_inaccurate:\n    return None\nreturn 1 - self.dist_high")
    _expect("ciANIResult.ani_high", _body_src(_find(ci.body, ast.FunctionDef, "ani_high")),
            "if self.dist_low is None or self.size_is_inaccurate:\n    return None\nreturn 1 - self.dist_low")
    _expect("r1_to_q", _body_src(_find(B, ast.FunctionDef, "r1_to_q")), "r1 = float(r1)\nq = 1 - (1 - r1) ** k\nreturn float(q)")
    _expect("exp_n_mutated", _body_src(_find(B, ast.FunctionDef, "exp_n_mutated")), "q = r1_to_q(k, r1)\nreturn L * q")
    _expect("var_n_mutated", _body_src(_find(B, ast.FunctionDef, "var_n_mutated")),
            "if r1 == 0:\n    return 0.0\nr1 = float(r1)\nif q is None:\n    q = r1_to_q(k, r1)\n"
            "varN = L * (1 - q) * (q * (2 * k + 2 / r1 - 1) - 2 * k) + k * (k - 1) * (1 - q) ** 2 + "
            "2 * (1 - q) / r1 ** 2 * ((1 + (k - 1) * (1 - q)) * r1 - q)\n"
            "if varN < 0.0:\n    raise ValueError('Error: varN <0.0!')\nreturn float(varN)")
    _expect("get_expected_log_probability", _body_src(_find(B, ast.FunctionDef, "get_expected_log_probability")),
            "exp_nmut = exp_n_mutated(n_unique_kmers, ksize, mutation_rate)\ntry:\n"
            "    return (n_unique_kmers - exp_nmut) * log(1.0 - scaled_fraction)\nexcept:\n    return float('-inf')")
    _expect("get_exp_probability_nothing_common", _body_src(_find(B, ast.FunctionDef, "get_exp_probability_nothing_common")),
            "n_unique_kmers = handle_seqlen_nkmers(ksize, sequence_len_bp=sequence_len_bp, n_unique_kmers=n_unique_kmers)\n"
            "f_scaled = 1.0 / float(scaled)\nif mutation_rate == 1.0:\n    return 1.0\nelif mutation_rate == 0.0:\n    return 0.0\n"
            "return exp(get_expected_log_probability(n_unique_kmers, ksize, mutation_rate, f_scaled))")
    c2d = _find(B, ast.FunctionDef, "containment_to_distance")
    d = _defaults(c2d)
    if d.get("estimate_ci") != "False" or d.get("confidence") != "0.95" or "prob_threshold" not in d:
        raise Unrecognised("containment_to_distance", f"defaults changed: {d}")
    out["c2d.prob_threshold"] = d["prob_threshold"]
    src = _body_src(c2d)
    for frag in ("if containment == 0:\n    point_estimate = sol1 = sol2 = 1.0\nelif containment == 1:\n    point_estimate = sol1 = sol2 = 0.0\nelse:\n"
                 "    point_estimate = 1.0 - containment ** (1.0 / ksize)",
                 "sol1 = brentq(f1, 1e-07, 0.9999999)", "sol2 = brentq(f2, 1e-07, 0.9999999)",
                 "except ValueError as exc:", "sol1 = sol2 = None",
                 "prob_nothing_in_common = get_exp_probability_nothing_common(point_estimate, ksize, scaled, n_unique_kmers=n_unique_kmers)",
                 "return ciANIResult(point_estimate, prob_nothing_in_common, dist_low=sol2, dist_high=sol1, p_threshold=prob_threshold)"):
        if not _has(src, frag):
            raise Unrecognised("containment_to_distance", "fragment missing: " + frag[:80])
    j2d = _find(B, ast.FunctionDef, "jaccard_to_distance")
    d = _defaults(j2d)
    if "prob_threshold" not in d or "err_threshold" not in d:
        raise Unrecognised("jaccard_to_distance", f"defaults changed: {d}")
    out["j2d.prob_threshold"], out["j2d.err_threshold"] = d["prob_threshold"], d["err_threshold"]
    src = _body_src(j2d)
    for frag in ("if jaccard == 0:\n    point_estimate = 1.0\n    error_lower_bound = 0.0\nelif jaccard == 1:\n    point_estimate = 0.0\n    error_lower_bound = 0.0\nelse:\n"
                 "    point_estimate = 1.0 - (2.0 * jaccard / float(1 + jaccard)) ** (1.0 / float(ksize))\n"
                 "    exp_n_mut = exp_n_mutated(n_unique_kmers, ksize, point_estimate)\n"
                 "    var_n_mut = var_n_mutated(n_unique_kmers, ksize, point_estimate)\n"
                 "    error_lower_bound = 1.0 * n_unique_kmers * var_n_mut / (n_unique_kmers + exp_n_mut) ** 3",
                 "return jaccardANIResult(point_estimate, prob_nothing_in_common, jaccard_error=error_lower_bound, "
                 "p_threshold=prob_threshold, je_threshold=err_threshold)"):
        if not _has(src, frag):
            raise Unrecognised("jaccard_to_distance", "fragment missing: " + frag[:80])
    # MinHash wrappers
    mtree = ast.parse(read("src/sourmash/minhash.py"))
    mh = _find(mtree.body, ast.ClassDef, "MinHash")
    flag = "if not self.size_is_accurate() or not other.size_is_accurate():"
    for name, frags, thr in (
            ("containment_ani", ["n_kmers = len(self_mh) * scaled",
                                 "containment_to_distance(containment, self_mh.ksize, self_mh.scaled, n_unique_kmers=n_kmers, "
                                 "confidence=confidence, estimate_ci=estimate_ci, prob_threshold=prob_threshold)",
                                 flag, "c_aniresult.size_is_inaccurate = True"], ["prob_threshold"]),
            ("max_containment_ani", ["min_n_kmers = min(len(self_mh), len(other_mh))", "n_kmers = min_n_kmers * scaled",
                                     flag, "c_aniresult.size_is_inaccurate = True"], ["prob_threshold"]),
            ("jaccard_ani", ["avg_sketch_kmers = (len(self_mh) + len(other_mh)) / 2", "avg_n_kmers = round(avg_sketch_kmers * scaled)",
                             flag, "j_aniresult.size_is_inaccurate = True"], ["prob_threshold", "err_threshold"]),
            ("avg_containment_ani", ["if any([a1 is None, a2 is None]):\n    return None\nreturn (a1 + a2) / 2"], ["prob_threshold"])):
        fn = _find(mh.body, ast.FunctionDef, name)
        src = _body_src(fn)
        for frag in frags:
            if not _has(src, frag):
                raise Unrecognised("MinHash." + name, "fragment missing: " + frag[:80])
        d = _defaults(fn)
        for t in thr:
            if t not in d:
                raise Unrecognised("MinHash." + name, f"default {t} missing")
            out[f"{name}.{t}"] = d[t]
    # size_is_accurate / set_size_exact_prob (decision structure modelled by sizeIsAccurate / setSizeExactProb / setSizeArgs)
    sia = _find(mh.body, ast.FunctionDef, "size_is_accurate")
    d = _defaults(sia)
    if d != {"relative_error": "0.2", "confidence": "0.95"}:
        raise Unrecognised("MinHash.size_is_accurate", f"defaults changed: {d}")
    _expect("MinHash.size_is_accurate", _body_src(sia),
            "if not self.scaled:\n    raise TypeError('Error: can only estimate dataset size for scaled MinHashes')\n"
            "if any([not 0 <= relative_error <= 1, not 0 <= confidence <= 1]):\n"
            "    raise ValueError('Error: relative error and confidence values must be between 0 and 1.')\n"
            "probability = set_size_exact_prob(self.unique_dataset_hashes, self.scaled, relative_error=relative_error)\n"
            "return probability >= confidence")
    _expect("MinHash.unique_dataset_hashes", _body_src(_find(mh.body, ast.FunctionDef, "unique_dataset_hashes")),
            "if not self.scaled:\n    raise TypeError('can only approximate unique_dataset_hashes for scaled MinHashes')\n"
            "return len(self) * self.scaled")
    _expect("set_size_exact_prob", _body_src(_find(B, ast.FunctionDef, "set_size_exact_prob")),
            "pmf_arg = -set_size / scaled * (relative_error - 1)\n"
            "if pmf_arg == int(pmf_arg):\n"
            "    prob = binom.cdf(set_size / scaled * (relative_error + 1), set_size, 1 / scaled) - "
            "binom.cdf(-set_size / scaled * (relative_error - 1), set_size, 1 / scaled) + "
            "binom.pmf(-set_size / scaled * (relative_error - 1), set_size, 1 / scaled)\n"
            "else:\n"
            "    prob = binom.cdf(set_size / scaled * (relative_error + 1), set_size, 1 / scaled) - "
            "binom.cdf(-set_size / scaled * (relative_error - 1), set_size, 1 / scaled)\n"
            "return prob")
    # the comparison / result classes (plumbing modelled by cmpDirectional / cmpAvgProperty / cmpEstimateAll / prefetchAni /
    # searchAni / csvPresent): the method bodies the model was written against are kept in ani_class_pins.json
    import json
    import os
    pins = json.load(open(os.path.join(os.path.dirname(os.path.abspath(__file__)), "ani_class_pins.json")))
    sc = ast.parse(read("src/sourmash/sketchcomparison.py")).body
    se = ast.parse(read("src/sourmash/search.py")).body
    where = {"Frac": _find(sc, ast.ClassDef, "FracMinHashComparison").body, "Base": _find(sc, ast.ClassDef, "BaseMinHashComparison").body,
             "BaseResult": _find(se, ast.ClassDef, "BaseResult").body, "SearchResult": _find(se, ast.ClassDef, "SearchResult").body,
             "PrefetchResult": _find(se, ast.ClassDef, "PrefetchResult").body}
    for key, want_body in pins.items():
        cls, meth = key.split(".", 1)
        _expect(key, _body_src(_find(where[cls], ast.FunctionDef, meth)), want_body)
    frac_methods = {n.name for n in where["Frac"] if isinstance(n, ast.FunctionDef)}
    known = {"__post_init__", "pass_threshold", "size_may_be_inaccurate", "total_unique_intersect_hashes", "mh1_containment_in_mh2",
             "estimate_ani_from_mh1_containment_in_mh2", "mh2_containment_in_mh1", "estimate_ani_from_mh2_containment_in_mh1",
             "max_containment", "estimate_max_containment_ani", "avg_containment", "avg_containment_ani",
             "estimate_all_containment_ani", "weighted_intersection"}
    if frac_methods != known:
        raise Unrecognised("FracMinHashComparison", f"method set changed: +{sorted(frac_methods - known)} -{sorted(known - frac_methods)}")
    pvals = {v for k, v in out.items() if k.endswith("prob_threshold") or k == "p_threshold"}
    evals = {v for k, v in out.items() if k.endswith("err_threshold") or k == "je_threshold"}
    if len(pvals) != 1 or len(evals) != 1:
        raise Unrecognised("thresholds", f"the default thresholds are no longer the same everywhere: {out}")
    pthr, ethr = float(pvals.pop()), float(evals.pop())
    # native twin
    rs = strip_rust_comments(read("src/core/src/ani_utils.rs"))
    body = norm(rust_fn_body(rs, "ani_from_containment"))
    want = norm("if containment == 0.0 { 0.0 } else if containment == 1.0 { 1.0 } else { 1.0 - (1.0 - containment.powf(1.0 / ksize)) }")
    if body != want:
        raise Unrecognised("ani_from_containment (rust)", "shape changed: " + body[:200])
    # the private helpers, executed through rust-harness and modelled operation by operation (rust* in AniResult.lean)
    for fn, want_rs in (
            ("r1_to_q", "1.0 - (1.0 - r1).powi(k as i32)"),
            ("exp_n_mutated", "let q = r1_to_q(k, r1); l * q"),
            ("exp_n_mutated_squared", "let var_n = var_n_mutated(l, k, p, None)?; let exp_n_squared = exp_n_mutated(l, k, p).powi(2); Ok(var_n + exp_n_squared)"),
            ("var_n_mutated",
             "if r1 == 0.0 { return Ok(0.0); } let q = q.unwrap_or_else(|| r1_to_q(k, r1)); "
             "let var_n = l * (1.0 - q) * (q * (2.0 * k + (2.0 / r1) - 1.0) - 2.0 * k) + k * (k - 1.0) * (1.0 - q).powi(2) "
             "+ (2.0 * (1.0 - q) / (r1.powi(2))) * ((1.0 + (k - 1.0) * (1.0 - q)) * r1 - q); "
             "if var_n < 0.0 { Err(Error::ANIEstimationError { message: \"varN is less than 0.0\".into(), }) } else { Ok(var_n) }"),
            ("get_exp_probability_nothing_common",
             "if ani_estimate == 0.0 || ani_estimate == 1.0 { Ok(1.0 - ani_estimate) } else { "
             "let exp_nmut = exp_n_mutated(n_unique_kmers, ksize, 1.0 - ani_estimate); "
             "let mut expected_log_probability = (n_unique_kmers - exp_nmut) * (1.0 - f_scaled).ln(); "
             "if expected_log_probability.is_infinite() { expected_log_probability = f64::NEG_INFINITY; } "
             "Ok(expected_log_probability.exp()) }")):
        got = norm(rust_fn_body(rs, fn))
        if got != norm(want_rs):
            raise Unrecognised(fn + " (rust)", "shape changed: " + got[:240])
    cib = rust_fn_body(rs, "ani_ci_from_containment")
    for frag in ("if containment == 0.0 { return Ok((0.0, 0.0)); } else if containment == 1.0 { return Ok((1.0, 1.0)); }",
                 "find_root_brent(0.0000001, 0.9999999, &f1, &mut convergency)"):
        if norm(frag) not in norm(cib):
            raise Unrecognised("ani_ci_from_containment (rust)", "fragment missing: " + frag[:80])
    n_default = len(re.findall(r"find_root_brent\([^;]*?\)\s*\.unwrap_or_default\(\)", cib, flags=re.S))
    n_roots = len(re.findall(r"find_root_brent\(", cib))
    if n_roots != 2 or n_default not in (0, 2):
        raise Unrecognised("ani_ci_from_containment (rust)", f"{n_roots} root searches, {n_default} with unwrap_or_default")
    if norm("Ok((1.0 - dist_sol1, 1.0 - dist_sol2))") not in norm(cib):
        raise Unrecognised("ani_ci_from_containment (rust)", "return expression changed")
    # the native GatherResult's ANI fields (rustGatherAni), src/core/src/index/mod.rs
    gs = norm(rust_fn_body(strip_rust_comments(read("src/core/src/index/mod.rs")), "calculate_gather_stats"))
    for frag in ("let f_orig_query = intersect_orig as f64 / orig_query.size() as f64;",
                 "let f_match_orig = intersect_orig as f64 / match_mh.size() as f64;",
                 "let query_containment_ani = ani_from_containment(f_orig_query, ksize);",
                 "let match_containment_ani = ani_from_containment(f_match_orig, ksize);",
                 "let average_containment_ani = (query_containment_ani + match_containment_ani) / 2.0;",
                 "let max_containment_ani = f64::max(query_containment_ani, match_containment_ani);"):
        if norm(frag) not in gs:
            raise Unrecognised("calculate_gather_stats (rust)", "fragment missing: " + frag)
    out["rust.ci_defaults_on_failure"] = n_default == 2
    report["outputs"]["ani"] = out
    report["inputs"]["distance_utils.py / minhash.py / ani_utils.rs"] = "AST / token shapes of the ANI estimators (see harness/translators/ani.py)"
    return f"""
/-- distance_utils.py / minhash.py (C17): default `p_threshold` / `prob_threshold`, `je_threshold` / `err_threshold` -/
def aniPThreshold : Float := {pthr!r}
def aniJeThreshold : Float := {ethr!r}
/-- ani_utils.rs: `find_root_brent(..).unwrap_or_default()` in `ani_ci_from_containment` -/
def aniRustCiDefaultsOnFailure : Bool := {'true' if n_default == 2 else 'false'}
"""


EXTRACTORS = [("ani", x_ani)]
SERVES = ["C17"]
