"""Translator pieces for C12 (selection and picklists).

Re-extracts from /repo's working tree, with Python's `ast` (strict, fail closed):

* `select_signature` (index/__init__.py)          -> `selectSignatureProg : SelStmt`
  the *reference predicate*, as a term of a tiny statement language (if / return / raise ValueError
  over truthiness of parameters and sketch attributes, `p != attr`, `ss in picklist`)
* `CollectionManifest._select` (manifest.py)       -> `manifestSelectProg : List (SelExpr x SelExpr)`
  (guard on the parameters, row condition) for each chained generator expression
* `SqliteCollectionManifest._make_select`          -> `sqlSelectProg : List (SelExpr x SelExpr)`
  (guard on the selection dict, SQL condition mapped to a row condition)
* `picklist.preprocess[...]` lambdas / `combine_ident_md5` -> `preprocessTable`
* `SignaturePicklist.meta_coltypes / supported_coltypes`, the if/elif chains of `_get_sig_attribute`
  and `_get_value_for_manifest_row` (+ whether it still has `assert q`), `_get_value_for_csv_row`
* `BaseCollectionManifest.required_keys`, and which fields `make_manifest_row` fills from what

Anything not matching the grammar below raises Unrecognised (the check reports the tie as broken).
"""
import ast

from translate import Unrecognised, read

PARAMS = ("ksize", "moltype", "scaled", "num", "containment", "abund")
ATTRS = {"ksize": "ksize", "moltype": "moltype", "scaled": "scaled", "num": "num",
         "track_abundance": "abund", "with_abundance": "abund"}

TYPES = """
/-! ### C12: selection predicates and picklist tables (harness/translators/select.py) -/

inductive SelParam where
  | ksize | moltype | scaled | num | containment | abund
deriving Repr, DecidableEq

inductive SelAttr where
  | ksize | moltype | scaled | num | abund
deriving Repr, DecidableEq

/-- boolean expressions of the three selection routines (Python truthiness) -/
inductive SelExpr where
  | param (p : SelParam)            -- truthiness of the parameter / of `select_d["p"]`
  | has (p : SelParam)              -- `"p" in select_d`
  | notNone (p : SelParam)          -- `p is not None`
  | gt0 (p : SelParam)              -- `p > 0`
  | attr (a : SelAttr)              -- truthiness of `ss.minhash.a` / `row["a"]` / SQL `a > 0`
  | ne (p : SelParam) (a : SelAttr) -- `p != ss.minhash.a`
  | eq (p : SelParam) (a : SelAttr) -- `row["a"] == p` / SQL `a = ?`
  | hasPicklist                     -- `picklist is not None` / `if picklist:`
  | inPicklist                      -- `ss in picklist` / `picklist.matches_manifest_row(row)`
  | not (e : SelExpr)
  | and (a b : SelExpr)
  | or (a b : SelExpr)
deriving Repr

inductive SelStmt where
  | ret (b : Bool)
  | raiseValueError
  | ite (c : SelExpr) (t : SelStmt)
  | seq (a b : SelStmt)
  | pass
deriving Repr

inductive StrOp where
  | split (c : Char) (i : Nat)      -- `.split("c")[i]`
  | take (n : Nat)                  -- `[:n]`
deriving Repr, DecidableEq

inductive PreFn where
  | simple (ops : List StrOp)
  | pair (a b : List StrOp)         -- (name, md5) -> (ops_a name, ops_b md5)
deriving Repr, DecidableEq
"""


def _fn(tree, name, cls=None):
    scope = tree.body
    if cls is not None:
        for n in scope:
            if isinstance(n, ast.ClassDef) and n.name == cls:
                scope = n.body
                break
        else:
            raise Unrecognised(cls, "class not found")
    for n in scope:
        if isinstance(n, ast.FunctionDef) and n.name == name:
            return n
    raise Unrecognised(name, "function not found")


def _src(node):
    return ast.unparse(node)


def _is_docstring(st):
    return isinstance(st, ast.Expr) and isinstance(st.value, ast.Constant) and isinstance(st.value.value, str)


# ---------------------------------------------------------------- expressions

class Ctx:
    """how names are resolved in one routine"""

    def __init__(self, what, attr_of, param_of):
        self.what = what
        self.attr_of = attr_of        # node -> attr name | None
        self.param_of = param_of      # node -> param name | None


def _attr_sig(node):
    # ss.minhash.<a>
    if (isinstance(node, ast.Attribute) and isinstance(node.value, ast.Attribute)
            and node.value.attr == "minhash" and isinstance(node.value.value, ast.Name)
            and node.value.value.id == "ss" and node.attr in ATTRS):
        return ATTRS[node.attr]
    return None


def _attr_row(node):
    # row["<a>"]
    if (isinstance(node, ast.Subscript) and isinstance(node.value, ast.Name) and node.value.id == "row"
            and isinstance(node.slice, ast.Constant) and node.slice.value in ATTRS):
        return ATTRS[node.slice.value]
    return None


def _param_name(node):
    if isinstance(node, ast.Name) and node.id in PARAMS:
        return node.id
    return None


def _param_seld(node):
    # select_d["<p>"]
    if (isinstance(node, ast.Subscript) and isinstance(node.value, ast.Name) and node.value.id == "select_d"
            and isinstance(node.slice, ast.Constant) and node.slice.value in PARAMS):
        return node.slice.value
    return None


def expr(node, cx):
    bad = Unrecognised(cx.what, "expression outside the modelled grammar: " + _src(node)[:120])
    if isinstance(node, ast.BoolOp):
        op = "and" if isinstance(node.op, ast.And) else "or"
        parts = [expr(v, cx) for v in node.values]
        out = parts[-1]
        for p in reversed(parts[:-1]):
            out = f"(.{op} {p} {out})"
        return out
    if isinstance(node, ast.UnaryOp) and isinstance(node.op, ast.Not):
        return f"(.not {expr(node.operand, cx)})"
    p = cx.param_of(node)
    if p:
        return f"(.param .{p})"
    a = cx.attr_of(node)
    if a:
        return f"(.attr .{a})"
    if isinstance(node, ast.Name) and node.id == "picklist":
        return ".hasPicklist"
    if isinstance(node, ast.Call) and _src(node.func) == "picklist.matches_manifest_row" \
            and len(node.args) == 1 and _src(node.args[0]) == "row" and not node.keywords:
        return ".inPicklist"
    if isinstance(node, ast.Compare) and len(node.ops) == 1:
        l, op, r = node.left, node.ops[0], node.comparators[0]
        if isinstance(l, ast.Name) and l.id == "picklist" and isinstance(r, ast.Constant) and r.value is None:
            if isinstance(op, ast.IsNot):
                return ".hasPicklist"
            if isinstance(op, ast.Is):
                return "(.not .hasPicklist)"
            raise bad
        if isinstance(l, ast.Name) and l.id == "ss" and isinstance(r, ast.Name) and r.id == "picklist":
            if isinstance(op, ast.NotIn):
                return "(.not .inPicklist)"
            if isinstance(op, ast.In):
                return ".inPicklist"
            raise bad
        if isinstance(l, ast.Constant) and l.value in PARAMS and isinstance(op, ast.In) \
                and isinstance(r, ast.Name) and r.id == "select_d":
            return f"(.has .{l.value})"
        pl, pr = cx.param_of(l), cx.param_of(r)
        al, ar = cx.attr_of(l), cx.attr_of(r)
        if pl and isinstance(r, ast.Constant) and r.value is None and isinstance(op, ast.IsNot):
            return f"(.notNone .{pl})"
        if pl and isinstance(r, ast.Constant) and r.value == 0 and type(r.value) is int and isinstance(op, ast.Gt):
            return f"(.gt0 .{pl})"
        pa = (pl, ar) if (pl and ar) else (pr, al) if (pr and al) else None
        if pa and isinstance(op, ast.NotEq):
            return f"(.ne .{pa[0]} .{pa[1]})"
        if pa and isinstance(op, ast.Eq):
            return f"(.eq .{pa[0]} .{pa[1]})"
    raise bad


# ---------------------------------------------------------------- select_signature

def stmts(body, cx):
    out = None
    for st in body:
        if _is_docstring(st):
            continue
        if isinstance(st, ast.If):
            if st.orelse:
                raise Unrecognised(cx.what, "if with else: " + _src(st)[:100])
            s = f"(.ite {expr(st.test, cx)} {stmts(st.body, cx)})"
        elif isinstance(st, ast.Return) and isinstance(st.value, ast.Constant) and st.value.value in (True, False) \
                and isinstance(st.value.value, bool):
            s = "(.ret true)" if st.value.value else "(.ret false)"
        elif isinstance(st, ast.Raise) and isinstance(st.exc, ast.Call) and _src(st.exc.func) == "ValueError":
            s = ".raiseValueError"
        elif isinstance(st, ast.Pass):
            s = ".pass"
        else:
            raise Unrecognised(cx.what, "statement outside the modelled grammar: " + _src(st)[:120])
        out = s if out is None else f"(.seq {out} {s})"
    return out or ".pass"


def x_select_signature(tree, report):
    fn = _fn(tree, "select_signature")
    args = fn.args
    names = [a.arg for a in args.kwonlyargs]
    if [a.arg for a in args.args] != ["ss"] or names != ["ksize", "moltype", "scaled", "num", "containment", "abund",
                                                           "picklist"]:
        raise Unrecognised("select_signature", "signature changed: " + _src(args))
    defaults = [ast.literal_eval(d) for d in args.kw_defaults]
    if any(bool(d) for d in defaults):
        raise Unrecognised("select_signature", "a default became truthy: " + repr(defaults))
    cx = Ctx("select_signature", _attr_sig, _param_name)
    prog = stmts(fn.body, cx)
    report["inputs"]["select_signature"] = _src(fn)
    report["outputs"]["selectSignatureProg"] = prog
    return prog


# ---------------------------------------------------------------- CollectionManifest._select

def x_manifest_select(tree, report):
    fn = _fn(tree, "_select", "CollectionManifest")
    names = [a.arg for a in fn.args.kwonlyargs]
    if names != ["ksize", "moltype", "scaled", "num", "containment", "abund", "picklist"]:
        raise Unrecognised("CollectionManifest._select", "signature changed: " + _src(fn.args))
    if any(bool(ast.literal_eval(d)) for d in fn.args.kw_defaults):
        raise Unrecognised("CollectionManifest._select", "a default became truthy")
    body = [s for s in fn.body if not _is_docstring(s)]
    what = "CollectionManifest._select"
    if not (body and isinstance(body[0], ast.Expr) and _src(body[0].value).startswith("index._check_select_parameters(")):
        raise Unrecognised(what, "no longer starts with index._check_select_parameters(...)")
    if not (len(body) >= 3 and _src(body[1]) == "matching_rows = self.rows"):
        raise Unrecognised(what, "matching_rows = self.rows expected")
    if _src(body[-1]) != "yield from matching_rows":
        raise Unrecognised(what, "yield from matching_rows expected last")
    cxg = Ctx(what, lambda n: None, _param_name)
    cxr = Ctx(what, _attr_row, _param_name)
    clauses = []
    for st in body[2:-1]:
        ok = (isinstance(st, ast.If) and not st.orelse and len(st.body) == 1 and isinstance(st.body[0], ast.Assign)
              and _src(st.body[0].targets[0]) == "matching_rows"
              and isinstance(st.body[0].value, ast.GeneratorExp))
        if not ok:
            raise Unrecognised(what, "clause outside the modelled grammar: " + _src(st)[:120])
        g = st.body[0].value
        if not (_src(g.elt) == "row" and len(g.generators) == 1 and _src(g.generators[0].target) == "row"
                and _src(g.generators[0].iter) == "matching_rows" and len(g.generators[0].ifs) == 1):
            raise Unrecognised(what, "generator outside the modelled grammar: " + _src(g)[:120])
        clauses.append((expr(st.test, cxg), expr(g.generators[0].ifs[0], cxr)))
    report["inputs"]["CollectionManifest._select"] = _src(fn)
    report["outputs"]["manifestSelectProg"] = clauses
    return clauses


# ---------------------------------------------------------------- SqliteCollectionManifest._make_select

import re

SQL_SHAPES = [
    (re.compile(r"^sourmash_sketches\.(\w+) = \?$"), "eqparam"),
    (re.compile(r"^sourmash_sketches\.(\w+) > 0$"), "attr"),
    (re.compile(r"^sourmash_sketches\.(\w+) = 0$"), "notattr"),
    (re.compile(r"^sourmash_sketches\.(\w+) = '\{(\w+)\}'$"), "eqfmt"),
]
SQL_COLS = {"ksize": "ksize", "num": "num", "scaled": "scaled", "moltype": "moltype", "with_abundance": "abund"}


def x_sql_select(tree, report):
    what = "SqliteCollectionManifest._make_select"
    fn = _fn(tree, "_make_select", "SqliteCollectionManifest")
    body = [s for s in fn.body if not _is_docstring(s)]
    want = ["conditions = []", "values = []", "picklist = None"]
    if [_src(s) for s in body[:3]] != want or len(body) != 5:
        raise Unrecognised(what, "prologue changed")
    if _src(body[4]) != "return (conditions, values, picklist)":
        raise Unrecognised(what, "return changed: " + _src(body[4]))
    top = body[3]
    if not (isinstance(top, ast.If) and _src(top.test) == "self.selection_dict" and not top.orelse):
        raise Unrecognised(what, "`if self.selection_dict:` expected")
    inner = top.body
    if _src(inner[0]) != "select_d = self.selection_dict" or _src(inner[-1]) != "picklist = select_d.get('picklist')":
        raise Unrecognised(what, "select_d prologue / picklist epilogue changed")
    cx = Ctx(what, lambda n: None, _param_seld)
    clauses = []
    for st in inner[1:-1]:
        if not (isinstance(st, ast.If) and not st.orelse):
            raise Unrecognised(what, "clause outside the modelled grammar: " + _src(st)[:120])
        guard = expr(st.test, cx)
        sql = None
        pushed = None
        local = {}
        for b in st.body:
            s = _src(b)
            if isinstance(b, ast.Assert):
                continue
            m = re.match(r"^(\w+) = select_d\['(\w+)'\]$", s)
            if m and m.group(2) in PARAMS:
                local[m.group(1)] = m.group(2)
                continue
            m = re.match(r"^values\.append\(select_d\['(\w+)'\]\)$", s)
            if m and m.group(1) in PARAMS:
                pushed = m.group(1)
                continue
            if isinstance(b, ast.Expr) and isinstance(b.value, ast.Call) and _src(b.value.func) == "conditions.append" \
                    and len(b.value.args) == 1 and sql is None:
                a = b.value.args[0]
                if isinstance(a, ast.Constant) and isinstance(a.value, str):
                    sql = a.value
                elif isinstance(a, ast.JoinedStr):
                    sql = ""
                    for v in a.values:
                        if isinstance(v, ast.Constant):
                            sql += v.value
                        elif isinstance(v, ast.FormattedValue) and isinstance(v.value, ast.Name):
                            sql += "{" + v.value.id + "}"
                        else:
                            raise Unrecognised(what, "f-string outside the modelled grammar: " + s[:100])
                else:
                    raise Unrecognised(what, "condition is not a string: " + s[:100])
                continue
            raise Unrecognised(what, "statement outside the modelled grammar: " + s[:120])
        if sql is None:
            raise Unrecognised(what, "clause without a condition: " + _src(st)[:100])
        cond = None
        for rx, kind in SQL_SHAPES:
            m = rx.match(sql)
            if not m:
                continue
            col = SQL_COLS.get(m.group(1))
            if col is None:
                break
            if kind == "eqparam" and pushed:
                cond = f"(.eq .{pushed} .{col})"
            elif kind == "attr" and not pushed:
                cond = f"(.attr .{col})"
            elif kind == "notattr" and not pushed:
                cond = f"(.not (.attr .{col}))"
            elif kind == "eqfmt" and not pushed and m.group(2) in local:
                cond = f"(.eq .{local[m.group(2)]} .{col})"
            break
        if cond is None:
            raise Unrecognised(what, "SQL condition outside the modelled grammar: " + sql)
        clauses.append((guard, cond, sql))
    report["inputs"]["SqliteCollectionManifest._make_select"] = _src(fn)
    report["outputs"]["sqlSelectProg"] = [(g, c) for g, c, _ in clauses]
    # the row dict built by `rows` hard-codes with_abundance=False?
    rows = _fn(tree, "rows", "SqliteCollectionManifest")
    hard = None
    for n in ast.walk(rows):
        if isinstance(n, ast.Call) and _src(n.func) == "dict":
            for kw in n.keywords:
                if kw.arg == "with_abundance":
                    hard = _src(kw.value)
    if hard not in ("False", "with_abundance", "bool(with_abundance)"):
        raise Unrecognised("SqliteCollectionManifest.rows", "with_abundance of a row is built from: " + repr(hard))
    report["outputs"]["sqlRowAbundHardFalse"] = hard == "False"
    return [(g, c) for g, c, _ in clauses], hard == "False"


# ---------------------------------------------------------------- picklist tables

def str_ops(node, var, what):
    """x | <e>.split("c")[i] | <e>[:n]  ->  list of StrOp, innermost first"""
    if isinstance(node, ast.Name) and node.id == var:
        return []
    if isinstance(node, ast.Subscript):
        sl = node.slice
        if isinstance(sl, ast.Slice) and sl.lower is None and sl.step is None and isinstance(sl.upper, ast.Constant) \
                and type(sl.upper.value) is int and sl.upper.value >= 0:
            return str_ops(node.value, var, what) + [f".take {sl.upper.value}"]
        if isinstance(sl, ast.Constant) and type(sl.value) is int and sl.value >= 0 and isinstance(node.value, ast.Call):
            c = node.value
            if isinstance(c.func, ast.Attribute) and c.func.attr == "split" and len(c.args) == 1 and not c.keywords \
                    and isinstance(c.args[0], ast.Constant) and isinstance(c.args[0].value, str) \
                    and len(c.args[0].value) == 1 and c.args[0].value.isascii() and c.args[0].value not in "'\\":
                return str_ops(c.func.value, var, what) + [f".split '{c.args[0].value}' {sl.value}"]
    raise Unrecognised(what, "string expression outside the modelled grammar: " + _src(node)[:100])


def lean_ops(ops):
    return "[" + ", ".join(ops) + "]"


def x_picklist(tree, report):
    table = {}
    combine = None
    for n in tree.body:
        if isinstance(n, ast.FunctionDef) and n.name == "combine_ident_md5":
            body = [s for s in n.body if not _is_docstring(s)]
            if len(n.args.args) != 1:
                raise Unrecognised("combine_ident_md5", "arity")
            x = n.args.args[0].arg
            if not (body and _src(body[0]) == f"name, md5 = {x}" and isinstance(body[-1], ast.Return)
                    and isinstance(body[-1].value, ast.Tuple) and len(body[-1].value.elts) == 2):
                raise Unrecognised("combine_ident_md5", "shape changed: " + _src(n)[:200])
            env = {"name": ("name", []), "md5": ("md5", [])}
            for st in body[1:-1]:
                if not (isinstance(st, ast.Assign) and len(st.targets) == 1 and isinstance(st.targets[0], ast.Name)):
                    raise Unrecognised("combine_ident_md5", "statement: " + _src(st)[:100])
                # find the base variable
                base = None
                for v in ast.walk(st.value):
                    if isinstance(v, ast.Name) and v.id in env:
                        base = v.id
                if base is None:
                    raise Unrecognised("combine_ident_md5", "statement: " + _src(st)[:100])
                env[st.targets[0].id] = (env[base][0], env[base][1] + str_ops(st.value, base, "combine_ident_md5"))
            a, b = body[-1].value.elts
            if not (isinstance(a, ast.Name) and isinstance(b, ast.Name) and a.id in env and b.id in env
                    and env[a.id][0] == "name" and env[b.id][0] == "md5"):
                raise Unrecognised("combine_ident_md5", "returned tuple changed: " + _src(body[-1]))
            combine = f".pair {lean_ops(env[a.id][1])} {lean_ops(env[b.id][1])}"
        if isinstance(n, ast.Assign) and len(n.targets) == 1 and isinstance(n.targets[0], ast.Subscript) \
                and _src(n.targets[0].value) == "preprocess" and isinstance(n.targets[0].slice, ast.Constant):
            key = n.targets[0].slice.value
            v = n.value
            if isinstance(v, ast.Lambda) and len(v.args.args) == 1:
                table[key] = ".simple " + lean_ops(str_ops(v.body, v.args.args[0].arg, f"preprocess[{key}]"))
            elif isinstance(v, ast.Name) and v.id == "combine_ident_md5":
                if combine is None:
                    raise Unrecognised("preprocess", "combine_ident_md5 used before its definition")
                table[key] = combine
            else:
                raise Unrecognised(f"preprocess[{key}]", "neither a one-argument lambda nor combine_ident_md5")
    cls = None
    for n in tree.body:
        if isinstance(n, ast.ClassDef) and n.name == "SignaturePicklist":
            cls = n
    if cls is None:
        raise Unrecognised("SignaturePicklist", "class not found")
    tup = {}
    for n in cls.body:
        if isinstance(n, ast.Assign) and _src(n.targets[0]) in ("meta_coltypes", "supported_coltypes"):
            tup[_src(n.targets[0])] = list(ast.literal_eval(n.value))
    if set(tup) != {"meta_coltypes", "supported_coltypes"}:
        raise Unrecognised("SignaturePicklist", "meta_coltypes / supported_coltypes not found")
    allct = tup["meta_coltypes"] + tup["supported_coltypes"]
    if sorted(allct) != sorted(table):
        raise Unrecognised("preprocess", f"coltypes {sorted(allct)} vs preprocess keys {sorted(table)}")

    def chain(fn_name, valmap):
        """if/elif chain on coltype -> {coltype: tag}"""
        fn = _fn(cls, fn_name) if False else None
        for n in cls.body:
            if isinstance(n, ast.FunctionDef) and n.name == fn_name:
                fn = n
        if fn is None:
            raise Unrecognised(fn_name, "method not found")
        res = {}

        def cts(test):
            # `coltype in self.meta_coltypes` | `coltype in (..)` | `coltype == "x"` (coltype or self.coltype)
            if not (isinstance(test, ast.Compare) and len(test.ops) == 1 and _src(test.left) in ("coltype", "self.coltype")):
                raise Unrecognised(fn_name, "test: " + _src(test)[:100])
            r = test.comparators[0]
            if isinstance(test.ops[0], ast.In):
                if _src(r) == "self.meta_coltypes":
                    return list(tup["meta_coltypes"])
                if _src(r) == "self.supported_coltypes":
                    return list(tup["supported_coltypes"])
                return list(ast.literal_eval(r))
            if isinstance(test.ops[0], ast.Eq):
                return [ast.literal_eval(r)]
            raise Unrecognised(fn_name, "test: " + _src(test)[:100])

        def walk(node):
            if not isinstance(node, ast.If):
                raise Unrecognised(fn_name, "chain: " + _src(node)[:100])
            keys = cts(node.test)
            if len(node.body) == 1 and isinstance(node.body[0], ast.Assign) and _src(node.body[0].value) in valmap:
                tag = valmap[_src(node.body[0].value)]
                for k in keys:
                    res.setdefault(k, tag)
            elif len(node.body) == 1 and isinstance(node.body[0], ast.Raise):
                pass
            else:
                raise Unrecognised(fn_name, "branch body: " + _src(node.body[0])[:100])
            if len(node.orelse) == 1 and isinstance(node.orelse[0], ast.If):
                walk(node.orelse[0])
            elif node.orelse:
                for st in node.orelse:
                    if isinstance(st, ast.If):
                        walk(st)
                    elif isinstance(st, ast.Raise):
                        pass
                    elif isinstance(st, ast.Assign) and _src(st) == "q = row.get(colkey)":
                        pass
                    else:
                        raise Unrecognised(fn_name, "else body: " + _src(st)[:100])

        top = [s for s in fn.body if isinstance(s, ast.If)]
        if not top:
            raise Unrecognised(fn_name, "no if chain")
        walk(top[0])
        return fn, res, top

    _, sig_attr, _ = chain("_get_sig_attribute",
                           {"(ss.name, ss.md5sum())": "pair", "ss.md5sum()": "md5", "ss.name": "name"})
    fn_row, row_key, _ = chain("_get_value_for_manifest_row",
                               {"(row['name'], row['md5'])": "pair", "'md5'": "md5", "'md5short'": "md5short",
                                "'name'": "name"})
    for d, nm in ((sig_attr, "_get_sig_attribute"), (row_key, "_get_value_for_manifest_row")):
        if sorted(d) != sorted(allct):
            raise Unrecognised(nm, f"covers {sorted(d)}, expected {sorted(allct)}")
    # tail of _get_value_for_manifest_row: [assert q]; q = self.preprocess_fn(q); return q
    tail = [_src(s) for s in fn_row.body if not _is_docstring(s) and not isinstance(s, ast.If)]
    asserts = None
    if tail == ["assert q", "q = self.preprocess_fn(q)", "return q"]:
        asserts = True
    elif tail == ["q = self.preprocess_fn(q)", "return q"]:
        asserts = False
    else:
        raise Unrecognised("_get_value_for_manifest_row", "tail changed: " + repr(tail))
    # __contains__ / matches_manifest_row: same include/exclude tail
    shapes = {}
    for n in cls.body:
        if isinstance(n, ast.FunctionDef) and n.name in ("__contains__", "matches_manifest_row"):
            body = [_src(s) for s in n.body if not _is_docstring(s)]
            shapes[n.name] = body
    tail_ie = ("if self.pickstyle == PickStyle.INCLUDE:\n    if q in self.pickset:\n        self.found.add(q)\n        return True\n"
               "elif self.pickstyle == PickStyle.EXCLUDE:\n    if q not in self.pickset:\n        self.found.add(q)\n        return True")
    want_c = ["q = self._get_sig_attribute(ss)", "q = self.preprocess_fn(q)", "self.n_queries += 1", tail_ie, "return False"]
    want_m = ["q = self._get_value_for_manifest_row(row)", "self.n_queries += 1", tail_ie, "return False"]
    if shapes.get("__contains__") != want_c:
        raise Unrecognised("SignaturePicklist.__contains__", "body changed: " + repr(shapes.get("__contains__"))[:300])
    if shapes.get("matches_manifest_row") != want_m:
        raise Unrecognised("SignaturePicklist.matches_manifest_row", "body changed: " + repr(shapes.get("matches_manifest_row"))[:300])
    report["outputs"]["picklist"] = {"preprocess": table, "sig_attr": sig_attr, "row_key": row_key,
                                     "row_value_asserts": asserts, **tup}
    return table, tup, sig_attr, row_key, asserts


def x_manifest_row(tree, report):
    cls = None
    for n in tree.body:
        if isinstance(n, ast.ClassDef) and n.name == "BaseCollectionManifest":
            cls = n
    if cls is None:
        raise Unrecognised("BaseCollectionManifest", "class not found")
    keys = None
    for n in cls.body:
        if isinstance(n, ast.Assign) and _src(n.targets[0]) == "required_keys":
            keys = list(ast.literal_eval(n.value))
    if keys is None:
        raise Unrecognised("required_keys", "not found")
    fn = None
    for n in cls.body:
        if isinstance(n, ast.FunctionDef) and n.name == "make_manifest_row":
            fn = n
    if fn is None:
        raise Unrecognised("make_manifest_row", "not found")
    got = {}
    for st in fn.body:
        if isinstance(st, ast.Assign) and isinstance(st.targets[0], ast.Subscript) and _src(st.targets[0].value) == "row":
            got[st.targets[0].slice.value] = _src(st.value)
    want = {"md5": "ss.md5sum()", "md5short": "row['md5'][:8]", "ksize": "int(mh.ksize)", "moltype": "mh.moltype",
            "num": "int(mh.num)", "scaled": "int(mh.scaled)", "n_hashes": "len(mh)",
            "with_abundance": "mh.track_abundance", "name": "ss.name", "filename": "ss.filename",
            "internal_location": "location"}
    if got != want:
        diff = {k: (got.get(k), want.get(k)) for k in set(got) | set(want) if got.get(k) != want.get(k)}
        raise Unrecognised("make_manifest_row", "field sources changed: " + repr(diff))
    report["outputs"]["required_keys"] = keys
    return keys


def x_to_picklist(tree, cls_name, ctor, report):
    """`to_picklist` of a manifest class: the derived picklist either keeps the `manifest` preprocessing
    ((identifier, md5[:8])) or overrides it with the identity (full (name, md5)).  -> exact : bool"""
    what = f"{cls_name}.to_picklist"
    fn = _fn(tree, "to_picklist", cls_name)
    body = [_src(st) for st in fn.body if not _is_docstring(st)]
    head = f"pl = {ctor}('manifest')"
    pick = "pl.pickset = {pl._get_value_for_manifest_row(row) for row in self.rows}"
    if body == [head, pick, "return pl"]:
        exact = False
    elif body == [head, "pl.preprocess_fn = lambda x: x", pick, "return pl"]:
        exact = True
    else:
        raise Unrecognised(what, "body is neither of the two modelled shapes: " + repr(body)[:300])
    report["inputs"][what] = _src(fn)
    report["outputs"].setdefault("toPicklistExact", {})[cls_name] = exact
    return exact


def lean_str_list(xs):
    return "[" + ", ".join('"' + x + '"' for x in xs) + "]"


def x_select(report):
    t_index = ast.parse(read("src/sourmash/index/__init__.py"))
    t_mf = ast.parse(read("src/sourmash/manifest.py"))
    t_sql = ast.parse(read("src/sourmash/index/sqlite_index.py"))
    t_pl = ast.parse(read("src/sourmash/picklist.py"))
    prog = x_select_signature(t_index, report)
    mf = x_manifest_select(t_mf, report)
    sql, hard = x_sql_select(t_sql, report)
    table, tup, sig_attr, row_key, asserts = x_picklist(t_pl, report)
    keys = x_manifest_row(t_mf, report)
    tp_csv = x_to_picklist(t_mf, "CollectionManifest", "picklist.SignaturePicklist", report)
    tp_sql = x_to_picklist(t_sql, "SqliteCollectionManifest", "SignaturePicklist", report)

    def pairs(cl):
        return "[" + ",\n   ".join(f"({g}, {c})" for g, c in cl) + "]"

    def tab(d):
        return "[" + ", ".join(f'("{k}", "{v}")' for k, v in sorted(d.items())) + "]"

    out = [TYPES]
    out.append(f"/-- `select_signature` in index/__init__.py -/\ndef selectSignatureProg : SelStmt :=\n  {prog}\n")
    out.append(f"/-- `CollectionManifest._select`: (guard, row condition) per chained generator -/\n"
               f"def manifestSelectProg : List (SelExpr × SelExpr) :=\n  {pairs(mf)}\n")
    out.append(f"/-- `SqliteCollectionManifest._make_select`: (guard on the selection dict, SQL condition) -/\n"
               f"def sqlSelectProg : List (SelExpr × SelExpr) :=\n  {pairs(sql)}\n")
    out.append(f"/-- `SqliteCollectionManifest.rows` builds every row with `with_abundance=False` -/\n"
               f"def sqlRowAbundHardFalse : Bool := {'true' if hard else 'false'}\n")
    allct = tup["meta_coltypes"] + tup["supported_coltypes"]
    for ct in allct:
        if not (ct.isidentifier() and ct.isascii()):
            raise Unrecognised("coltypes", "not an identifier: " + repr(ct))

    def fn(name, ty, d, fmt=lambda v: v):
        return (f"def {name} : Coltype → {ty}\n" + "\n".join(f"  | .{ct} => {fmt(d[ct])}" for ct in allct) + "\n")

    out.append("/-- the picklist column types: `meta_coltypes` then `supported_coltypes` of SignaturePicklist -/\n"
               "inductive Coltype where\n  | " + " | ".join(allct) + "\nderiving Repr, DecidableEq\n")
    out.append("def Coltype.all : List Coltype := [" + ", ".join("." + ct for ct in allct) + "]\n")
    out.append(fn("Coltype.str", "String", {ct: ct for ct in allct}, lambda v: '"' + v + '"'))
    out.append(fn("Coltype.isMeta", "Bool", {ct: ("true" if ct in tup["meta_coltypes"] else "false") for ct in allct}))
    out.append("/-- `picklist.preprocess[coltype]` -/\n" + fn("preprocessOf", "PreFn", table))
    out.append("/-- which attribute / column a picklist value is taken from -/\n"
               "inductive PickSrc where\n  | pair | md5 | md5short | name\nderiving Repr, DecidableEq\n")
    out.append("/-- `_get_sig_attribute` -/\n" + fn("sigAttrOf", "PickSrc", sig_attr, lambda v: "." + v))
    out.append("/-- `_get_value_for_manifest_row` (before `assert q` and preprocessing) -/\n"
               + fn("rowKeyOf", "PickSrc", row_key, lambda v: "." + v))
    out.append(f"/-- `_get_value_for_manifest_row` still contains `assert q` -/\n"
               f"def rowValueAsserts : Bool := {'true' if asserts else 'false'}\n")
    out.append("/-- `to_picklist()` overrides the preprocessing with the identity: the derived picklist compares the full\n"
               "    (name, md5) of a row instead of (identifier, md5[:8]) -- per manifest class -/\n"
               f"def toPicklistExactCsv : Bool := {'true' if tp_csv else 'false'}\n"
               f"def toPicklistExactSql : Bool := {'true' if tp_sql else 'false'}\n")
    out.append(f"/-- `BaseCollectionManifest.required_keys` -/\ndef manifestRequiredKeys : List String := {lean_str_list(keys)}\n")
    return "\n".join(out)


SERVES = ["C12"]
EXTRACTORS = [("select", x_select)]
