"""Translator pieces for C09 (signature JSON round trip).

Re-extracts from /repo's current source, strictly:

  minhash.rs   impl Serialize for KmerMinHash    -> the (json key, source expression, conditional?) list
               impl Deserialize for KmerMinHash  -> TempSig field/type list, the `num` rule, the molecule
                                                    match (arms + case folding), whether mins are sorted on
                                                    load, whether the file's md5sum string is put into the cache
  encodings.rs Display for HashFunctions         -> hash function -> molecule string
               TryFrom<&str> for HashFunctions   -> moltype filter string -> hash function (+ case folding)
  signature.rs struct Signature serde attributes -> per-field rule (required / default / option / option-skip)
               default_license/class/version, impl Default for Signature
               load_signatures                   -> which k the ksize filter compares with (raw / adjusted x3)
  signature.py _detect_input_type                -> the literal searched for, the comparison (`> 0`), gzip magic
               SourmashSignature.__init__/__copy__/__reduce__/__setstate__ -> argument shapes (what is carried over)

Everything is emitted as Lean constants inside `namespace Sm.Gen`; `Model/SigJson.lean` uses
them (defaults, tables, flags) and `Props/C09.lean` has `decide` theorems about them.
"""
import re

from translate import Unrecognised, read, strip_rust_comments, norm, rust_fn_body, py_fn_body, tok

# properties whose tie breaks when one of these extractors no longer recognises the source
SERVES = ["C09"]

HF_CODE = {"Murmur64Dna": 1, "Murmur64Protein": 2, "Murmur64Dayhoff": 3, "Murmur64Hp": 4}


def lean_str(s):
    out = ['"']
    for ch in s:
        if ch == '"':
            out.append('\\"')
        elif ch == "\\":
            out.append("\\\\")
        elif ch == "\n":
            out.append("\\n")
        elif 32 <= ord(ch) < 127:
            out.append(ch)
        else:
            out.append("\\u{%x}" % ord(ch))
    out.append('"')
    return "".join(out)


def lean_bool(b):
    return "true" if b else "false"


def impl_block(src, header):
    """text of the brace-matched block following `header`"""
    i = src.find(header)
    if i < 0:
        raise Unrecognised(header, "impl block not found")
    j = src.index("{", i + len(header) - 1)
    depth = 0
    for k in range(j, len(src)):
        if src[k] == "{":
            depth += 1
        elif src[k] == "}":
            depth -= 1
            if depth == 0:
                return src[j + 1:k]
    raise Unrecognised(header, "unbalanced braces")


def x_serialize(report):
    src = strip_rust_comments(read("src/core/src/sketch/minhash.rs"))
    blk = impl_block(src, "impl Serialize for KmerMinHash {")
    body = rust_fn_body(blk, "serialize")
    # sequence of serialize_field calls, with the ones nested in `if let Some(..) = &self.abunds { .. }`
    fields = []
    cond_m = re.search(r"if let Some\((\w+)\) = &self\.abunds \{(.*?)\}", body, re.S)
    cond_span = cond_m.span() if cond_m else (-1, -1)
    for m in re.finditer(r'partial\.serialize_field\(\s*"(\w+)"\s*,\s*(.*?)\)\?;', body, re.S):
        cond = cond_span[0] <= m.start() < cond_span[1]
        fields.append((m.group(1), norm(m.group(2)), cond))
    if not fields:
        raise Unrecognised("Serialize for KmerMinHash", "no serialize_field calls recognised")
    n_calls = len(re.findall(r"serialize_field", body))
    if n_calls != len(fields):
        raise Unrecognised("Serialize for KmerMinHash", f"{n_calls} serialize_field calls, {len(fields)} recognised")
    if not re.search(r"partial\.end\(\)", body):
        raise Unrecognised("Serialize for KmerMinHash", "partial.end() missing")
    report["inputs"]["Serialize for KmerMinHash"] = fields
    items = ", ".join(f"({lean_str(k)}, {lean_str(e)}, {lean_bool(c)})" for k, e, c in fields)
    return ("\n/-- `impl Serialize for KmerMinHash`: (json key, source expression, only-if-abundances) in order -/\n"
            f"def skWritten : List (String × String × Bool) := [{items}]\n")


def x_deserialize(report):
    src = strip_rust_comments(read("src/core/src/sketch/minhash.rs"))
    blk = impl_block(src, "impl<'de> Deserialize<'de> for KmerMinHash {")
    body = rust_fn_body(blk, "deserialize")
    m = re.search(r"struct TempSig \{(.*?)\}", body, re.S)
    if not m:
        raise Unrecognised("Deserialize for KmerMinHash", "TempSig not found")
    fields = []
    for part in m.group(1).split(","):
        part = part.strip()
        if not part:
            continue
        fm = re.fullmatch(r"(\w+)\s*:\s*([\w<>]+)", part)
        if not fm:
            raise Unrecognised("Deserialize for KmerMinHash", "TempSig field not recognised: " + part)
        fields.append((fm.group(1), fm.group(2)))
    b = tok(body)
    # num rule
    if tok("let num = if tmpsig.max_hash != 0 { 0 } else { tmpsig.num } ;") in b:
        num_zeroed = True
    elif tok("let num = tmpsig.num ;") in b:
        num_zeroed = False
    else:
        raise Unrecognised("Deserialize for KmerMinHash", "`num` rule not one of the modelled shapes")
    # molecule match
    mm = re.search(r"let hash_function = match tmpsig\.molecule(\.to_lowercase\(\))?\.as_ref\(\) \{(.*?)\};", body, re.S)
    if not mm:
        raise Unrecognised("Deserialize for KmerMinHash", "molecule match not recognised")
    fold = mm.group(1) is not None
    arms = []
    fallback = None
    for arm in mm.group(2).split(","):
        arm = arm.strip()
        if not arm:
            continue
        am = re.fullmatch(r'"([^"]*)"\s*=>\s*HashFunctions::(\w+)', arm)
        if am:
            if am.group(2) not in HF_CODE:
                raise Unrecognised("Deserialize for KmerMinHash", "unknown hash function " + am.group(2))
            arms.append((am.group(1), HF_CODE[am.group(2)]))
            continue
        am = re.fullmatch(r"_\s*=>\s*(unimplemented!\(\)|panic!\(.*\)|todo!\(\))", arm)
        if am:
            fallback = "panic"
            continue
        raise Unrecognised("Deserialize for KmerMinHash", "molecule arm not recognised: " + arm)
    if fallback != "panic":
        raise Unrecognised("Deserialize for KmerMinHash", "molecule fallback arm is not a panic")
    # sort on load (both branches) ; pairs are (min, abund) tuples sorted together
    with_ab = tok("let mut values : Vec<(_, _)> = tmpsig.mins.iter().zip(abunds.iter()).collect(); values.sort();")
    flat = tok("let mut values : Vec<_> = tmpsig.mins.into_iter().collect(); values.sort_unstable();")
    with_ab_nosort = tok("let mut values : Vec<(_, _)> = tmpsig.mins.iter().zip(abunds.iter()).collect();")
    bb = b.replace(" ", "")
    s1, s2 = with_ab.replace(" ", "") in bb, flat.replace(" ", "") in bb
    if s1 and s2:
        sorts = True
    elif not re.search(r"\.sort", body):
        sorts = False
    else:
        raise Unrecognised("Deserialize for KmerMinHash", "load-time sort not one of the modelled shapes "
                           "(pairs sorted together / flat sorted / no sort at all)")
    if with_ab_nosort.replace(" ", "") not in bb:
        raise Unrecognised("Deserialize for KmerMinHash", "mins/abundances are no longer zipped as pairs")
    # md5 cache
    if re.search(r"md5sum:\s*Mutex::new\(Some\(tmpsig\.md5sum\)\)", body):
        trusted = True
    elif re.search(r"md5sum:\s*Mutex::new\(None\)", body):
        trusted = False
    else:
        raise Unrecognised("Deserialize for KmerMinHash", "md5sum initialiser not one of the modelled shapes")
    for f in ("num", "ksize: tmpsig.ksize", "seed: tmpsig.seed", "max_hash: tmpsig.max_hash", "mins", "abunds",
              "hash_function"):
        if not re.search(r"\b" + re.escape(f) + r"\s*,", body):
            raise Unrecognised("Deserialize for KmerMinHash", "constructor field changed: " + f)
    report["inputs"]["Deserialize for KmerMinHash"] = {"TempSig": fields, "arms": arms, "fold": fold}
    report["outputs"]["sigjson_deserialize"] = {"num_zeroed": num_zeroed, "sorts": sorts, "md5_trusted": trusted}
    fl = ", ".join(f"({lean_str(k)}, {lean_str(t)})" for k, t in fields)
    al = ", ".join(f"({lean_str(k)}, {v})" for k, v in arms)
    return ("\n/-- `impl Deserialize for KmerMinHash`: TempSig fields and types -/\n"
            f"def skRead : List (String × String) := [{fl}]\n"
            "/-- `num := 0 if max_hash != 0` on load -/\n"
            f"def numZeroedWhenScaled : Bool := {lean_bool(num_zeroed)}\n"
            "/-- molecule string -> hash function code (1 dna, 2 protein, 3 dayhoff, 4 hp); anything else panics -/\n"
            f"def moleculeParse : List (String × Nat) := [{al}]\n"
            f"def moleculeCaseFold : Bool := {lean_bool(fold)}\n"
            "/-- (min, abundance) pairs / mins are sorted at load time -/\n"
            f"def loadSortsMins : Bool := {lean_bool(sorts)}\n"
            "/-- the md5sum string of the file is placed in the md5 cache (not recomputed) -/\n"
            f"def md5TrustedFromFile : Bool := {lean_bool(trusted)}\n")


def x_encodings(report):
    src = strip_rust_comments(read("src/core/src/encodings.rs"))
    blk = impl_block(src, "impl std::fmt::Display for HashFunctions {")
    names = []
    for m in re.finditer(r'HashFunctions::(\w+)\s*=>\s*"([^"]*)"', blk):
        if m.group(1) not in HF_CODE:
            raise Unrecognised("Display for HashFunctions", "unknown variant " + m.group(1))
        names.append((HF_CODE[m.group(1)], m.group(2)))
    if len(names) != 4 or not re.search(r"HashFunctions::Custom\(v\)\s*=>\s*v", blk):
        raise Unrecognised("Display for HashFunctions", "arms changed")
    blk2 = impl_block(src, "impl TryFrom<&str> for HashFunctions {")
    mm = re.search(r"match moltype(\.to_lowercase\(\))?\.as_ref\(\) \{(.*?)\n\s*\}", blk2, re.S)
    if not mm:
        raise Unrecognised("TryFrom<&str> for HashFunctions", "match not recognised")
    fold = mm.group(1) is not None
    arms = []
    for m in re.finditer(r'"([^"]*)"\s*=>\s*Ok\(HashFunctions::(\w+)\)', mm.group(2)):
        arms.append((m.group(1), HF_CODE[m.group(2)]))
    if len(arms) != 4 or not re.search(r"v\s*=>\s*unimplemented!", mm.group(2)):
        raise Unrecognised("TryFrom<&str> for HashFunctions", "arms changed")
    report["inputs"]["HashFunctions"] = {"display": names, "try_from": arms, "fold": fold}
    nl = ", ".join(f"({c}, {lean_str(s)})" for c, s in names)
    al = ", ".join(f"({lean_str(s)}, {c})" for s, c in arms)
    return ("\n/-- `Display for HashFunctions`: what the `molecule` field is written as -/\n"
            f"def moleculeNames : List (Nat × String) := [{nl}]\n"
            "/-- `TryFrom<&str> for HashFunctions` (the select_moltype argument); anything else panics -/\n"
            f"def moltypeParse : List (String × Nat) := [{al}]\n"
            f"def moltypeCaseFold : Bool := {lean_bool(fold)}\n")


def x_signature_struct(report):
    src = strip_rust_comments(read("src/core/src/signature.rs"))
    m = re.search(r"pub struct Signature \{(.*?)\n\}", src, re.S)
    if not m:
        raise Unrecognised("struct Signature", "not found")
    fields = []
    attrs = []
    for line in m.group(1).split("\n"):
        line = line.strip()
        if not line:
            continue
        if line.startswith("#["):
            attrs.append(line)
            continue
        fm = re.fullmatch(r"(?:pub(?:\(crate\))?\s+)?(\w+)\s*:\s*([\w<>]+),", line)
        if not fm:
            raise Unrecognised("struct Signature", "field line not recognised: " + line)
        name, ty = fm.group(1), fm.group(2)
        serde = [a for a in attrs if a.startswith("#[serde(")]
        attrs = []
        rule = None
        if not serde:
            rule = "option" if ty.startswith("Option<") else "required"
        elif len(serde) == 1:
            a = serde[0]
            dm = re.fullmatch(r'#\[serde\(default = "(\w+)"\)\]', a)
            if dm:
                rule = "default:" + dm.group(1)
            elif a == "#[serde(default)]":
                rule = "default"
            elif a == '#[serde(skip_serializing_if = "Option::is_none")]' and ty.startswith("Option<"):
                rule = "option-skip-none"
        if rule is None:
            raise Unrecognised("struct Signature", f"serde attributes of `{name}` not recognised: {serde}")
        fields.append((name, ty, rule))
    defaults = {}
    for fn in ("default_license", "default_class", "default_version"):
        body = norm(rust_fn_body(src, fn))
        sm = re.fullmatch(r'"([^"]*)"\.to_string\(\)', body)
        nm = re.fullmatch(r"(\d+(?:\.\d+)?)", body)
        if sm:
            defaults[fn] = sm.group(1)
        elif nm:
            defaults[fn] = nm.group(1)
        else:
            raise Unrecognised(fn, "body not a literal: " + body)
    blk = impl_block(src, "impl Default for Signature {")
    dflt = {}
    for dm in re.finditer(r"(\w+):\s*([^,\n]+),", rust_fn_body(blk, "default")):
        dflt[dm.group(1)] = dm.group(2).strip()
    want = {"class": "default_class()", "license": "default_license()", "version": "default_version()",
            "filename": "None", "name": "None", "signatures": "Vec::<Sketch>::new()"}
    for k, v in want.items():
        if dflt.get(k) != v:
            raise Unrecognised("Default for Signature", f"{k}: {dflt.get(k)}")
    lit = {}
    for k in ("email", "hash_function"):
        sm = re.fullmatch(r'"([^"]*)"\.to_string\(\)', dflt.get(k, ""))
        if not sm:
            raise Unrecognised("Default for Signature", f"{k} not a literal")
        lit[k] = sm.group(1)
    # untagged sketch enum, MinHash first
    sk = strip_rust_comments(read("src/core/src/sketch/mod.rs"))
    if not re.search(r"#\[serde\(untagged\)\](?:\s*#\[cfg_attr\(.*?\)\])?\s*pub enum Sketch \{\s*MinHash\(KmerMinHash\),", sk, re.S):
        raise Unrecognised("enum Sketch", "no longer `#[serde(untagged)]` with MinHash(KmerMinHash) first")
    # to_writer / save_buffer serialise a Vec of signatures
    report["inputs"]["struct Signature"] = fields
    report["outputs"]["sigjson_defaults"] = dict(defaults, **lit)
    fl = ", ".join(f"({lean_str(n)}, {lean_str(t)}, {lean_str(r)})" for n, t, r in fields)
    return ("\n/-- `struct Signature`: (field, type, serde rule) in declaration (= serialisation) order -/\n"
            f"def sigFields : List (String × String × String) := [{fl}]\n"
            f"def sigDefaultClass : String := {lean_str(defaults['default_class'])}\n"
            f"def sigDefaultLicense : String := {lean_str(defaults['default_license'])}\n"
            "/-- f64 literal, kept as its source token -/\n"
            f"def sigDefaultVersion : String := {lean_str(defaults['default_version'])}\n"
            f"def sigDefaultEmail : String := {lean_str(lit['email'])}\n"
            f"def sigDefaultHashFunction : String := {lean_str(lit['hash_function'])}\n")


def x_load_filter(report):
    src = strip_rust_comments(read("src/core/src/signature.rs"))
    body = rust_fn_body(src, "load_signatures")
    b = tok(body).replace(" ", "")
    raw = "Sketch::MinHash(mh)=>{ifletSome(k)=ksize{ifk!=mh.ksize(){returnfalse;}};"
    adj = ("Sketch::MinHash(mh)=>{ifletSome(k)=ksize{letk=matchmh.hash_function(){HashFunctions::Murmur64Protein"
           "|HashFunctions::Murmur64Dayhoff|HashFunctions::Murmur64Hp=>k*3,_=>k,};ifk!=mh.ksize(){returnfalse;}};")
    if raw in b:
        mode = True
    elif adj in b:
        mode = False
    else:
        raise Unrecognised("load_signatures", "ksize filter not one of the modelled shapes (raw / x3-adjusted)")
    if "match&moltype{Some(x)=>{ifmh.hash_function()==*x{returntrue;}}None=>returntrue," not in b:
        raise Unrecognised("load_signatures", "moltype filter shape changed")
    if "new_s.signatures=vec![mh.clone()];" not in b or "ifgood_mhs.is_empty(){returnNone;};" not in b:
        raise Unrecognised("load_signatures", "flattening shape changed")
    ffi = strip_rust_comments(read("src/core/src/ffi/signature.rs"))
    for fn in ("signatures_load_path", "signatures_load_buffer"):
        fb = tok(rust_fn_body(ffi, fn)).replace(" ", "")
        if "letk=matchksize{0=>None,x=>Some(x)};" not in fb:
            raise Unrecognised(fn, "ksize 0 -> None rule changed")
        if "ifselect_moltype.is_null(){None}else{letmol=CStr::from_ptr(select_moltype).to_str()?;Some(mol.try_into()?)}" not in fb:
            raise Unrecognised(fn, "select_moltype handling changed")
        if "Signature::load_signatures(" not in fb or ",k,moltype,None)?" not in fb:
            raise Unrecognised(fn, "load_signatures call changed")
    report["outputs"]["sigjson_filter_ksize_raw"] = mode
    return ("\n/-- `load_signatures`: the ksize filter compares with the stored k (x3 for protein-like) without adjusting -/\n"
            f"def loadFilterKsizeRaw : Bool := {lean_bool(mode)}\n")


def x_python(report):
    py = read("src/sourmash/signature.py")
    body = py_fn_body(py, "_detect_input_type")
    b = norm(body)
    shape_a = norm('''
    if (
        hasattr(data, "read") or hasattr(data, "fileno") or hasattr(data, "mode")
    ):
        return SigInput.FILE_LIKE
    elif hasattr(data, "find"):
        try:
            if data.find("LIT") > 0:
                return SigInput.BUFFER
        except TypeError:
            if data.find(b"LIT") > 0:
                return SigInput.BUFFER
            elif data.startswith(b"MAGIC"):
                return SigInput.BUFFER

    try:
        if os.path.exists(data):
            return SigInput.PATH
    except (ValueError, TypeError):
        return SigInput.UNKNOWN

    return SigInput.UNKNOWN
    ''')
    # strip the docstring (triple-quoted)
    b = norm(re.sub(r'"""\\?.*?"""', "", body, flags=re.S))
    m = re.search(r'data\.find\("([^"]*)"\) > 0', b)
    if not m:
        raise Unrecognised("_detect_input_type", "text literal test not recognised")
    lit = m.group(1)
    mm = re.search(r'data\.startswith\(b"((?:\\x[0-9a-fA-F]{2})+)"\)', b)
    if not mm:
        raise Unrecognised("_detect_input_type", "gzip magic test not recognised")
    magic_src = mm.group(1)
    magic = [int(x, 16) for x in re.findall(r"\\x([0-9a-fA-F]{2})", magic_src)]
    guard = False
    expect = shape_a.replace("LIT", lit).replace("MAGIC", magic_src)
    expect_guarded = expect.replace(f'if data.find("{lit}") > 0:',
                                    f'if data.find("{lit}") > 0 and data.lstrip().startswith("["):')
    if b == expect:
        guard = False
    elif b == expect_guarded:
        guard = True
    else:
        raise Unrecognised("_detect_input_type", "body not one of the modelled shapes: " + b[:300])
    # constructor / copy / pickle argument shapes
    cls = py[py.index("class SourmashSignature(RustObject):"):py.index("class FrozenSourmashSignature(")]
    need = [
        ('__init__', 'self._objptr = lib.signature_new() if name: self.name = name if filename: self.filename = filename self.minhash = minhash'),
        ('__getstate__', 'return ( self.minhash, self.name, self.filename, )'),
        ('__setstate__', '(mh, name, filename) = tup self.__del__() self._objptr = lib.signature_new() if name: self.name = name if filename: self.filename = filename self.minhash = mh'),
        ('__reduce__', 'return ( SourmashSignature, (self.minhash, self.name, self.filename), )'),
        ('__copy__', 'a = SourmashSignature( self.minhash, name=self.name, filename=self.filename, ) return a'),
    ]
    for fn, shape in need:
        fm = re.search(r"^    def " + re.escape(fn) + r"\(.*?\):(?:\s*#[^\n]*)?\n((?:        .*\n|\s*\n)+)", cls, re.M)
        if not fm:
            raise Unrecognised("SourmashSignature." + fn, "not found")
        got = norm(re.sub(r"#[^\n]*", "", re.sub(r'^\s*"[^"\n]*"\s*$', "", fm.group(1), flags=re.M)))
        if got != norm(shape):
            raise Unrecognised("SourmashSignature." + fn, "body changed: " + got[:200])
    i0 = py.find("def load_signatures_from_json(")
    if i0 < 0:
        raise Unrecognised("load_signatures_from_json", "function not found")
    lj = norm(re.sub(r"#[^\n]*", "", py[i0:py.index("\ndef ", i0 + 1)]))
    for piece in ("if not data: return", "except Exception: if do_raise: raise",
                  "if input_type == SigInput.UNKNOWN: if do_raise: raise ValueError("):
        if piece not in lj:
            raise Unrecognised("load_signatures_from_json", "piece missing: " + piece)
    if 'if ( hasattr(data, "mode") and "t" in data.mode ): data = data.buffer buf = data.read() data.close()' in lj:
        detached = True      # the text wrapper is dropped before its buffer is read (closed by its finaliser)
    elif 'if hasattr(data, "mode") and "t" in data.mode: buf = data.buffer.read() else: buf = data.read() data.close()' in lj:
        detached = False
    else:
        raise Unrecognised("load_signatures_from_json", "text-mode file object handling is not one of the modelled shapes")
    if "for sig in sigs: yield sig.to_frozen() except Exception:" in lj:
        copies = True
    elif "for sig in sigs: sig.into_frozen() yield sig except Exception:" in lj:
        copies = False
    else:
        raise Unrecognised("load_signatures_from_json", "the yield loop is not one of the modelled shapes "
                           "(yield sig.to_frozen() / sig.into_frozen(); yield sig)")
    report["inputs"]["_detect_input_type"] = {"literal": lit, "magic": magic, "bracket_guard": guard}
    report["outputs"]["sigjson_loader_copies"] = copies
    return ("\n/-- `_detect_input_type`: literal searched for; a hit counts when its index is `>= sniffMinIndex` (`> 0`) -/\n"
            f"def sniffLiteral : String := {lean_str(lit)}\n"
            "def sniffMinIndex : Nat := 1\n"
            f"def gzipMagic : List Nat := [{', '.join(str(x) for x in magic)}]\n"
            "/-- (candidate repair) text counts as a buffer only if it also starts with `[` -/\n"
            f"def sniffBracketGuard : Bool := {lean_bool(guard)}\n"
            "/-- `load_signatures_from_json` yields `sig.to_frozen()` (a copy with a fresh envelope) rather than the loaded object -/\n"
            f"def loaderCopies : Bool := {lean_bool(copies)}\n"
            "/-- a text-mode file object is replaced by its `.buffer` before reading: if the caller holds no other\n"
            "    reference, CPython finalises the wrapper, which closes the buffer (`read of closed file`) -/\n"
            f"def textWrapperDropped : Bool := {lean_bool(detached)}\n")


def x_text_layer(report):
    """pins for the JSON text / compression layer (Model/JsonText.lean): third-party behaviour is modelled for
    these major versions and feature sets only; the HyperLogLog record and what load_signatures does with it"""
    lock = read("Cargo.lock")
    vers = {}
    for name in ("serde_json", "niffler", "flate2"):
        m = re.search(r'name = "' + name + r'"\nversion = "([0-9.]+)"', lock)
        if not m:
            raise Unrecognised("Cargo.lock", name + " not found")
        vers[name] = m.group(1)
    if not vers["serde_json"].startswith("1."):
        raise Unrecognised("serde_json", "major version changed: " + vers["serde_json"])
    if not vers["niffler"].startswith("2."):
        raise Unrecognised("niffler", "major version changed: " + vers["niffler"])
    toml = read("src/core/Cargo.toml")
    m = re.search(r'^niffler = \{ version = "[^"]*", default-features = false, features = \[([^\]]*)\] \}', toml, re.M)
    if not m:
        raise Unrecognised("niffler", "dependency line in src/core/Cargo.toml not recognised")
    feats = sorted(x.strip().strip('"') for x in m.group(1).split(",") if x.strip())
    if feats != ["gz"]:
        raise Unrecognised("niffler", f"compiled-in compression formats changed: {feats} (the model refuses all but gz)")
    if re.search(r'^serde_json = \{[^\n]*features', toml, re.M):
        raise Unrecognised("serde_json", "features enabled (arbitrary_precision / float_roundtrip / unbounded_depth change what is accepted)")
    hll = strip_rust_comments(read("src/core/src/sketch/hyperloglog/mod.rs"))
    m = re.search(r"pub struct HyperLogLog \{(.*?)\}", hll, re.S)
    if not m or norm(m.group(1)) != "registers: Vec<CounterType>, p: usize, q: usize, ksize: usize,":
        raise Unrecognised("struct HyperLogLog", "fields changed")
    if not re.search(r"#\[derive\([^)]*Deserialize[^)]*\)\]\s*(#\[cfg_attr\(.*?\)\]\s*)?pub struct HyperLogLog", hll, re.S):
        raise Unrecognised("struct HyperLogLog", "no longer derives Deserialize")
    est = read("src/core/src/sketch/hyperloglog/estimators.rs")
    if not re.search(r"pub type CounterType = u8;", est):
        raise Unrecognised("CounterType", "no longer u8")
    sig = strip_rust_comments(read("src/core/src/signature.rs"))
    body = rust_fn_body(sig, "load_signatures")
    if len(re.findall(r"Sketch::HyperLogLog\(_\) => unimplemented!\(\),", body)) != 1:
        raise Unrecognised("load_signatures", "HyperLogLog arm is no longer a single `unimplemented!()`")
    sk = strip_rust_comments(read("src/core/src/sketch/mod.rs"))
    if not re.search(r"pub enum Sketch \{\s*MinHash\(KmerMinHash\),\s*LargeMinHash\(KmerMinHashBTree\),\s*HyperLogLog\(HyperLogLog\),\s*\}", sk):
        raise Unrecognised("enum Sketch", "variants or their order changed")
    ffi = strip_rust_comments(read("src/core/src/ffi/signature.rs"))
    pb = tok(rust_fn_body(ffi, "signatures_load_path")).replace(" ", "")
    bb = tok(rust_fn_body(ffi, "signatures_load_buffer")).replace(" ", "")
    if "let(mutinput,_)=niffler::from_path(buf.to_str()?)?;" not in pb or "niffler" in bb:
        raise Unrecognised("signatures_load_path/_buffer", "where niffler is applied changed (path: from_path + from_reader, buffer: from_reader only)")
    fr = tok(rust_fn_body(sig, "from_reader")).replace(" ", "")
    if fr != "let(rdr,_format)=niffler::get_reader(Box::new(rdr))?;letsigs:Vec<Signature>=serde_json::from_reader(rdr)?;Ok(sigs)":
        raise Unrecognised("Signature::from_reader", "body changed: " + fr[:200])
    report["outputs"]["sigjson_text_layer"] = dict(vers, niffler_features=feats)
    return ("\n/-- third-party versions the JSON text / compression layer is modelled for (Cargo.lock) -/\n"
            f"def serdeJsonVersion : String := {lean_str(vers['serde_json'])}\n"
            f"def nifflerVersion : String := {lean_str(vers['niffler'])}\n"
            f"def flate2Version : String := {lean_str(vers['flate2'])}\n"
            "/-- niffler is compiled with the gz feature only -/\n"
            "def nifflerGzOnly : Bool := true\n")


EXTRACTORS = [("sigjson_serialize", x_serialize), ("sigjson_deserialize", x_deserialize),
              ("sigjson_encodings", x_encodings), ("sigjson_signature_struct", x_signature_struct),
              ("sigjson_load_filter", x_load_filter), ("sigjson_python", x_python),
              ("sigjson_text_layer", x_text_layer)]
