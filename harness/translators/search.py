"""Translator module for C06: the three score-function bodies of `JaccardSearch`
(src/sourmash/search.py), `passes`, `JaccardSearchBestOnly.collect`, and the SQLite signed-integer
bound `MAX_SQLITE_INT` with the two converters (src/sourmash/index/sqlite_index.py).

Strict: every body is parsed with `ast` and must be *exactly* one of the shapes below; anything else
raises `Unrecognised` (the run then reports the tie as broken).  The score functions are emitted as data
(`ScoreShape`: guard / numerator / denominator out of the four size arguments) that `Model/Search.lean`
interprets; the theorems of Props/C06.lean are proved about the interpreted shapes, so a changed shape
that is still recognised breaks a proof rather than passing silently.
"""
import ast
import os
import sys

sys.path.insert(0, os.path.dirname(os.path.dirname(os.path.abspath(__file__))))
from translate import Unrecognised, read  # noqa: E402

SERVES = ["C06"]

ARGS = ["query_size", "shared_size", "subject_size", "total_size"]
LEAN_ARG = {"query_size": ".query", "shared_size": ".shared", "subject_size": ".subject", "total_size": ".total",
            "min(query_size, subject_size)": ".minQuerySubject"}


def _strip_doc(body):
    if body and isinstance(body[0], ast.Expr) and isinstance(getattr(body[0], "value", None), ast.Constant) \
            and isinstance(body[0].value.value, str):
        return body[1:]
    return body


def _method(cls, name, what):
    for n in cls.body:
        if isinstance(n, ast.FunctionDef) and n.name == name:
            return n
    raise Unrecognised(what, f"method {name} not found")


def _cls(tree, name):
    for n in tree.body:
        if isinstance(n, ast.ClassDef) and n.name == name:
            return n
    raise Unrecognised(name, "class not found")


def _score_shape(fn, what):
    """accepts exactly
         if <g> == 0: return 0
         return <n> / <d>
       where <g>, <n>, <d> are parameters, optionally with one leading `<v> = min(query_size, subject_size)`."""
    params = [a.arg for a in fn.args.args]
    if params != ["self"] + ARGS:
        raise Unrecognised(what, f"parameters changed: {params}")
    body = _strip_doc(fn.body)
    env = {a: a for a in ARGS}
    if len(body) == 3:
        a = body[0]
        ok = (isinstance(a, ast.Assign) and len(a.targets) == 1 and isinstance(a.targets[0], ast.Name)
              and ast.unparse(a.value) == "min(query_size, subject_size)")
        if not ok:
            raise Unrecognised(what, "first statement is not `v = min(query_size, subject_size)`: " + ast.unparse(a))
        env[a.targets[0].id] = "min(query_size, subject_size)"
        body = body[1:]
    if len(body) != 2:
        raise Unrecognised(what, "body is not `if g == 0: return 0; return n / d`: " + ast.unparse(fn)[:200])
    iff, ret = body
    ok = (isinstance(iff, ast.If) and not iff.orelse and len(iff.body) == 1
          and isinstance(iff.body[0], ast.Return) and ast.unparse(iff.body[0]) == "return 0"
          and isinstance(iff.test, ast.Compare) and len(iff.test.ops) == 1 and isinstance(iff.test.ops[0], ast.Eq)
          and isinstance(iff.test.left, ast.Name) and ast.unparse(iff.test.comparators[0]) == "0")
    if not ok:
        raise Unrecognised(what, "guard is not `if <name> == 0: return 0`: " + ast.unparse(iff)[:160])
    ok = (isinstance(ret, ast.Return) and isinstance(ret.value, ast.BinOp) and isinstance(ret.value.op, ast.Div)
          and isinstance(ret.value.left, ast.Name) and isinstance(ret.value.right, ast.Name))
    if not ok:
        raise Unrecognised(what, "result is not `return <name> / <name>`: " + ast.unparse(ret)[:160])
    try:
        g = env[iff.test.left.id]
        n = env[ret.value.left.id]
        d = env[ret.value.right.id]
    except KeyError as e:
        raise Unrecognised(what, f"unknown name {e}")
    return g, n, d


def x_search(report):
    src = read("src/sourmash/search.py")
    tree = ast.parse(src)
    js = _cls(tree, "JaccardSearch")
    out = {}
    lean = ["", "/-- `JaccardSearch.score_*` (search.py): `if guard == 0: return 0; return num / den` -/",
            "inductive SArg where", "  | query | shared | subject | total | minQuerySubject",
            "deriving Repr, DecidableEq", "",
            "structure ScoreShape where", "  guard : SArg", "  num : SArg", "  den : SArg", "deriving Repr, DecidableEq", ""]
    for py, ln in (("score_jaccard", "scoreJaccardShape"), ("score_containment", "scoreContainmentShape"),
                   ("score_max_containment", "scoreMaxContainmentShape")):
        fn = _method(js, py, py)
        g, n, d = _score_shape(fn, py)
        out[py] = {"guard": g, "num": n, "den": d}
        report["inputs"][py] = ast.unparse(fn)
        lean.append(f"def {ln} : ScoreShape := ⟨{LEAN_ARG[g]}, {LEAN_ARG[n]}, {LEAN_ARG[d]}⟩")
    # passes: `if score and score >= self.threshold: return True; return False`
    p = _strip_doc(_method(js, "passes", "passes").body)
    txt = " ; ".join(ast.unparse(s).replace("\n", " ") for s in p)
    txt = " ".join(txt.split())
    if txt != "if score and score >= self.threshold: return True ; return False":
        raise Unrecognised("passes", "body changed: " + txt[:200])
    report["inputs"]["passes"] = txt
    lean.append("/-- `passes`: `score and score >= self.threshold` (truthy score, then `>=`) -/")
    lean.append("def passesIsTruthyAndGe : Bool := true")
    # plain collect returns True; best-only collect raises the threshold to max(threshold, score)
    c = _strip_doc(_method(js, "collect", "collect").body)
    if " ; ".join(ast.unparse(s) for s in c) != "return True":
        raise Unrecognised("collect", "JaccardSearch.collect no longer `return True`")
    bo = _cls(tree, "JaccardSearchBestOnly")
    if [ast.unparse(b) for b in bo.bases] != ["JaccardSearch"]:
        raise Unrecognised("JaccardSearchBestOnly", "bases changed")
    if [n.name for n in bo.body if isinstance(n, ast.FunctionDef)] != ["collect"]:
        raise Unrecognised("JaccardSearchBestOnly", "overrides other than collect")
    c = _strip_doc(_method(bo, "collect", "BestOnly.collect").body)
    txt = " ; ".join(ast.unparse(s) for s in c)
    if txt != "self.threshold = max(self.threshold, score) ; return True":
        raise Unrecognised("BestOnly.collect", "body changed: " + txt[:200])
    report["inputs"]["BestOnly.collect"] = txt
    lean.append("/-- `JaccardSearchBestOnly.collect`: `self.threshold = max(self.threshold, score); return True` -/")
    lean.append("def bestOnlyRaisesToMax : Bool := true")
    # calc_threshold_from_bp
    fn = None
    for n in tree.body:
        if isinstance(n, ast.FunctionDef) and n.name == "calc_threshold_from_bp":
            fn = n
    if fn is None:
        raise Unrecognised("calc_threshold_from_bp", "function not found")
    body = " ; ".join(" ".join(ast.unparse(s).split()) for s in _strip_doc(fn.body))
    want = ("threshold = 0.0 ; n_threshold_hashes = 0 ; if threshold_bp: if threshold_bp < 0: raise TypeError('threshold_bp must be non-negative') "
            "n_threshold_hashes = float(threshold_bp) / scaled threshold = n_threshold_hashes / query_size "
            "if threshold > 1.0: raise ValueError('requested threshold_bp is unattainable with this query') ; "
            "return (threshold, n_threshold_hashes)")
    if body != want:
        raise Unrecognised("calc_threshold_from_bp", "body changed: " + body[:300])
    report["inputs"]["calc_threshold_from_bp"] = body
    lean.append("/-- `calc_threshold_from_bp`: `(float(bp) / scaled) / query_size`, refused when `> 1.0` -/")
    lean.append("def thresholdFromBpIsTwoDivisions : Bool := true")
    report["outputs"]["search"] = out
    return "\n".join(lean) + "\n"


def x_sqlite(report):
    src = read("src/sourmash/index/sqlite_index.py")
    tree = ast.parse(src)
    val = None
    fns = {}
    for n in tree.body:
        if isinstance(n, ast.Assign) and len(n.targets) == 1 and ast.unparse(n.targets[0]) == "MAX_SQLITE_INT":
            if val is not None:
                raise Unrecognised("MAX_SQLITE_INT", "assigned twice")
            try:
                val = eval(compile(ast.Expression(n.value), "<MAX_SQLITE_INT>", "eval"), {"__builtins__": {}}, {})
            except Exception as e:      # noqa: BLE001
                raise Unrecognised("MAX_SQLITE_INT", f"not a constant expression: {e}")
            if not (isinstance(n.value, (ast.BinOp, ast.Constant))):
                raise Unrecognised("MAX_SQLITE_INT", "not a literal arithmetic expression")
            report["inputs"]["MAX_SQLITE_INT"] = ast.unparse(n.value)
        if isinstance(n, ast.FunctionDef) and n.name in ("convert_hash_to", "convert_hash_from"):
            fns[n.name] = " ; ".join(ast.unparse(s) for s in _strip_doc(n.body))
    if not isinstance(val, int) or val <= 0:
        raise Unrecognised("MAX_SQLITE_INT", "constant not found")
    want = {"convert_hash_to": "return BitArray(uint=x, length=64).int if x > MAX_SQLITE_INT else x",
            "convert_hash_from": "return BitArray(int=x, length=64).uint if x < 0 else x"}
    for k, w in want.items():
        if fns.get(k) != w:
            raise Unrecognised(k, "body changed: " + str(fns.get(k))[:200])
        report["inputs"][k] = fns[k]
    # the range clause of the three SQL statements that downsample by max_hash
    n_clause = src.count("hashval >= 0 AND hashval <= ?") + src.count("sourmash_hashes.hashval >= 0 AND sourmash_hashes.hashval <= ?")
    n_guard = src.count("if max_hash <= MAX_SQLITE_INT:")
    if n_guard != 3:
        raise Unrecognised("sqlite range clause", f"expected 3 `if max_hash <= MAX_SQLITE_INT:` guards, found {n_guard}")
    # the branch of _load_sketch_size taken when max_hash does not fit a signed integer (fix of finding D12)
    norm = " ".join(src.split())
    want_else = ('else: c1.execute( """ SELECT COUNT(hashval) FROM sourmash_hashes WHERE sketch_id=? AND (hashval >= 0 OR hashval <= ?)""", '
                 '(sketch_id, convert_hash_to(max_hash)), )')
    import re as _re
    norm_nc = " ".join(_re.sub(r"#[^\n]*", "", src).split())
    if norm_nc.count(want_else) != 1:
        raise Unrecognised("_load_sketch_size", "the branch for max_hash > MAX_SQLITE_INT is not "
                           "`COUNT ... WHERE sketch_id=? AND (hashval >= 0 OR hashval <= convert_hash_to(max_hash))`")
    report["inputs"]["_load_sketch_size.else"] = want_else
    # find(): what happens to a query that is empty after downsampling -- two shapes are modelled
    head = ("def find(self, search_fn, query, **kwargs): search_fn.check_is_compatible(query) query_mh = query.minhash "
            "if self.scaled > query_mh.scaled: query_mh = query_mh.downsample(scaled=self.scaled) ")
    early = head + "if not query_mh: return picklist = None"
    late = head + "picklist = None"
    if norm_nc.count(early) == 1 and norm_nc.count(late) == 0:
        empty_returns = True
    elif norm_nc.count(late) == 1 and norm_nc.count(early) == 0:
        empty_returns = False
    else:
        raise Unrecognised("SqliteIndex.find", "the prologue is neither `check; downsample; picklist = None` nor the same with "
                           "`if not query_mh: return` after the downsampling")
    report["inputs"]["SqliteIndex.find.prologue"] = early if empty_returns else late
    report["outputs"]["sqlite"] = {"empty_query_returns_nothing": empty_returns, "MAX_SQLITE_INT": val, "range_guards": n_guard, "range_clauses": n_clause,
                                   "size_clause_above_max": "hashval >= 0 OR hashval <= convert_hash_to(max_hash)"}
    return f"""
/-- `MAX_SQLITE_INT` in sqlite_index.py; `convert_hash_to/from` are the 64-bit two's-complement reinterpretation
    applied above it / below zero; the range clause `hashval >= 0 AND hashval <= ?` is used iff `max_hash <= MAX_SQLITE_INT` -/
def sqlMaxInt : Nat := {val}
/-- `SqliteIndex.find`: `if not query_mh: return` right after the query has been downsampled (true), or no such
    early return (false: `max()` of no hashes raises) -/
def sqlEmptyQueryReturnsNothing : Bool := {"true" if empty_returns else "false"}
"""


def x_sbt(report):
    """node_search (sbt.py): the subject size of an internal node is `min_n_below`, replaced by 1 when the leaves
    are compared after downsampling (fix of finding C06.1); modelled by `SbtCtx.nodeSize`"""
    import re as _re
    src = read("src/sourmash/sbt.py")
    norm = " ".join(_re.sub(r"#[^\n]*", "", src).split())
    want = ('subj_size = node.metadata.get("min_n_below", -1) if subj_size == -1: raise ValueError( '
            '"ERROR: no min_n_below on this tree, cannot search." ) '
            'if tree_scaled and scaled != tree_scaled: subj_size = 1 total_size = subj_size')
    if norm.count(want) != 1:
        raise Unrecognised("node_search", "the internal-node branch is not `subj_size = min_n_below; [missing -> ValueError]; "
                           "if tree_scaled and scaled != tree_scaled: subj_size = 1; total_size = subj_size`")
    report["inputs"]["node_search.internal"] = want
    report["outputs"]["sbt"] = {"node_size": "1 if leaves are downsampled else min_n_below"}
    return """
/-- `node_search` (sbt.py): internal nodes are scored with `min_n_below`, or with 1 when the leaves are downsampled -/
def sbtNodeSizeOneWhenDownsampled : Bool := true
"""


EXTRACTORS = [("c06_search", x_search), ("c06_sqlite", x_sqlite), ("c06_sbt", x_sbt)]
