import subprocess, sys, os, re
WT='/var/tmp/agents/c05/repo_wt'
V='/var/tmp/agents/c05/verif'
RS='src/core/src/sketch/minhash.rs'
FFI='src/core/src/ffi/minhash.rs'
PY='src/sourmash/minhash.py'
SC='src/sourmash/sketchcomparison.py'
SG='src/sourmash/signature.py'
def sub(path, old, new, count=1):
    p=os.path.join(WT,path); s=open(p).read()
    assert s.count(old)>=1, (path, old)
    s=s.replace(old,new,count); open(p,'w').write(s)
MUTS = {
 'S1-sig-max_containment-drops-downsample': lambda: sub(SG, 'return self.minhash.max_containment(other.minhash, downsample=downsample)', 'return self.minhash.max_containment(other.minhash)'),
 'S2-sig-avg_containment-hardcodes-false': lambda: sub(SG, 'return self.minhash.avg_containment(other.minhash, downsample=downsample)', 'return self.minhash.avg_containment(other.minhash, downsample=False)'),
 'S3-frac-pass_threshold-strict': lambda: sub(SC, 'return self.total_unique_intersect_hashes >= self.threshold_bp', 'return self.total_unique_intersect_hashes > self.threshold_bp'),
 'S4-frac-tuih-uses-mh1-scaled': lambda: sub(SC, '''            len(self.intersect_mh) * self.cmp_scaled''', '''            len(self.intersect_mh) * self.mh1.scaled'''),
 'S5-ffi-kmerminhash_jaccard-abundance-aware': lambda: sub(FFI, '''    mh.jaccard(other_mh)''', '''    mh.similarity(other_mh, false, false)'''),
 'S6-frozen-downsample-num-skips': lambda: sub(PY, '''        if num and self.num == num:
            return self''', '''        if num and self.num >= num:
            return self'''),
 'S7-py-angular-precheck-or': lambda: sub(PY, '''        if not (self.track_abundance and other.track_abundance):
            raise TypeError(
                "Error: Angular (cosine) similarity requires both sketches to track hash abundance."''', '''        if not (self.track_abundance or other.track_abundance):
            raise TypeError(
                "Error: Angular (cosine) similarity requires both sketches to track hash abundance."'''),
 'S8-btree-angular-norm-from-self': lambda: sub(RS, '''        let b_sq: u64 = other_abunds.values().map(|a| (a * a)).sum();''', '''        let b_sq: u64 = abunds.values().map(|a| (a * a)).sum();'''),
 'S9-frac-cosine-alias-jaccard': lambda: sub(SC, '''    def cosine_similarity(self):
        return self.angular_similarity''', '''    def cosine_similarity(self):
        return self.jaccard'''),
 'S10-frac-c21-uses-original-mh2': lambda: sub(SC, 'return self.mh2_cmp.contained_by(self.mh1_cmp)', 'return self.mh2.contained_by(self.mh1_cmp)'),
 'S11-num-comparison-default-num-of-mh1': lambda: sub(SC, 'self.cmp_num = min(self.mh1.num, self.mh2.num)', 'self.cmp_num = self.mh1.num'),
 'S12-sig-similarity-swaps-flags': lambda: sub(SG, 'other.minhash, ignore_abundance=ignore_abundance, downsample=downsample', 'other.minhash, ignore_abundance=downsample, downsample=ignore_abundance'),
 'S13-avg_containment-second-call-drops-flag': lambda: sub(PY, 'c2 = other.contained_by(self, downsample)', 'c2 = other.contained_by(self)'),
 'S14-frozen-flatten-keeps-frozen-abund-copy': lambda: sub(PY, """        flat_mh = MinHash.flatten(self)
        flat_mh.into_frozen()
        return flat_mh""", """        flat_mh = MinHash.flatten(self)
        flat_mh.into_frozen()
        return flat_mh if len(self) else self"""),
}
which = sys.argv[1:] or list(MUTS)
env = dict(os.environ, VERIF_REPO=WT, VERIF_BUILD=V+'/.build_wt', VERIF_EVIDENCE=V+'/.build_wt/evidence')
for name in which:
    subprocess.run(['git','checkout','--','.'],cwd=WT,check=True)
    MUTS[name]()
    r = subprocess.run(['./check','C05','--tier','quick'],cwd=V,env=env,stdout=subprocess.PIPE,stderr=subprocess.DEVNULL,text=True)
    t = subprocess.run(['/venv/bin/python','-m','pytest','tests/test_minhash.py','tests/test_signature.py','tests/test_sketchcomparison.py','tests/test_jaccard.py','tests/test_compare.py','-q','-p','no:cacheprovider','-n','8','-x'],
                       cwd=WT, env=dict(os.environ, PYTHONPATH=V+'/.build_wt/pkg:tests'), stdout=subprocess.PIPE, stderr=subprocess.STDOUT, text=True)
    print(f'== {name}: check exit {r.returncode}; project tests: {t.stdout.strip().splitlines()[-1][:80]}')
    for l in r.stdout.splitlines():
        if l.startswith('VIOLATION'):
            print('   ', re.sub(r'replay=\S+ ', '', l)[:260])
    sys.stdout.flush()
subprocess.run(['git','checkout','--','.'],cwd=WT,check=True)
