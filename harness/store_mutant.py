#!/usr/bin/env python3
"""harness/store_mutant.py <id> <confirm-output-file> <check result text>: copy a delivered mutant into seeded/<id>/"""
import json, os, shutil, sys
mid, conf_file, result = sys.argv[1], sys.argv[2], sys.argv[3]
src = f'/var/tmp/mutants/{mid}'
dst = f'/verif/seeded/{mid}'
os.makedirs(dst, exist_ok=True)
for f in ('patch.diff', 'demo.py'):
    shutil.copy(os.path.join(src, f), os.path.join(dst, f))
meta = json.load(open(os.path.join(src, 'meta.json')))
conf = [l.strip() for l in open(conf_file) if l.startswith(mid + ':')]
out = {'breaks_property': meta.get('property'), 'what': meta.get('what'), 'needs': meta.get('needs'), 'author_ran': meta.get('ran'),
       'confirmed_independently': 'harness/confirm_mutant.sh (scratch worktree of /repo HEAD; project suite vs BASELINE stable list; demo with/without): ' + (conf[0] if conf else 'NOT CONFIRMED'),
       'check_result': result, 'how_run': f'harness/run_mutant.sh seeded/{mid} <check id>   (scratch worktree; equivalent to git -C /repo apply + ./check + git -C /repo checkout -- .)'}
json.dump(out, open(os.path.join(dst, 'meta.json'), 'w'), indent=1)
print('stored', mid)
