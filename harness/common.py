"""Shared machinery for every property check.

A check (harness/props/Cxx.py) does, in this order:
  1. build the importable package from /repo's working tree (build_repo)
  2. run the translator (translate.py) -> lean/SmVerif/Model/Generated*.lean
  3. lake build the property's Props module, audit `#print axioms`
  4. correspondence: generated op files -> real code (adapter subprocess) and
     Lean model (`lake env lean --run Main.lean <module>`), diff line by line
  5. property oracle on the implementation's observations
  6. failing-input search when 3 or 4 broke
  7. verdict (+ known findings), evidence file
"""
import hashlib
import json
import os
import random
import re
import subprocess
import sys
import time

VERIF = os.path.dirname(os.path.dirname(os.path.abspath(__file__)))
LEAN = os.path.join(VERIF, "lean")
REPO = os.environ.get("VERIF_REPO", "/repo")
BUILD = os.environ.get("VERIF_BUILD", os.path.join(VERIF, ".build"))
EVIDENCE = os.environ.get("VERIF_EVIDENCE", os.path.join(VERIF, "evidence"))   # mutant runs write elsewhere
PY = "/venv/bin/python"
ALLOWED_AXIOMS = {"propext", "Classical.choice", "Quot.sound"}
FORBIDDEN = re.compile(r"\b(sorry|admit|native_decide|bv_decide|implemented_by|unsafe )\b|^axiom |maxHeartbeats 0")

sys.path.insert(0, os.path.join(VERIF, "harness"))


def log(*a):
    print("[verif]", *a, file=sys.stderr, flush=True)


class ToolFailure(Exception):
    """infrastructure failure: exit 2, not a verdict"""


# --------------------------------------------------------------------------
# build steps

def build_pkg():
    import build_repo
    return build_repo.build()


def run_translator():
    """regenerate Generated*.lean from the source; returns (ok, report dict)"""
    import translate
    return translate.run()


_lake_lock = None


def _lake(args, timeout=3600):
    import fcntl
    os.makedirs(BUILD, exist_ok=True)
    with open(os.path.join(BUILD, ".lake.lock"), "w") as lk:
        fcntl.flock(lk, fcntl.LOCK_EX)
        try:
            return subprocess.run(["lake"] + args, cwd=LEAN, stdout=subprocess.PIPE,
                                  stderr=subprocess.STDOUT, text=True, timeout=timeout)
        finally:
            fcntl.flock(lk, fcntl.LOCK_UN)


def lean_build(targets):
    r = _lake(["build"] + targets)
    return r.returncode == 0, r.stdout


def strip_comments(src):
    # remove /- ... -/ (nested not handled beyond one level of care) and -- comments
    out = []
    i = 0
    depth = 0
    n = len(src)
    while i < n:
        if src.startswith("/-", i):
            depth += 1
            i += 2
        elif src.startswith("-/", i) and depth > 0:
            depth -= 1
            i += 2
        elif depth > 0:
            if src[i] == "\n":
                out.append("\n")
            i += 1
        elif src.startswith("--", i):
            while i < n and src[i] != "\n":
                i += 1
        else:
            out.append(src[i])
            i += 1
    return "".join(out)


def props_theorems(prop_id):
    """names (fully qualified) and line numbers of the theorems of Props/<id>.lean"""
    path = os.path.join(LEAN, "SmVerif", "Props", prop_id + ".lean")
    src = strip_comments(open(path).read())
    ns = []
    res = []
    for ln, line in enumerate(src.split("\n"), 1):
        m = re.match(r"\s*namespace\s+(\S+)", line)
        if m:
            ns.append(m.group(1))
            continue
        m = re.match(r"\s*end\s+(\S+)", line)
        if m and ns and ns[-1] == m.group(1):
            ns.pop()
            continue
        m = re.match(r"\s*(?:@\[[^\]]*\]\s*)?(?:protected\s+|private\s+)?theorem\s+(\S+)", line)
        if m:
            res.append((".".join(ns + [m.group(1)]), ln))
    return res


def lean_closure_files(prop_id):
    """Lean source files the property's Props module depends on (transitively, within SmVerif)"""
    seen = []
    todo = ["SmVerif.Props." + prop_id]
    while todo:
        mod = todo.pop()
        path = os.path.join(LEAN, *mod.split(".")) + ".lean"
        if path in seen or not os.path.exists(path):
            continue
        seen.append(path)
        for m in re.finditer(r"^import\s+(SmVerif\.\S+)", open(path).read(), re.M):
            todo.append(m.group(1))
    return seen


def lean_audit(prop_id):
    """Build Props/<id>, print axioms of every theorem in it.

    returns dict(obligations, discharged, theorems={name: {ok, axioms, why}}, log)"""
    thms = props_theorems(prop_id)
    rep = {"obligations": len(thms), "discharged": 0, "theorems": {}, "log": "", "forbidden": []}
    # forbidden constructs anywhere in the closure (outside comments)
    for f in lean_closure_files(prop_id):
        src = strip_comments(open(f).read())
        for ln, line in enumerate(src.split("\n"), 1):
            if FORBIDDEN.search(line):
                rep["forbidden"].append(f"{os.path.relpath(f, LEAN)}:{ln}: {line.strip()[:120]}")
    ok, out = lean_build(["SmVerif.Props." + prop_id])
    rep["log"] = out[-6000:]
    if ok:
        os.makedirs(os.path.join(BUILD, "audit"), exist_ok=True)
        af = os.path.join(BUILD, "audit", prop_id + ".lean")
        with open(af, "w") as f:
            f.write(f"import SmVerif.Props.{prop_id}\n")
            for name, _ in thms:
                f.write(f"#print axioms {name}\n")
        r = _lake(["env", "lean", af])
        text = r.stdout
        rep["log"] += text[-4000:]
        for name, _ in thms:
            m = re.search(r"'" + re.escape(name) + r"' depends on axioms: \[([^\]]*)\]", text, re.S)
            if m:
                ax = [a.strip() for a in m.group(1).replace("\n", " ").split(",") if a.strip()]
            elif re.search(r"'" + re.escape(name) + r"' does not depend on any axioms", text):
                ax = []
            else:
                rep["theorems"][name] = {"ok": False, "axioms": None, "why": "not found by #print axioms"}
                continue
            bad = [a for a in ax if a not in ALLOWED_AXIOMS]
            rep["theorems"][name] = {"ok": not bad, "axioms": ax,
                                     "why": ("disallowed axioms " + ",".join(bad)) if bad else ""}
    else:
        # which theorems broke?  elaborate the Props file directly and map error lines
        path = os.path.join("SmVerif", "Props", prop_id + ".lean")
        r = _lake(["env", "lean", path])
        text = r.stdout
        rep["log"] += "\n--- direct elaboration ---\n" + text[-6000:]
        err_lines = [int(m.group(1)) for m in re.finditer(re.escape(path) + r":(\d+):\d+: error", text)]
        import_broken = bool(re.search(r"error: .*(unknown module|object file|does not exist)", text)) or \
            (not err_lines and r.returncode != 0)
        bounds = [ln for _, ln in thms] + [10 ** 9]
        for i, (name, ln) in enumerate(thms):
            broken = import_broken or any(ln <= e < bounds[i + 1] for e in err_lines)
            rep["theorems"][name] = {"ok": not broken, "axioms": None,
                                     "why": "does not elaborate against the regenerated model" if broken else
                                     "elaborates, but the module as a whole failed to build"}
    if rep["forbidden"]:
        for name in rep["theorems"]:
            rep["theorems"][name]["ok"] = False
            rep["theorems"][name]["why"] = "forbidden construct in closure: " + rep["forbidden"][0]
    rep["discharged"] = sum(1 for t in rep["theorems"].values() if t["ok"])
    return rep


# --------------------------------------------------------------------------
# correspondence

def run_model(module, text, timeout=3600):
    r = subprocess.run(["lake", "env", "lean", "--run", "Main.lean", module], cwd=LEAN, input=text,
                       stdout=subprocess.PIPE, stderr=subprocess.PIPE, text=True, timeout=timeout)
    if r.returncode != 0:
        raise ToolFailure(f"model driver failed ({module}): {r.stderr[-2000:]}")
    return r.stdout.split("\n")[:-1]


def run_impl(adapter, text, pkg, timeout=3600, extra_env=None):
    env = dict(os.environ, PYTHONPATH=pkg + os.pathsep + os.path.join(VERIF, "harness"),
               PYTHONHASHSEED="0", SOURMASH_VERIF="1")
    if extra_env:
        env.update(extra_env)
    r = subprocess.run([PY, os.path.join(VERIF, "harness", "adapters", adapter)], input=text, env=env,
                       stdout=subprocess.PIPE, stderr=subprocess.PIPE, text=True, timeout=timeout)
    return r.returncode, r.stdout.split("\n")[:-1], r.stderr


def split_cases(lines):
    """group a flat list of lines into cases at lines starting with '#'"""
    cases = []
    cur = None
    for l in lines:
        if l.startswith("#"):
            cur = []
            cases.append(cur)
        elif cur is not None:
            cur.append(l)
    return cases


def par_map(fn, chunks, procs=None):
    """run fn over chunks in a process pool"""
    import multiprocessing as mp
    procs = procs or min(16, max(1, len(chunks)))
    if procs == 1 or len(chunks) == 1:
        return [fn(c) for c in chunks]
    with mp.get_context("fork").Pool(procs) as p:
        return p.map_async(fn, chunks).get(timeout=int(os.environ.get('VERIF_POOL_TIMEOUT', '7200')))


# --------------------------------------------------------------------------
# known findings

def load_known(prop_id):
    p = os.path.join(VERIF, "known_findings.json")
    if not os.path.exists(p):
        return []
    return [k for k in json.load(open(p))["findings"] if k["property"] == prop_id]


# --------------------------------------------------------------------------
# context / verdict / evidence

class Check:
    def __init__(self, prop_id, trusted_base, assumptions=None):
        self.id = prop_id
        self.tier = os.environ.get("VERIF_TIER") or "quick"
        if "--tier" in sys.argv:
            self.tier = sys.argv[sys.argv.index("--tier") + 1]
        if self.tier not in ("quick", "thorough"):
            self.tier = "quick"
        self.seed = int(os.environ.get("VERIF_SEED", "0") or 0)
        self.rng = random.Random(f"{prop_id}-{self.seed}")
        self.t0 = time.time()
        self.trusted_base = list(trusted_base)
        self.assumptions = list(assumptions or [])
        self.cov = {"evaluations": 0, "distinct_nontrivial": 0, "rule": "", "samples": [],
                    "traces_validated_against_impl": 0}
        self.violations = []      # dicts: kind, signature, what, replay-data
        self.audit = None
        self.translator = None
        self.replay = None
        if "--replay" in sys.argv:
            self.replay = sys.argv[sys.argv.index("--replay") + 1]
        os.makedirs(os.path.join(EVIDENCE, "replays"), exist_ok=True)

    # ---- steps -----------------------------------------------------------
    def build(self):
        try:
            self.pkg = build_pkg()
        except SystemExit:
            self.exit_tool("build of /repo working tree failed")
        return self.pkg

    def translate(self):
        ok, rep = run_translator()
        self.translator = rep
        for f in rep.get("failed", []):
            sv = f.get("serves")
            if sv is None or self.id in sv:
                self.violations.append({
                    "kind": "translator", "signature": f"translator:{f['extractor']}:{f['what']}",
                    "what": f"translator no longer recognises the source shape ({f['extractor']}/{f['what']}): {f['why'][:300]}",
                    "data": f, "concrete": False})
        if rep.get("failed_hard"):
            self.violations.append({
                "kind": "translator", "signature": "translator:" + rep["failed_hard"],
                "what": "translator failed and no previous section exists: " + rep.get("why", ""),
                "data": rep, "concrete": False})
        return ok

    def prove(self):
        self.audit = lean_audit(self.id)
        a = self.audit
        for name, t in a["theorems"].items():
            if not t["ok"]:
                self.violations.append({
                    "kind": "proof", "signature": "proof:" + name,
                    "what": f"theorem {name} no longer checks: {t['why']}",
                    "data": {"theorem": name, "why": t["why"], "log": a["log"][-3000:]},
                    "concrete": False})
        if a["obligations"] == 0:
            self.exit_tool("no theorems found for " + self.id)
        ok, out = lean_build(["SmVerif.Drivers"])     # the executable model + drivers
        if not ok:
            self.exit_tool("model drivers do not build: " + out[-1500:])
        return a["discharged"] == a["obligations"]

    def add_violation(self, kind, signature, what, data, concrete=True):
        self.violations.append({"kind": kind, "signature": signature, "what": what,
                                "data": data, "concrete": concrete})

    # ---- finish ----------------------------------------------------------
    def exit_tool(self, why):
        log("TOOL FAILURE:", why)
        print(f"TOOL-FAILURE property={self.id} {why}")
        sys.exit(2)

    def finish(self):
        known = load_known(self.id)
        unknown = []
        known_hit = {}
        for v in self.violations:
            hit = None
            for k in known:
                if k.get("status") == "known" and k["signature"] == v["signature"]:
                    hit = k
                    break
            if hit is not None:
                known_hit.setdefault(hit["signature"], (hit, v))
            else:
                unknown.append(v)
        for sig, (k, v) in known_hit.items():
            print(f"KNOWN-FINDING: property={self.id} {k['id']} {k['what']}")
        # de-duplicate unknown by signature, concrete first
        unknown.sort(key=lambda v: (not v["concrete"], v["signature"]))
        seen = set()
        uniq = []
        for v in unknown:
            if v["signature"] in seen:
                continue
            seen.add(v["signature"])
            uniq.append(v)
        any_concrete = any(v["concrete"] for v in uniq)
        n = 0
        for v in uniq:
            n += 1
            rp = os.path.join(EVIDENCE, "replays", f"{self.id}-{n}.json")
            with open(rp, "w") as f:
                json.dump({"property": self.id, "kind": v["kind"], "signature": v["signature"],
                           "what": v["what"], "seed": self.seed, "tier": self.tier,
                           "replay_cmd": f"./check {self.id} --replay {os.path.relpath(rp, VERIF)}",
                           "data": v["data"]}, f, indent=1, default=str)
            tail = "" if v["concrete"] else " no-failing-input-found"
            print(f"VIOLATION property={self.id} replay={rp} [{v['signature']}] {v['what'][:300]}{tail}")
        self.write_evidence(len(uniq), known_hit)
        sys.exit(1 if uniq else 0)

    def write_evidence(self, nviol, known_hit):
        a = self.audit or {"obligations": 0, "discharged": 0, "theorems": {}}
        cov = dict(self.cov)
        cov["samples"] = cov["samples"][:8]
        cov.update({
            "obligations": a["obligations"],
            "discharged": a["discharged"],
            "checker_cmd": f"cd lean && lake build SmVerif.Props.{self.id} && lake env lean .build/audit/{self.id}.lean  (#print axioms on every theorem of Props/{self.id}.lean)",
            "trusted_base": self.trusted_base,
            "theorems": {k: (v["axioms"] if v["ok"] else "FAILED: " + v["why"]) for k, v in a["theorems"].items()},
            "translator": self.translator,
            "known_findings_reported": sorted(known_hit),
        })
        ev = {"property_id": self.id, "tier": self.tier, "seed": self.seed, "level": "proof",
              "coverage": cov, "assumptions": self.assumptions,
              "wall_s": round(time.time() - self.t0, 2), "violations": nviol}
        with open(os.path.join(EVIDENCE, self.id + ".json"), "w") as f:
            json.dump(ev, f, indent=1, default=str)


def md5_of_pre(ksize, mins):
    h = hashlib.md5()
    h.update(str(ksize).encode())
    for m in mins:
        h.update(str(m).encode())
    return h.hexdigest()
