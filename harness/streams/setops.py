"""The `setops` correspondence stream (C04): random operation TREES over 2-5 leaf
hash multisets, every node evaluated through one or more routes:

  Python operators   u.add (+)  u.or (|)  u.iadd (+=)  i.and (&)
  API methods        u.merge  u.addmany  i.meth  s.rm  s.rmlist  f.meth  n.meth  d meth|nmeth
  sub-commands       u.cli  i.cli  s.cli  f.cli  n.cli  t.cli  d cli|ncli     (`sourmash sig ...`)
                     each optionally with a route suffix: `+k` = every operand file also holds decoy signatures
                     (DNA k=31, protein k=7, dayhoff k=7) and the sub-command is given `-k 21 --dna`;
                     `+f` = operands (all but the first of merge / intersect) are passed through `--from-file`;
                     `+kf` = both.  The suffix changes how the operands reach the sub-command, not the operation.

SELF-ALIASED operands: ~12% of the binary nodes use one handle for both operands (`a + a`, `a | a`, `a & a`,
`a.intersection(a)`, `sig merge f.sig f.sig`, `sig intersect f.sig f.sig`, `sig subtract f.sig f.sig`, ...: the adapter
passes the same Python object / the same file twice), and the in-place forms `u.merge.self` (`x.merge(x)`),
`u.iadd.self` (`x += x`), `u.addmany.self` (`x.add_many(x)`), `s.rm.self` (`x.remove_many(x)`) apply an operation to a
fresh mutable copy x of the operand with x itself as the argument.  The model has value semantics (op(x, x) =
op(x, copy(x))); the oracle reports a wrong result under `C04:<kind>:self-aliased`.

Leaves are related as overlapping / nested / disjoint / empty / identical; thresholds are
equal or unequal; abundance modes equal or mixed; some operands are frozen.

The oracle (`oracle`) is written from the property statement: every handle carries the
*underlying data* (a `collections.Counter` over all 64-bit hashes, computed from the leaf
multisets by plain Counter/set algebra, never restricted); whatever sketch an operation
returns must be the sketch, at the parameters it reports, of that data.
"""
import os
import sys
from collections import Counter

sys.path.insert(0, os.path.dirname(os.path.dirname(os.path.abspath(__file__))))
from streams.mh import mh_for_scaled, parse_show, U64  # noqa: E402

MODULE = "setops"
ADAPTER = "setops_impl.py"

SCALED_POOL = [1, 2, 3, 7, 10, 93, 100, 1000, 2 ** 20]
NUM_POOL = [1, 2, 3, 5, 8]
ABUND_POOL = [1, 1, 2, 2, 3, 5, 7, 2 ** 32]

UNION = ["u.add", "u.or", "u.iadd", "u.merge", "u.cli"]
INTER = ["i.and", "i.meth", "i.cli"]


def canon(line):
    """the op line without its route suffix (`u.cli+kf 7 0 1 2` -> `u.cli 7 0 1 2`, `d cli+k 3 1 10` -> `d cli 3 1 10`)"""
    w = line.split(" ")
    if w and w[0] == "d" and len(w) > 1:
        w[1] = w[1].split("+")[0]
    elif w:
        w[0] = w[0].split("+")[0]
    return " ".join(w)


def route_suffix(rng, from_file_ok):
    """~40% of the sub-command calls take another route to the same core"""
    if rng.random() < 0.6:
        return ""
    return rng.choice(["+k", "+f", "+kf"] if from_file_ok else ["+k"])


def py_scaled_of(mh):
    """Python `.scaled` of a max_hash (`_get_scaled_for_max_hash`)"""
    if mh == 0:
        return 0
    return int(round(U64 / mh, 0))


def gen_case(rng, flavour):
    """flavour in {'scaled', 'mixed', 'num', 'cli'}"""
    lines = []
    is_num = flavour == "num"
    S = 0 if is_num else rng.choice(SCALED_POOL)
    N = rng.choice(NUM_POOL) if is_num else 0
    M = mh_for_scaled(S)
    cli_w = {"scaled": 0.25, "mixed": 0.25, "num": 0.25, "cli": 0.7}[flavour]
    unequal = flavour in ("mixed", "cli") and rng.random() < 0.6
    track0 = rng.random() < 0.5
    # hash universe, biased to the boundaries
    pool = set()
    n_pool = rng.randint(5, 14)
    cands = [0, 1, 2, U64, U64 - 1, 2 ** 63, 2 ** 63 - 1]
    if not is_num:
        cands += [M, M - 1, M + 1, M // 2, M // 2 + 1, M // 3]
    while len(pool) < n_pool:
        r = rng.random()
        if r < 0.25:
            v = rng.choice(cands)
        elif r < 0.8 and not is_num:
            v = rng.randint(0, max(M, 1))
        elif r < 0.85:
            v = rng.randint(0, 60)
        else:
            v = rng.randint(0, U64)
        if 0 <= v <= U64:
            pool.add(v)
    pool = sorted(pool)

    meta = {}           # handle -> dict(num, sc, tr) predicted
    nxt = [0]

    def fresh():
        nxt[0] += 1
        return nxt[0] - 1

    # ---- leaves
    n_leaves = rng.randint(2, 5)
    leaves = []
    prev = None
    used = set()
    for i in range(n_leaves):
        pat = rng.choice(["overlap"] * 4 + ["nested"] * 2 + ["disjoint"] * 2 + ["empty", "same"])
        if pat == "overlap" or prev is None and pat in ("nested", "same"):
            hs = [h for h in pool if rng.random() < 0.7]
        elif pat == "nested":
            hs = [h for h in prev if rng.random() < 0.7]
        elif pat == "disjoint":
            hs = [h for h in pool if h not in used and rng.random() < 0.7]
        elif pat == "same":
            hs = list(prev)
        else:
            hs = []
        used |= set(hs)
        prev = hs
        tr = track0 if rng.random() < (0.9 if flavour == "scaled" else 0.6) else (not track0)
        sc, nm = S, N
        if unequal and rng.random() < 0.4:
            if is_num:
                nm = rng.choice(NUM_POOL)
            else:
                sc = rng.choice([S * 2, max(1, S // 2), S + 1, rng.choice(SCALED_POOL)])
        elif is_num and rng.random() < 0.15:
            nm = rng.choice(NUM_POOL)
        h = fresh()
        order = list(hs)
        rng.shuffle(order)
        if tr and rng.random() < 0.5:
            lines.append(f"leafab {h} {nm} {sc} " + " ".join(f"{x}:{rng.choice(ABUND_POOL)}" for x in order))
        else:
            multi = []
            for x in order:
                multi += [x] * rng.choice([1, 1, 1, 2, 3])
            rng.shuffle(multi)
            lines.append(f"leaf {h} {nm} {sc} {int(tr)} " + " ".join(map(str, multi)))
        meta[h] = {"num": nm, "sc": sc, "tr": tr}
        if rng.random() < 0.3:
            f = fresh()
            lines.append(f"freeze {f} {h}")
            meta[f] = dict(meta[h])
            h = f
        leaves.append(h)

    def compat(a, b):
        return meta[a]["num"] == meta[b]["num"] and meta[a]["sc"] == meta[b]["sc"]

    def emit(line, r, m, ok):
        lines.append(line)
        if ok:
            meta[r] = m
        return r if ok else None

    def pick_abund(like):
        c = [h for h in meta if meta[h]["tr"] and meta[h]["sc"] == meta[like]["sc"] and meta[h]["num"] == 0]
        return rng.choice(c) if c and rng.random() < 0.9 else None

    def node(depth):
        if depth <= 0 or rng.random() < 0.2 or nxt[0] > 120:
            return rng.choice(leaves)
        kind = rng.choices(["union", "inter", "sub", "flat", "inflate", "filter", "down"],
                           weights=[30, 20, 15, 8, 2 if is_num else 12, 7, 8])[0]
        cli = rng.random() < cli_w
        alt = rng.random() < 0.5
        a = node(depth - 1)
        if kind in ("union", "inter", "sub", "inflate"):
            b = a if rng.random() < 0.12 else node(depth - 1)
        ma = meta[a]
        if kind == "union":
            mb = meta[b]
            routes = list(UNION) + ["u.addmany"]
            first = "u.cli" if cli else rng.choice(UNION[:4])
            res = None
            for k, route in enumerate([first] + ([x for x in routes if x != first] if alt else [])):
                r = fresh()
                if route == "u.cli":
                    fl = int(rng.random() < 0.3 or (ma["tr"] != mb["tr"] and rng.random() < 0.7))
                    extra = []
                    if rng.random() < 0.3:
                        extra = [rng.choice(leaves)]
                    ops = [a, b] + extra
                    ok = all(compat(a, x) for x in ops) and (fl or all(meta[x]["tr"] == ma["tr"] for x in ops))
                    m = {"num": ma["num"], "sc": ma["sc"], "tr": ma["tr"] and not fl}
                    # an n-ary merge is a different node: only use it as the primary value
                    if extra and k > 0:
                        ops = [a, b]
                        ok = compat(a, b) and (fl or mb["tr"] == ma["tr"])
                    got = emit(f"u.cli{route_suffix(rng, True)} {r} {fl} " + " ".join(map(str, ops)), r, m, ok)
                else:
                    got = emit(f"{route} {r} {a} {b}", r, dict(ma), compat(a, b))
                if k == 0:
                    res = got
            if a == b or rng.random() < 0.15:
                for route in rng.sample(["u.merge.self", "u.iadd.self", "u.addmany.self"], rng.randint(1, 3)):
                    r = fresh()
                    emit(f"{route} {r} {a}", r, dict(ma), True)
            return res if res is not None else a
        if kind == "inter":
            if not cli:
                # `&` is defined on flat sketches: flatten abundance operands first (mostly)
                for which in (0, 1):
                    x = (a, b)[which]
                    if meta[x]["tr"] and rng.random() < 0.85:
                        r0 = fresh()
                        emit(f"f.meth {r0} {x}", r0, {"num": meta[x]["num"], "sc": meta[x]["sc"], "tr": False}, True)
                        if which == 0:
                            a = r0
                        else:
                            b = r0
                ma = meta[a]
            mb = meta[b]
            flat_ok = not ma["tr"] and not mb["tr"]
            first = "i.cli" if cli or not flat_ok else rng.choice(INTER[:2])
            res = None
            for k, route in enumerate([first] + ([x for x in INTER if x != first] if alt else [])):
                r = fresh()
                if route == "i.cli":
                    ab = pick_abund(a) if rng.random() < 0.3 else None
                    extra = [rng.choice(leaves)] if (k == 0 and rng.random() < 0.3) else []
                    ops = [a, b] + extra
                    ok = all(compat(a, x) for x in ops)
                    m = {"num": ma["num"], "sc": ma["sc"], "tr": ab is not None}
                    got = emit(f"i.cli{route_suffix(rng, True)} {r} {'-' if ab is None else ab} " + " ".join(map(str, ops)), r, m, ok)
                else:
                    got = emit(f"{route} {r} {a} {b}", r, {"num": ma["num"], "sc": ma["sc"], "tr": False},
                               flat_ok and compat(a, b))
                if k == 0:
                    res = got
            return res if res is not None else a
        if kind == "sub":
            mb = meta[b]
            first = "s.cli" if cli else rng.choice(["s.rm", "s.rmlist"])
            res = None
            for k, route in enumerate([first] + ([x for x in ("s.rm", "s.rmlist", "s.cli") if x != first] if alt else [])):
                r = fresh()
                if route == "s.cli":
                    fl = int(rng.random() < 0.4 or ((ma["tr"] or mb["tr"]) and rng.random() < 0.7))
                    ab = pick_abund(a) if rng.random() < 0.25 else None
                    extra = [rng.choice(leaves)] if (k == 0 and rng.random() < 0.3) else []
                    ops = [b] + extra
                    ok = all(compat(a, x) for x in ops) and (fl or ab is not None or
                                                             not any(meta[x]["tr"] for x in [a] + ops))
                    m = {"num": ma["num"], "sc": ma["sc"], "tr": ab is not None}
                    got = emit(f"s.cli{route_suffix(rng, False)} {r} {fl} {'-' if ab is None else ab} {a} " + " ".join(map(str, ops)), r, m, ok)
                else:
                    got = emit(f"{route} {r} {a} {b}", r, dict(ma), True)
                if k == 0:
                    res = got
            if a == b or rng.random() < 0.1:
                r = fresh()
                emit(f"s.rm.self {r} {a}", r, dict(ma), True)
            return res if res is not None else a
        if kind == "flat":
            first = "f.cli" if cli else "f.meth"
            res = None
            for k, route in enumerate([first] + (["f.meth" if first == "f.cli" else "f.cli"] if alt else [])):
                r = fresh()
                rname = route + (route_suffix(rng, True) if route == "f.cli" else "")
                got = emit(f"{rname} {r} {a}", r, {"num": ma["num"], "sc": ma["sc"], "tr": False}, True)
                if k == 0:
                    res = got
            return res
        if kind == "inflate":
            # a: flat sketch to inflate, b: abundance source
            if not meta[b]["tr"] and rng.random() < 0.8:
                c = [h for h in meta if meta[h]["tr"]]
                if c:
                    b = rng.choice(c)
            if ma["tr"] and rng.random() < 0.8:
                r0 = fresh()
                emit(f"f.meth {r0} {a}", r0, {"num": ma["num"], "sc": ma["sc"], "tr": False}, True)
                a = r0
                ma = meta[a]
            mb = meta[b]
            first = "n.cli" if cli else "n.meth"
            res = None
            for k, route in enumerate([first] + (["n.meth" if first == "n.cli" else "n.cli"] if alt else [])):
                r = fresh()
                ok = (not ma["tr"]) and mb["tr"] and ma["num"] == 0 and mb["num"] == 0 and ma["sc"] >= mb["sc"]
                m = {"num": 0, "sc": mb["sc"], "tr": True}
                if route == "n.cli":
                    got = emit(f"n.cli{route_suffix(rng, False)} {r} {b} {a}", r, m, ok)
                else:
                    got = emit(f"n.meth {r} {a} {b}", r, m, ok)
                if k == 0:
                    res = got
            return res if res is not None else a
        if kind == "filter":
            r = fresh()
            mn = rng.choice([0, 1, 1, 2, 2, 3, 5])
            mx = rng.choice(["-", "-", 1, 2, 3, 5, 2 ** 32])
            got = emit(f"t.cli{route_suffix(rng, False)} {r} {a} {mn} {mx}", r, dict(ma), ma["tr"])
            return got if got is not None else a
        # downsample
        res = None
        if ma["num"] == 0:
            v = rng.choice([ma["sc"], ma["sc"] * 2, ma["sc"] * 3 + 1, ma["sc"] + 1, max(1, ma["sc"] // 2), 2 ** 20])
            first = "cli" if cli else "meth"
            for k, route in enumerate([first] + (["meth" if first == "cli" else "cli"] if alt else [])):
                r = fresh()
                rname = route + (route_suffix(rng, True) if route == "cli" else "")
                got = emit(f"d {rname} {r} {a} {v}", r, {"num": 0, "sc": v, "tr": ma["tr"]}, v >= ma["sc"])
                if k == 0:
                    res = got
            if rng.random() < 0.15:
                r = fresh()
                emit(f"d ncli {r} {a} {rng.choice([1, 2, 3, 5])}", r, ma, False)
        else:
            v = rng.choice([ma["num"], max(1, ma["num"] - 1), 1, 2, ma["num"] + 1])
            first = "ncli" if cli else "nmeth"
            for k, route in enumerate([first] + (["nmeth" if first == "ncli" else "ncli"] if alt else [])):
                r = fresh()
                rname = route + (route_suffix(rng, True) if route == "ncli" else "")
                got = emit(f"d {rname} {r} {a} {v}", r, {"num": v, "sc": 0, "tr": ma["tr"]}, v <= ma["num"])
                if k == 0:
                    res = got
            if rng.random() < 0.15:
                r = fresh()
                emit(f"d cli {r} {a} {rng.choice([1, 2, 3, 1000, 2 ** 20, 2 ** 31, 10 ** 18])}", r, ma, False)
        return res if res is not None else a

    for _ in range(rng.choice([1, 2, 2, 3])):
        node(rng.randint(2, 4))
    return lines


# --------------------------------------------------------------------------
# the property oracle

class Exp:
    """what a handle must be: parameters, underlying data (exact) or, where the data is not
    recoverable (num sketches after a lossy operation), the sketch content itself"""

    def __init__(self, num, mh, track, U, exact=True):
        self.num, self.mh, self.track = num, mh, track
        self.U = Counter({h: c for h, c in U.items() if c > 0})
        self.exact = exact      # U is the underlying data (True) or only the sketch content (False)

    def view(self, num=None, mh=None, track=None):
        num = self.num if num is None else num
        mh = self.mh if mh is None else mh
        track = self.track if track is None else track
        keys = sorted(h for h in self.U if (mh == 0 or h <= mh))
        if num:
            keys = keys[:num]
        return {h: (self.U[h] if track else 1) for h in keys}

    def content(self):
        return Counter(self.view())

    def dedup(self):
        return Counter({h: 1 for h in self.U})


def _obs_dict(st):
    if st["ab"] is None:
        return {h: 1 for h in st["mins"]}
    return dict(zip(st["mins"], st["ab"]))


def oracle(case, impl):
    """-> list of (op_index, signature, message)"""
    E = {}
    bad = []

    def resync(r, st, exact=False):
        E[r] = Exp(st["num"], st["mh"], st["tr"], Counter(_obs_dict(st)), exact=exact)

    def check(idx, op, kind, r, st, exp, operands, via_inflate=False, all_ops=None):
        """exp: Exp built with the *reported* num/mh; compare parameters and content.
        One problem is reported per operation (the first that applies)."""
        problem = None
        want = exp.view()
        got = _obs_dict(st)
        ths = [E[x].mh for x in operands if x in E and E[x].num == 0 and E[x].mh]
        nums = {E[x].num for x in operands if x in E}
        if st["tr"] != exp.track:
            problem = (f"C04:{kind}:abundance-mode", f"track_abundance is {st['tr']}, the operation calls for {exp.track}")
        elif st["num"] == 0 and ths and st["mh"] > min(ths) and kind != "down":
            k = "inflate" if via_inflate else kind
            problem = (f"C04:{k}:result-finer-than-operand",
                       f"the result reports max_hash {st['mh']} (scaled {st['sc']}) although an operand only retains "
                       f"hashes up to {min(ths)}: it cannot be the sketch of the data at the resolution it claims")
        elif got != want and not any(v > U64 for v in want.values()):
            miss = sorted(set(want) - set(got))[:4]
            extra = sorted(set(got) - set(want))[:4]
            diff = [(h, got[h], want[h]) for h in sorted(set(got) & set(want)) if got[h] != want[h]][:4]
            aliased = all_ops if all_ops is not None else operands
            if kind == "union" and len(nums) > 1:
                sig = "C04:union:content:num-mismatch"
            elif len(aliased) >= 2 and len(set(aliased)) < len(aliased) and kind in \
                    ("union", "addmany", "intersection", "remove", "subtraction", "inflate"):
                sig = f"C04:{kind}:self-aliased"
            elif exp.num and not exp.exact:
                sig = f"C04:{kind}:num-content"
            else:
                sig = f"C04:{kind}:content"
            problem = (sig, f"the sketch is not the sketch of the {kind} of the data at max_hash={st['mh']} num={st['num']}: "
                            f"missing {miss} unexpected {extra} wrong counts (hash, got, want) {diff}")
        if problem is not None:
            bad.append((idx, problem[0], f"`{op}` ({kind}): {problem[1]}"))
            resync(r, st)
        else:
            E[r] = exp

    for idx, (op, obs) in enumerate(zip(case, impl)):
        w = canon(op).split()
        o, a = w[0], w[1:]
        st = parse_show(obs)
        err = obs.startswith("err ")
        if obs.startswith("err ViewDisagreement"):
            # the adapter's own checks: batch vs single run of a sub-command, an earlier result that changed, two views
            what = obs[21:].replace("_", " ")
            kindv = "batch" if what.startswith("batch") else ("history" if "stored sketch changed" in what else "views")
            bad.append((idx, f"C04:{kindv}:{o if o != 'd' else 'd.' + a[0]}",
                        f"after `{op[:80]}` the implementation disagrees with itself: {what}"))
            continue
        if obs == "bad-op" or obs == "ok skipped" and o != "t.cli":
            continue
        try:
            if o in ("leaf", "leafab"):
                if st is None:
                    continue
                r = int(a[0])
                if o == "leaf":
                    data = Counter(int(x) for x in a[4:])
                else:
                    data = Counter()
                    for p in a[3:]:
                        k, v = p.split(":")
                        data[int(k)] += int(v)
                if not st["tr"]:
                    data = Counter({h: 1 for h in data})
                # the data a scaled sketch stands for is what lies below ITS threshold; keep
                # everything: a result that claims a finer resolution is checked against it
                exp = Exp(st["num"], st["mh"], st["tr"], data)
                check(idx, op, "leaf", r, st, exp, [])
                continue
            if o == "freeze":
                r, x = int(a[0]), int(a[1])
                if st is None or x not in E:
                    continue
                e = E[x]
                check(idx, op, "copy", r, st, Exp(st["num"], st["mh"], e.track, e.U, e.exact), [x])
                continue

            # ---------------- decode the operation
            kind = None
            flatten_flag = False
            ab = None
            if o.endswith(".self"):         # x.op(x) on a fresh mutable copy x of the operand
                o = o[:-5]
                a = [a[0], a[1], a[1]]
            if o in ("u.add", "u.or", "u.iadd", "u.merge", "u.addmany"):
                kind, r, ops = ("union" if o != "u.addmany" else "addmany"), int(a[0]), [int(a[1]), int(a[2])]
            elif o == "u.cli":
                kind, r, flatten_flag, ops = "union", int(a[0]), a[1] == "1", [int(x) for x in a[2:]]
            elif o in ("i.and", "i.meth"):
                kind, r, ops = "intersection", int(a[0]), [int(a[1]), int(a[2])]
            elif o == "i.cli":
                kind, r, ops = "intersection", int(a[0]), [int(x) for x in a[2:]]
                ab = None if a[1] == "-" else int(a[1])
            elif o in ("s.rm", "s.rmlist"):
                kind, r, ops = "remove", int(a[0]), [int(a[1]), int(a[2])]
            elif o == "s.cli":
                kind, r, flatten_flag, ops = "subtraction", int(a[0]), a[1] == "1", [int(x) for x in a[3:]]
                ab = None if a[2] == "-" else int(a[2])
            elif o in ("f.meth", "f.cli"):
                kind, r, ops = "flatten", int(a[0]), [int(a[1])]
            elif o == "n.meth":
                kind, r, ops = "inflate", int(a[0]), [int(a[1]), int(a[2])]
            elif o == "n.cli":
                kind, r, ops = "inflate", int(a[0]), [int(a[2]), int(a[1])]     # (flat, source)
            elif o == "t.cli":
                kind, r, ops = "filter", int(a[0]), [int(a[1])]
            elif o == "d":
                kind, r, ops = "down", int(a[1]), [int(a[2])]
            else:
                continue
            if any(x not in E for x in ops) or (ab is not None and ab not in E):
                continue
            X = [E[x] for x in ops]
            A = X[0]
            allx = X + ([E[ab]] if ab is not None else [])
            same_params = all(x.num == A.num and x.mh == A.mh for x in X)
            via_cli = o.endswith(".cli") or (o == "d" and a[0] in ("cli", "ncli"))

            # ---------------- documented refusals
            refuse = None
            if kind == "union":
                if not same_params:
                    # unequal scaled / num may always be refused (`+`/`|` refuse unequal num, merge / += /
                    # sig merge currently do not: then the content check below decides)
                    refuse = "operands with different scaled / num values"
                if o == "u.cli" and not flatten_flag and any(x.track != A.track for x in X):
                    refuse = "sig merge of mixed abundance modes without --flatten"
            elif kind == "intersection":
                if not same_params and any(x.mh != A.mh for x in X):
                    refuse = "operands with different scaled values"
                if o != "i.cli" and any(x.track for x in X):
                    refuse = "intersection is defined on flat sketches"
                if ab is not None and (not E[ab].track or E[ab].num or A.num or E[ab].mh != A.mh):
                    refuse = "-A signature without abundances / at another scaled / num"
            elif kind == "subtraction":
                if any(x.mh != A.mh for x in X):
                    refuse = "operands with different scaled values"
                if any(x.track for x in X) and not flatten_flag and ab is None:
                    refuse = "sig subtract on abundance signatures without --flatten"
                if ab is not None and (not E[ab].track or E[ab].num or A.num or E[ab].mh != A.mh):
                    refuse = "-A signature without abundances / at another scaled / num"
            elif kind == "inflate":
                F, Sx = X
                if F.track or not Sx.track:
                    refuse = "inflate takes a flat sketch and an abundance sketch"
                elif F.num or Sx.num:
                    refuse = "inflate is defined on scaled sketches"
                elif F.mh != Sx.mh:
                    refuse = "sketch and abundance source at different scaled values"
            elif kind == "filter":
                if not A.track:
                    refuse = "skip"
            elif kind == "down":
                v = int(a[3])
                if a[0] in ("meth", "cli"):
                    if A.num and a[0] == "meth":
                        refuse = "cannot downsample a num sketch using scaled"
                    elif A.num:
                        mins = sorted(A.view())
                        if not mins or max(mins) < mh_py(v):
                            refuse = "num sketch does not reach the requested threshold"
                        elif v > 2 ** 31:
                            refuse = "scaled above 2^31 is not representable (C03, D22)"
                    elif py_scaled_of(A.mh) > v or v == 0:
                        refuse = "upsampling"
                else:
                    if not A.num and a[0] == "nmeth":
                        refuse = "cannot downsample a scaled sketch using num"
                    elif not A.num:
                        if len(A.view()) < v or v == 0:
                            refuse = "scaled sketch has fewer hashes than requested"
                    elif A.num < v or v == 0:
                        refuse = "upsampling"

            if kind == "filter" and obs == "ok skipped":
                if refuse != "skip":
                    bad.append((idx, "C04:filter:skipped-abundance-signature", f"`{op}`: an abundance signature was skipped"))
                continue
            if err:
                if refuse is None:
                    bad.append((idx, f"C04:{kind}:unexpected-refusal:{o if o != 'd' else 'd.' + a[0]}",
                                f"`{op}` raised {obs[4:]} although the operands are compatible and the operation is defined on them"))
                continue
            if st is None:
                continue

            # ---------------- the operation on the data
            num, mh = st["num"], st["mh"]
            exact = all(x.exact for x in allx)
            if kind == "union":
                tr = A.track and not flatten_flag
                U = Counter()
                for x in X:
                    U += (x.U if (x.track and tr) else x.dedup())
                if not tr:
                    U = Counter({h: 1 for h in U})
                if A.num and not exact:
                    # sketch-level: the num smallest of the union of what the sketches hold
                    U = Counter()
                    for x in X:
                        U += (x.content() if tr and x.track else Counter({h: 1 for h in x.view()}))
                exp = Exp(num, mh, tr, U, exact)
            elif kind == "addmany":
                B = X[1]
                add = Counter({h: 1 for h in B.view()})         # add_many(<MinHash>) adds its hashes once each
                src = A.U if A.exact else A.content()
                U = src + add if A.track else Counter({h: 1 for h in (src + add)})
                exp = Exp(num, mh, A.track, U, A.exact)
            elif kind == "intersection":
                if A.num:
                    # documented: common hashes that are within the num smallest of the union of the sketches
                    views = [set(x.view()) for x in X]
                    if o == "i.cli":
                        common = set.intersection(*views)
                        U = Counter({h: 1 for h in common})
                    else:
                        union = sorted(views[0] | views[1])[:A.num]
                        U = Counter({h: 1 for h in views[0] & views[1] if h in union})
                    exp = Exp(num, mh, False, U, False)
                else:
                    keys = set(X[0].U)
                    for x in X[1:]:
                        keys &= set(x.U)
                    U = Counter({h: 1 for h in keys})
                    tr = False
                    if ab is not None:
                        U = Counter({h: E[ab].U[h] for h in keys if E[ab].U[h] > 0})
                        tr = True
                    exp = Exp(num, mh, tr, U, exact)
            elif kind == "remove":
                B = X[1]
                gone = set(B.view())                            # remove_many(<MinHash> | list) removes those hashes
                if A.num:
                    U = Counter({h: c for h, c in A.content().items() if h not in gone})
                    exp = Exp(num, mh, A.track, U, False)
                else:
                    exp = Exp(num, mh, A.track, Counter({h: c for h, c in A.U.items() if h not in gone}), A.exact)
            elif kind == "subtraction":
                if A.num:
                    gone = set()
                    for x in X[1:]:
                        gone |= set(x.view())
                    U = Counter({h: 1 for h in A.view() if h not in gone})
                    exp = Exp(num, mh, False, U, False)
                else:
                    gone = set()
                    for x in X[1:]:
                        gone |= set(x.U)
                    keys = set(A.U) - gone
                    U = Counter({h: 1 for h in keys})
                    tr = False
                    if ab is not None:
                        U = Counter({h: E[ab].U[h] for h in keys if E[ab].U[h] > 0})
                        tr = True
                    exp = Exp(num, mh, tr, U, exact)
            elif kind == "flatten":
                src = A.U if A.exact or not A.num else A.content()
                exp = Exp(num, mh, False, Counter({h: 1 for h in src}), A.exact)
            elif kind == "inflate":
                F, Sx = X
                U = Counter({h: Sx.U[h] for h in F.U if Sx.U[h] > 0})
                exp = Exp(num, mh, True, U, exact)
            elif kind == "filter":
                mn = int(a[2])
                mx = None if a[3] == "-" else int(a[3])
                src = A.U if (A.exact and not A.num) else A.content()
                U = Counter({h: c for h, c in src.items() if c >= mn and (mx is None or c <= mx)})
                exp = Exp(num, mh, True, U, A.exact and not A.num)
            else:   # down
                v = int(a[3])
                src = A.U if A.exact else A.content()
                exp = Exp(num, mh, A.track, src, A.exact)
                if a[0] in ("meth", "cli"):
                    if st["sc"] != v or st["num"] != 0:
                        bad.append((idx, "C04:down:reported-scaled", f"`{op}`: asked for scaled={v}, the result reports scaled={st['sc']} num={st['num']}"))
                    if not A.num and st["mh"] > A.mh:
                        bad.append((idx, "C04:down:result-finer-than-operand", f"`{op}`: threshold grew from {A.mh} to {st['mh']}"))
                else:
                    if st["num"] != v or st["mh"] != 0:
                        bad.append((idx, "C04:down:reported-num", f"`{op}`: asked for num={v}, the result reports num={st['num']} max_hash={st['mh']}"))
            if kind not in ("down",) and st["num"] != A.num and not (kind == "inflate"):
                bad.append((idx, f"C04:{kind}:num-changed", f"`{op}`: num changed from {A.num} to {st['num']}"))
            if refuse is not None and refuse != "skip":
                # the operation was NOT refused although it is documented to be: the content check decides
                pass
            # add_many / remove_many take the other sketch as a list of hashes: only the receiver's resolution matters
            res_ops = ops[:1] if kind in ("addmany", "remove") else ops + ([ab] if ab is not None else [])
            check(idx, op, kind, r, st, exp, res_ops, via_inflate=ab is not None, all_ops=ops)
        except (KeyError, ValueError, IndexError):
            continue
    return bad


def mh_py(scaled):
    """Python `_get_max_hash_for_scaled`"""
    if scaled == 0:
        return 0
    if scaled == 1:
        return U64
    return int(round(U64 / scaled, 0))


def nontrivial(case, impl):
    """at least 3 non-leaf operations returned a non-empty sketch"""
    n = 0
    for op, obs in zip(case, impl):
        if op.startswith(("leaf", "freeze")):
            continue
        st = parse_show(obs)
        if st is not None and st["mins"]:
            n += 1
    return n >= 3


def classify(case, impl, model, k):
    op = canon(case[k]).split()
    name = op[0] if op[0] != "d" else "d." + op[1]
    return f"C04:corr:{name}"
