"""The `cmp` correspondence stream (C05): pairs of sketches and every comparison the
Python API offers on them (MinHash methods, SourmashSignature wrappers, the
FracMinHashComparison / NumMinHashComparison dataclasses).

Line comparison (`same`): integers and ratios that only involve correctly rounded
primitives are compared EXACTLY (the model prints the very double through the
binary64 model).  A model token starting with `~` marks a value whose computation
went through `**`, `sqrt` or `acos` (tier 2: computed by the driver's run-time
Float); those are compared with relative tolerance 1e-12 and are NOT covered by a
theorem.

The property oracle below is written from the statement of C05, not from the model:
textbook formulas with Python sets and `fractions.Fraction` on the hashes the
implementation itself reports."""
import math
import os
import sys
from decimal import Decimal, getcontext
from fractions import Fraction

sys.path.insert(0, os.path.dirname(os.path.dirname(os.path.abspath(__file__))))
from streams.mh import parse_show  # noqa: E402

U64 = 2 ** 64 - 1
MODULE = "cmp"
ADAPTER = "cmp_impl.py"
RTOL = 1e-12

SCALED_POOL = [1, 1, 2, 3, 10, 93, 100, 1000, 1000, 2 ** 20, 2 ** 31]
NUM_POOL = [1, 2, 5, 20, 100, 500]
ABUND_POOL = [1, 1, 1, 1, 2, 3, 5, 7, 100, 65535, 2 ** 20]


# --------------------------------------------------------------------------
# canonical floats

def fparse(tok):
    """'<m>p<e>' -> Fraction (exact)"""
    m, _, e = tok.partition("p")
    m, e = int(m), int(e)
    return Fraction(m) * (Fraction(2) ** e)


def fcanon(x):
    if x == 0:
        return "0p0"
    n, d = float(x).as_integer_ratio()
    if d == 1:
        e = 0
        while n % 2 == 0:
            n //= 2
            e += 1
        return f"{n}p{e}"
    return f"{n}p-{d.bit_length() - 1}"


def _is_f(tok):
    m, p, e = tok.partition("p")
    return p == "p" and m.isdigit() and e.lstrip("-").isdigit()


def _tok_same(ti, tm):
    if ti == tm:
        return True
    ki, _, vi = ti.rpartition("=")
    km, _, vm = tm.rpartition("=")
    if ki != km or not vm.startswith("~"):
        return False
    vm = vm[1:]
    if not (_is_f(vi) and _is_f(vm)):
        return False
    a, b = float(fparse(vi)), float(fparse(vm))
    return abs(a - b) <= RTOL * max(abs(a), abs(b))


def same(impl, model):
    """exact, except for tier-2 values (model token prefixed with `~`): relative 1e-12"""
    if impl == model:
        return True
    a, b = impl.split(" "), model.split(" ")
    return len(a) == len(b) and all(_tok_same(x, y) for x, y in zip(a, b))


# --------------------------------------------------------------------------
# generator

def mh_py(s):
    """Python `_get_max_hash_for_scaled`"""
    if s == 0:
        return 0
    if s == 1:
        return U64
    return min(int(round(U64 / s, 0)), U64)


def _hashes(rng, n, M, lo_bias):
    """n distinct hash values, mostly <= M, biased to the boundaries"""
    out = set()
    cands = [0, 1, M, M - 1, M // 2, M // 2 + 1, M // 3]
    tries = 0
    while len(out) < n and tries < 20 * n + 50:
        tries += 1
        r = rng.random()
        if r < lo_bias and cands:
            v = rng.choice(cands)
        elif r < 0.5 and n <= 400:
            v = rng.randint(0, min(M, 4 * n + 8))      # dense small range: collisions between A and B
        else:
            v = rng.randint(0, M)
        if 0 <= v <= U64:
            out.add(v)
    return sorted(out)


def _build(lines, rng, h, hashes, track, above):
    """ops that fill handle h with `hashes` (plus some values above the threshold, which are dropped)"""
    hs = list(hashes) + list(above)
    rng.shuffle(hs)
    if track:
        style = rng.random()
        if style < 0.6 or len(hs) > 400:
            # dictionary of abundances
            big = rng.random() < 0.02
            pool = ABUND_POOL + ([2 ** 32, 2 ** 32 - 1, 2 ** 32 + 1, 3 * 2 ** 31, 2 ** 40, 2 ** 63, 2 ** 64 - 1] if big else [])
            lines.append(f"setab {h} 1 " + " ".join(f"{x}:{rng.choice(pool)}" for x in hs))
        else:
            # repeated additions: abundance = multiplicity
            multi = []
            for x in hs:
                multi += [x] * rng.choice([1, 1, 1, 2, 3, 5])
            rng.shuffle(multi)
            lines.append(f"addmany {h} " + " ".join(map(str, multi)))
    else:
        if rng.random() < 0.3:
            hs = hs + [rng.choice(hs) for _ in range(rng.randint(0, 5))] if hs else hs   # duplicates
            rng.shuffle(hs)
        lines.append(f"addmany {h} " + " ".join(map(str, hs)))


def gen_case(rng, flavour):
    """flavour: 'small' | 'mid' | 'big' | 'incompat' | 'downsample' | 'num' | 'self' | 'skew'"""
    lines = []
    is_num = flavour == "num" or (flavour in ("small", "mid", "incompat") and rng.random() < 0.2)
    k, seed, hf = 21, 42, 1
    if rng.random() < 0.15:
        hf = rng.choice([2, 3, 4])
        k = 7
    if is_num:
        numA, scA = rng.choice(NUM_POOL), 0
    else:
        numA, scA = 0, rng.choice(SCALED_POOL)
    pa = dict(num=numA, sc=scA, k=k, seed=seed, hf=hf)
    pb = dict(pa)
    variant = "compatible"
    r = rng.random()
    if flavour == "incompat" or r < 0.25:
        variant = rng.choice(["k", "seed", "hf", "scaled", "numscaled", "numnum"])
        if variant == "k":
            pb["k"] = k + rng.choice([1, 10])
        elif variant == "seed":
            pb["seed"] = seed + 1
        elif variant == "hf":
            pb["hf"] = rng.choice([x for x in (1, 2, 3, 4) if x != hf])
            # keep the Rust-side k-mer size equal where possible so that the molecule check is reached
            if hf != 1 and pb["hf"] == 1:
                pb["k"] = 3 * k
            elif hf == 1 and pb["hf"] != 1:
                if k % 3 == 0:
                    pb["k"] = k // 3
        elif variant == "scaled":
            if is_num:
                variant = "numnum"
            else:
                pb["sc"] = rng.choice([s for s in SCALED_POOL if s != scA])
        elif variant == "numscaled":
            if is_num:
                pb["num"], pb["sc"] = 0, rng.choice(SCALED_POOL)
            else:
                pb["num"], pb["sc"] = rng.choice(NUM_POOL), 0
        if variant == "numnum":
            if is_num:
                pb["num"] = rng.choice([n for n in NUM_POOL if n != numA])
            else:
                variant = "scaled"
                pb["sc"] = rng.choice([s for s in SCALED_POOL if s != scA])
    if flavour == "downsample" and not is_num:
        variant = "scaled"
        pb["sc"] = rng.choice([s for s in SCALED_POOL if s != scA])
        if rng.random() < 0.5:
            pa, pb = pb, pa
    if rng.random() < 0.5 and variant != "compatible":
        pa, pb = pb, pa
    trA = rng.random() < 0.5
    trB = trA if rng.random() < 0.7 else (not trA)
    # sizes
    if flavour == "big":
        hi = 3000
        nA, nB = rng.randint(400, hi), rng.randint(400, hi)
    elif flavour == "mid":
        nA, nB = rng.randint(0, 200), rng.randint(0, 200)
    elif flavour == "skew":
        # one sketch at least 8x the other, over a DENSE universe (see below): small-vs-large fast paths
        nA = rng.randint(2, 7)
        nB = rng.randint(8 * nA, 8 * nA + 60)
        if rng.random() < 0.5:
            nA, nB = nB, nA
    else:
        nA, nB = rng.choice([0, 0, 1, 2, 3, 5, 8, 13, 40]), rng.choice([0, 1, 1, 2, 3, 5, 8, 13, 40, 70])
    MA, MB = (mh_py(pa["sc"]) or U64), (mh_py(pb["sc"]) or U64)
    M = min(MA, MB)
    # threshold margin: stay 4 away from computed thresholds except for sc=1 (C03 owns the exact threshold)
    Msafe = M if M == U64 else M - 4
    rel = rng.choice(["overlap", "overlap", "equal", "subset", "superset", "disjoint", "emptyA", "emptyB", "both-empty"])
    if flavour == "self":
        rel = "equal"
    base = _hashes(rng, nA + nB, Msafe, 0.05)
    if flavour == "skew":
        # neighbours in value order matter for skip-ahead intersection code: draw from a small dense range
        universe = list(range(0, min(Msafe, 3 * (nA + nB) + 20)))
        base = rng.sample(universe, min(len(universe), nA + nB))
        rel = rng.choice(["overlap", "overlap", "overlap", "subset", "superset"])
    rng.shuffle(base)
    if rel == "equal":
        A = B = base[:max(nA, 1)]
    elif rel == "subset":
        B = base[:max(nB, 1)]
        A = B[:rng.randint(0, len(B))]
    elif rel == "superset":
        A = base[:max(nA, 1)]
        B = A[:rng.randint(0, len(A))]
    elif rel == "disjoint":
        A, B = base[:nA], base[nA:nA + nB]
    elif rel == "emptyA":
        A, B = [], base[:nB]
    elif rel == "emptyB":
        A, B = base[:nA], []
    elif rel == "both-empty":
        A, B = [], []
    else:
        common = base[:rng.randint(0, min(nA, nB))]
        rest = base[len(common):]
        A = common + rest[:nA - len(common)]
        B = common + rest[nA - len(common):nA - len(common) + nB - len(common)]
    # hashes between the two thresholds (kept by the finer sketch only) and above both (dropped)
    aboveA, aboveB = [], []
    if pa["sc"] > 1 and rng.random() < 0.5:
        aboveA = [rng.randint(MA + 4, U64) for _ in range(rng.randint(1, 3))]
    if pb["sc"] > 1 and rng.random() < 0.5:
        aboveB = [rng.randint(MB + 4, U64) for _ in range(rng.randint(1, 3))]
    if MA > M + 8 and pa["num"] == 0:
        shared = [rng.randint(M + 4, MA - 4) for _ in range(rng.randint(0, max(2, nA // 2)))]
        A = A + shared
        if MB > M + 8:
            B = B + shared[:len(shared) // 2]
    if MB > M + 8 and pb["num"] == 0:
        B = B + [rng.randint(M + 4, MB - 4) for _ in range(rng.randint(0, max(2, nB // 2)))]
    lines.append(f"newm 0 {pa['num']} {pa['sc']} {int(trA)} {pa['k']} {pa['seed']} {pa['hf']}")
    lines.append(f"newm 1 {pb['num']} {pb['sc']} {int(trB)} {pb['k']} {pb['seed']} {pb['hf']}")
    _build(lines, rng, 0, A, trA, aboveA)
    _build(lines, rng, 1, B, trB, aboveB)
    if flavour == "self" or rng.random() < 0.15:
        lines.append("copy 2 0")
        third = 2
    else:
        third = None
    # queries, symmetric ones in both orders
    qs = []
    pairs = [(0, 1), (1, 0)]
    ds_choices = [0, 1] if variant in ("scaled", "compatible") or flavour == "downsample" else [0, 0, 1]
    qs.append("compat 0 1")
    qs.append("compat 1 0")
    for ds in set(ds_choices):
        for a, b in pairs:
            qs.append(f"cc {a} {b} {ds}")
            qs.append(f"jac {a} {b} {ds}")
            qs.append(f"cb {a} {b} {ds}")
            qs.append(f"mc {a} {b} {ds}")
            qs.append(f"ac {a} {b} {ds}")
            for ia in (0, 1):
                qs.append(f"sim {a} {b} {ia} {ds}")
    for a, b in pairs:
        qs.append(f"iu {a} {b}")
        qs.append(f"ang {a} {b}")
        qs.append(f"sjac {a} {b}")
        qs.append(f"ssim {a} {b} {rng.randint(0, 1)} {rng.randint(0, 1)}")
        qs.append(f"scb {a} {b} {rng.randint(0, 1)}")
        qs.append(f"smc {a} {b} {rng.randint(0, 1)}")
        qs.append(f"sac {a} {b} {rng.randint(0, 1)}")
    for a in (0, 1):
        qs += [f"sim {a} {a} 0 0", f"sim {a} {a} 1 0", f"cb {a} {a} 0", f"mc {a} {a} 0", f"ac {a} {a} 0",
               f"iu {a} {a}", f"cc {a} {a} 0", f"jac {a} {a} 0"]
    if third is not None:
        qs += ["sim 0 2 0 0", "sim 2 0 0 0", "sim 0 2 1 0", "cb 0 2 0", "cb 2 0 0", "mc 0 2 0", "ac 2 0 0", "iu 0 2", "compat 0 2"]
    cs_opts = [0, 0, pa["sc"], pb["sc"], max(pa["sc"], pb["sc"]) * 2, rng.choice(SCALED_POOL)]
    for _ in range(2):
        a, b = rng.choice(pairs)
        qs.append(f"frac {a} {b} {rng.choice(cs_opts)} {rng.randint(0, 1)}")
    if len(A) + len(B) <= 120:
        # implementation-only observations of the comparison dataclass (model answers `skip`): intersect_mh,
        # weighted_intersection, pass_threshold
        a, b = rng.choice(pairs)
        tbp = rng.choice([0, 1, len(A) * max(pa["sc"], pb["sc"], 1), rng.randint(0, 50) * max(pa["sc"], pb["sc"], 1)])
        qs.append(f"@frac {a} {b} {rng.choice(cs_opts)} {rng.randint(0, 1)} {tbp}")
    cn_opts = [0, 0, 1, min(pa["num"], pb["num"]), max(pa["num"], pb["num"]), 3]
    a, b = rng.choice(pairs)
    qs.append(f"numc {a} {b} {rng.choice(cn_opts)} {rng.randint(0, 1)}")
    # float primitives of the angular tail (exact model vs hardware IEEE): sqrt and the acos argument
    def _sq(ab):
        return sum(v * v for v in ab) % 2 ** 64
    for _ in range(2):
        qs.append(f"fsqrt {rng.choice([rng.randint(0, 200), rng.randint(0, U64), 2 ** rng.randint(0, 63) + rng.randint(0, 3), rng.randint(1, 2 ** 53)])}")
    for _ in range(3):
        n = rng.randint(1, 4)
        va = [rng.choice(ABUND_POOL + [rng.randint(1, 50)]) for _ in range(n)]
        vb = va if rng.random() < 0.4 else [rng.choice(ABUND_POOL + [rng.randint(1, 50)]) for _ in range(n)]
        if rng.random() < 0.3:
            k = rng.randint(2, 9)
            vb = [k * x for x in va]          # proportional vectors: cosine exactly 1
        pa_, pb_ = _sq(va), _sq(vb)
        if pa_ and pb_:
            qs.append(f"fcos {sum(x * y for x, y in zip(va, vb)) % 2 ** 64} {pa_} {pb_}")
    # keep symmetric partners together: choose a random subset of *unordered* queries
    keep = 1.0 if len(A) + len(B) < 400 else 0.6

    def key(q):
        w = q.split()
        return (w[0], tuple(sorted(w[1:3])), tuple(w[3:]))
    chosen = {}
    for q in qs:
        kq = key(q)
        if kq not in chosen:
            chosen[kq] = rng.random() < keep
    lines += [q for q in qs if chosen[key(q)]]
    # the downsample flag against EXPLICIT downsampling (always emitted, in matching pairs)
    same_core = (pa["k"], pa["seed"], pa["hf"]) == (pb["k"], pb["seed"], pb["hf"])
    if same_core and pa["num"] == 0 and pb["num"] == 0 and pa["sc"] != pb["sc"]:
        S_ = max(pa["sc"], pb["sc"])
        lines += [f"down 4 0 {S_}", f"down 5 1 {S_}"]
        for x, y, u, v in ((0, 1, 4, 5), (1, 0, 5, 4)):
            for ia in (0, 1):
                lines += [f"sim {x} {y} {ia} 1", f"sim {u} {v} {ia} 0"]
            lines += [f"cc {x} {y} 1", f"cc {u} {v} 0", f"jac {x} {y} 1", f"jac {u} {v} 0",
                      f"cb {x} {y} 1", f"cb {u} {v} 0", f"mc {x} {y} 1", f"mc {u} {v} 0", f"ac {x} {y} 1", f"ac {u} {v} 0"]
    elif same_core and pa["num"] and pb["num"]:
        n_ = min(pa["num"], pb["num"])
        lines += [f"downnum 4 0 {n_}", f"downnum 5 1 {n_}", "numc 0 1 0 0", "numc 1 0 0 0", "jac 4 5 0", "jac 5 4 0",
                  "sim 0 1 0 1", "sim 0 1 0 0", "sim 0 1 1 1", "sim 0 1 1 0"]
    return lines


# --------------------------------------------------------------------------
# property oracle (from the statement of C05)

SYMMETRIC = {"cc", "iu", "jac", "sim", "ssim", "sjac", "ang", "mc", "smc", "ac", "sac", "compat"}
BUILD_OPS = {"newm", "new", "addmany", "addab", "setab", "copy", "down", "downnum", "flat", "show"}
SIG_DS = "C05:containment-downsample-flag-keeps-undownsampled-size"
SIG_ANG_SELF = "C05:angular-self-not-1"
SIG_EMPTY = "C05:incompatible-answered:empty-containment"
SIG_OVERFLOW = "C05:angular-u64-overflow"


class Sk:
    def __init__(self, k, seed, hf):
        self.k, self.seed, self.hf = k, seed, hf
        self.num = self.mh = self.sc = 0
        self.tr = False
        self.mins, self.ab = [], None

    def upd(self, st):
        self.num, self.mh, self.sc, self.tr = st["num"], st["mh"], st["sc"], st["tr"]
        self.mins, self.ab = st["mins"], st["ab"]

    def abund(self):
        return dict(zip(self.mins, self.ab if self.ab is not None else [1] * len(self.mins)))

    def restrict(self, M):
        s = Sk(self.k, self.seed, self.hf)
        s.num, s.mh, s.sc, s.tr = self.num, M, None, self.tr
        keep = [i for i, h in enumerate(self.mins) if h <= M]
        s.mins = [self.mins[i] for i in keep]
        s.ab = None if self.ab is None else [self.ab[i] for i in keep]
        return s


def listed_incompatible(a, b):
    return a.k != b.k or a.hf != b.hf or a.seed != b.seed or (a.num > 0) != (b.num > 0)


def _bias_exact(s, n):
    """1 - (1 - 1/s)^(n*s), 50 digits"""
    getcontext().prec = 60
    base = Decimal(1) - Decimal(1) / Decimal(s)
    if base == 0:
        return Decimal(1)
    return Decimal(1) - base ** (n * s)


def _check_cont(v, num, den, s):
    """v: Fraction reported; raw = num/den; s: scaled used for the bias; -> None or message"""
    if den == 0:
        return None if v == 0 else f"denominator is empty, expected 0, got {float(v)!r}"
    raw = Fraction(num, den)
    if v > 1 or v < 0:
        return f"value {float(v)!r} outside [0,1]"
    if v < raw * (1 - Fraction(1, 10 ** 12)):
        return f"value {float(v)!r} is below the raw ratio {num}/{den}"
    if den >= 64 or s == 1:
        if fcanon(v) != fcanon(num / den if num <= den else 1.0):
            return f"value {float(v)!r} differs from the raw ratio {num}/{den} although the bias factor is 1 at double precision"
        return None
    bias = _bias_exact(s, den)
    exp = min(Decimal(1), Decimal(num) / Decimal(den) / bias)
    tol = Decimal(1e-12) + Decimal(s) * Decimal(2) ** -49
    dv = Decimal(v.numerator) / Decimal(v.denominator)
    if abs(dv - exp) > tol * max(Decimal(1), exp):
        return f"value {float(v)!r} is not the bias-corrected ratio {float(exp)!r} (raw {num}/{den}, scaled {s})"
    return None


def _ang_bounds(A, B):
    """A, B: dict hash->abund.  -> ('zero'|'val', lo, hi, overflow): bounds of the textbook value computed with
    exact integers; `overflow` says that a sum of squares / the dot product does not fit u64"""
    sa = sum(v * v for v in A.values())
    sb = sum(v * v for v in B.values())
    dot = sum(v * B[h] for h, v in A.items() if h in B)
    over = sa > U64 or sb > U64 or dot > U64      # the u64 accumulators of the implementation overflow
    if sa == 0 or sb == 0 or dot == 0:
        return ("zero", 0.0, 0.0, over)
    D = sa * sb - dot * dot          # Lagrange: >= 0, exact
    N = math.sqrt(sa * sb)
    c = dot / N
    y0 = D / (N * (N + dot))         # 1 - cos, accurately
    dmax = 16 * 2.0 ** -53

    def t_of(y):
        y = min(2.0, max(0.0, y))
        return 1.0 - 2.0 * (2.0 * math.asin(math.sqrt(y / 2.0))) / math.pi
    lo = t_of(y0 + c * dmax) - 1e-12
    hi = t_of(y0 - c * dmax) + 1e-12
    return ("val", lo, hi, over)


def oracle(case, impl):
    S = {}
    bad = []
    answers = {}
    derived = {}          # handle -> (op, source handle, value) for explicit downsampling

    def flag(idx, sig, msg):
        bad.append((idx, sig, f"`{case[idx]}`: {msg}"))

    for idx, (op, obs) in enumerate(zip(case, impl)):
        w = op.split()
        o, a = w[0], w[1:]
        if o in BUILD_OPS:
            st = parse_show(obs)
            if o in ("newm", "new"):
                if st is None:
                    continue
                r = int(a[0])
                if o == "newm":
                    S[r] = Sk(int(a[4]), int(a[5]), int(a[6]))
                else:
                    S[r] = Sk(int(a[3]), int(a[4]), 1)
                S[r].upd(st)
            elif st is not None:
                r = int(a[0])
                if o in ("copy", "down", "downnum", "flat"):
                    src = S.get(int(a[1]))
                    if src is None:
                        continue
                    S[r] = Sk(src.k, src.seed, src.hf)
                    if o in ("down", "downnum"):
                        derived[a[0]] = (o, a[1], int(a[2]))
                if r in S:
                    S[r].upd(st)
            continue
        for kind in ("view-mismatch", "unstable", "operand-changed", "history-mismatch"):
            if obs.startswith(kind):
                flag(idx, "C05:periphery:" + kind, "two routes to the same quantity disagree / a read-only call is not "
                     "repeatable / an operand or an earlier result changed: " + obs[:300])
        if obs == "bad-op" or len(a) < 2 or o in ("fsqrt", "fcos") or obs.split(" ")[0] in (
                "view-mismatch", "unstable", "operand-changed", "history-mismatch"):
            continue
        try:
            A, B = S[int(a[0])], S[int(a[1])]
        except (KeyError, ValueError):
            continue
        is_err = obs.startswith("err ")
        val = obs[3:] if obs.startswith("ok ") else None
        flags = tuple(a[2:])
        answers[(o, a[0], a[1], flags)] = (idx, obs)
        ds = False
        if o in ("cc", "jac", "cb", "scb", "mc", "smc", "ac", "sac"):
            ds = a[2] == "1"
        elif o in ("sim", "ssim"):
            ds = a[3] == "1"
        # ---- refusal -------------------------------------------------------
        if o == "compat":
            exp = not listed_incompatible(A, B) and A.mh == B.mh
            if val is None or (val == "1") != exp:
                flag(idx, "C05:is_compatible", f"is_compatible answered {obs} but same k/molecule/seed/max_hash is {exp}")
            continue
        if listed_incompatible(A, B) or (A.mh != B.mh and not (ds and A.mh and B.mh)
                                         and o not in ("frac", "numc", "@frac")):
            if not is_err:
                if o in ("cb", "scb", "mc", "smc", "ac", "sac") and val == "0p0" and \
                        (len(A.mins) == 0 or (o in ("mc", "smc") and len(B.mins) == 0)):
                    flag(idx, SIG_EMPTY, f"incompatible sketches (k {A.k}/{B.k}, molecule {A.hf}/{B.hf}, seed {A.seed}/{B.seed}, "
                                         f"num {A.num}/{B.num}, max_hash {A.mh}/{B.mh}) were answered {obs} instead of refused (one operand is empty)")
                else:
                    flag(idx, "C05:incompatible-answered:" + o, f"incompatible sketches (k {A.k}/{B.k}, molecule {A.hf}/{B.hf}, "
                         f"seed {A.seed}/{B.seed}, num {A.num}/{B.num}, max_hash {A.mh}/{B.mh}) were answered {obs}")
            continue
        if A.num and B.num and A.num != B.num:
            continue                      # different num: the statement is silent (see report)
        # ---- compatible, possibly after the implicit downsample ---------------
        if o in ("frac", "numc"):
            _oracle_dataclass(o, a, A, B, obs, idx, flag)
            continue
        if o == "@frac":
            _oracle_frac_extra(a, A, B, obs, idx, flag)
            continue
        if ds and A.mh != B.mh:
            M = min(A.mh, B.mh)
            A2, B2 = A.restrict(M), B.restrict(M)
        else:
            A2, B2 = A, B
        sA, sB = set(A2.mins), set(B2.mins)
        common = sA & sB
        differing = ds and A.mh != B.mh
        if o == "cc":
            if val is None or val != str(len(common)):
                flag(idx, "C05:count_common", f"answered {obs}; the sketches share {len(common)} hashes")
        elif o == "iu":
            if A.num:
                U = sorted(sA | sB)[:A.num]
                exp = (len(common & set(U)), len(U))
            else:
                exp = (len(common), len(sA | sB))
            if val is None or val != f"{exp[0]} {exp[1]}":
                flag(idx, "C05:intersection_and_union_size", f"answered {obs}; textbook (|A∩B|, |A∪B|) = {exp}")
        elif o in ("jac", "sjac", "sim", "ssim", "ang"):
            want_ang = False
            if o == "ang":
                want_ang = True
                if not (A.tr and B.tr):
                    if not is_err:
                        flag(idx, "C05:angular-without-abundance", f"answered {obs} although a sketch carries no abundances")
                    continue
            elif o in ("sim", "ssim"):
                want_ang = a[2] == "0" and A.tr and B.tr
            if val is None or not _is_f(val):
                flag(idx, "C05:refused-compatible:" + o, f"compatible sketches were refused / not answered with a number: {obs}")
                continue
            v = fparse(val)
            if v < 0 or v > 1:
                flag(idx, "C05:range:" + o, f"value {float(v)!r} outside [0,1]")
                continue
            if want_ang:
                r = _ang_bounds(A2.abund(), B2.abund())
                osig = (lambda sg: SIG_OVERFLOW) if r[3] else (lambda sg: sg)
                otxt = " [sums of squared abundances exceed u64: the implementation's accumulators wrap]" if r[3] else ""
                identical = A2.mins == B2.mins and A2.abund() == B2.abund() and len(A2.mins) > 0
                if identical:
                    if abs(float(v) - 1.0) > RTOL:
                        flag(idx, osig(SIG_ANG_SELF), f"angular similarity of a sketch with itself is {float(v)!r}, not 1" + otxt)
                elif r[0] == "zero":
                    if v != 0:
                        flag(idx, osig("C05:angular-disjoint-not-0"), f"no common hash (or an empty sketch) but angular similarity {float(v)!r}" + otxt)
                elif not (r[1] <= float(v) <= r[2]):
                    flag(idx, osig("C05:angular-value"), f"angular similarity {float(v)!r} is outside [{r[1]!r}, {r[2]!r}] "
                                                         f"(1 - 2*acos(cos)/pi with cos from the exact sums)" + otxt)
            else:
                if A.num:
                    U = sorted(sA | sB)[:A.num]
                    c, u = len(common & set(U)), len(U)
                else:
                    c, u = len(common), len(sA | sB)
                exp = (c / u) if u else 0.0
                if fcanon(v) != fcanon(exp):
                    flag(idx, "C05:jaccard-value:" + o, f"answered {float(v)!r}; |A∩B|/|A∪B| = {c}/{u} = {exp!r}")
        elif o in ("cb", "scb", "mc", "smc", "ac", "sac"):
            if A.num or B.num:
                if not is_err:
                    flag(idx, "C05:containment-on-num", f"answered {obs} for num sketches")
                continue
            if val is None or not _is_f(val):
                flag(idx, "C05:refused-compatible:" + o, f"compatible sketches were refused / not answered with a number: {obs}")
                continue
            v = fparse(val)
            sig = SIG_DS if differing else "C05:containment-value:" + o
            scA = max(A.sc, B.sc) if differing else A.sc      # the scaled the comparison is made at
            scB = max(A.sc, B.sc) if differing else B.sc
            if o in ("cb", "scb"):
                m = _check_cont(v, len(common), len(sA), scA)
            elif o in ("mc", "smc"):
                m = _check_cont(v, len(common), min(len(sA), len(sB)), scA)
            else:
                m = None
                if v < 0 or v > 1:
                    m = f"value {float(v)!r} outside [0,1]"
                else:
                    r1 = Fraction(len(common), len(sA)) if sA else Fraction(0)
                    r2 = Fraction(len(common), len(sB)) if sB else Fraction(0)
                    mean = (r1 + r2) / 2
                    if v < mean * (1 - Fraction(1, 10 ** 12)):
                        m = f"value {float(v)!r} is below the mean of the raw containments {float(mean)!r}"
                    elif (len(sA) >= 64 or scA == 1 or not sA) and (len(sB) >= 64 or scB == 1 or not sB):
                        e1 = (len(common) / len(sA)) if sA else 0.0
                        e2 = (len(common) / len(sB)) if sB else 0.0
                        if fcanon(v) != fcanon((e1 + e2) / 2):
                            m = f"value {float(v)!r} differs from the mean of the raw containments {(e1 + e2) / 2!r}"
                    else:
                        b1 = _bias_exact(scA, len(sA)) if sA else Decimal(1)
                        b2 = _bias_exact(scB, len(sB)) if sB else Decimal(1)
                        x1 = min(Decimal(1), Decimal(len(common)) / Decimal(max(1, len(sA))) / b1)
                        x2 = min(Decimal(1), Decimal(len(common)) / Decimal(max(1, len(sB))) / b2)
                        exp = (x1 + x2) / 2
                        tol = Decimal(1e-12) + Decimal(max(scA, scB)) * Decimal(2) ** -49
                        dv = Decimal(v.numerator) / Decimal(v.denominator)
                        if abs(dv - exp) > tol:
                            m = f"value {float(v)!r} is not the mean of the bias-corrected containments {float(exp)!r}"
            if m is not None:
                flag(idx, sig, m + (f" [downsample flag: sizes at the common scaled are |A|={len(sA)}, |B|={len(sB)}, "
                                    f"the sketches hold {len(A.mins)} and {len(B.mins)}]" if differing else ""))
    # ---- the downsample flag = explicit downsampling --------------------------------
    d4, d5 = derived.get("4"), derived.get("5")
    if d4 and d5 and d4[0] == d5[0] == "down" and (d4[1], d5[1]) == ("0", "1") and d4[2] == d5[2] \
            and S.get(0) is not None and S.get(1) is not None and d4[2] == max(S[0].sc, S[1].sc):
        for x, y, u, v in (("0", "1", "4", "5"), ("1", "0", "5", "4")):
            for o, fl, fe in [("sim", ("0", "1"), ("0", "0")), ("sim", ("1", "1"), ("1", "0")), ("cc", ("1",), ("0",)),
                              ("jac", ("1",), ("0",)), ("cb", ("1",), ("0",)), ("mc", ("1",), ("0",)), ("ac", ("1",), ("0",))]:
                p, q = answers.get((o, x, y, fl)), answers.get((o, u, v, fe))
                if p is None or q is None:
                    continue
                if p[1] != q[1]:
                    sig = SIG_DS if o in ("cb", "mc", "ac") else "C05:downsample-flag-vs-explicit:" + o
                    bad.append((max(p[0], q[0]), sig,
                                f"`{case[p[0]]}` answered {p[1]} but the explicitly downsampled sketches `{case[q[0]]}` give {q[1]}"))
    if d4 and d5 and d4[0] == d5[0] == "downnum" and (d4[1], d5[1]) == ("0", "1") and d4[2] == d5[2]:
        for x, y, u, v in (("0", "1", "4", "5"), ("1", "0", "5", "4")):
            p, q = answers.get(("numc", x, y, ("0", "0"))), answers.get(("jac", u, v, ("0",)))
            if p is None or q is None or not p[1].startswith("ok ") or not q[1].startswith("ok "):
                continue
            if _kv(p[1]).get("j") != q[1][3:]:
                bad.append((max(p[0], q[0]), "C05:numcomparison-vs-explicit",
                            f"`{case[p[0]]}` reports jaccard {_kv(p[1]).get('j')} but `{case[q[0]]}` on the explicitly "
                            f"downsampled sketches gives {q[1]}"))
        for ia in ("0", "1"):
            p, q = answers.get(("sim", "0", "1", (ia, "1"))), answers.get(("sim", "0", "1", (ia, "0")))
            if p is not None and q is not None and p[1] != q[1]:
                bad.append((max(p[0], q[0]), "C05:downsample-flag-on-num", f"`{case[p[0]]}` answered {p[1]} but `{case[q[0]]}` {q[1]}"))
    # ---- symmetry ------------------------------------------------------------
    for (o, x, y, flags), (idx, obs) in answers.items():
        if o not in SYMMETRIC or x >= y:
            continue
        other = answers.get((o, y, x, flags))
        if other is None:
            continue
        A, B = S.get(int(x)), S.get(int(y))
        if A is None or B is None or (A.num and B.num and A.num != B.num):
            continue
        o1, o2 = obs, other[1]
        if o1.startswith("err ") and o2.startswith("err "):
            continue
        ok = o1 == o2
        if not ok and o1.startswith("ok ") and o2.startswith("ok ") and _is_f(o1[3:]) and _is_f(o2[3:]):
            f1, f2 = float(fparse(o1[3:])), float(fparse(o2[3:]))
            ang = o == "ang" or (o in ("sim", "ssim") and flags[0] == "0" and A.tr and B.tr)
            ok = ang and abs(f1 - f2) <= RTOL
        if not ok:
            dsf = (o in ("mc", "smc", "ac", "sac") and flags and flags[0] == "1" and A.mh != B.mh)
            bad.append((max(idx, other[0]), SIG_DS if dsf else "C05:asymmetric:" + o,
                        f"`{case[idx]}` answered {o1} but `{case[other[0]]}` answered {o2}"))
    bad.sort(key=lambda t: t[0])
    return bad


def _kv(obs):
    d = {}
    for p in obs.split(" ")[1:]:
        k, _, v = p.partition("=")
        d[k] = v
    return d


def _oracle_dataclass(o, a, A, B, obs, idx, flag):
    is_err = obs.startswith("err ")
    ia = a[3] == "1"
    if o == "numc":
        if not (A.num and B.num):
            if not is_err:
                flag(idx, "C05:numcomparison-on-scaled", f"NumMinHashComparison of scaled sketches answered {obs}")
            return
        cn = int(a[2]) or min(A.num, B.num)
        if cn > min(A.num, B.num):
            if not is_err:
                flag(idx, "C05:numcomparison-upsample", f"cmp_num {cn} above a sketch's num was answered {obs}")
            return
        if is_err:
            flag(idx, "C05:refused-compatible:numc", f"compatible num sketches were refused: {obs}")
            return
        d = _kv(obs)
        sA, sB = set(A.mins[:cn]), set(B.mins[:cn])
        U = set(sorted(sA | sB)[:cn])
        c, u = len(sA & sB & U), len(U)
        exp = (c / u) if u else 0.0
        if d.get("j") != fcanon(exp):
            flag(idx, "C05:jaccard-value:numc", f"jaccard field {d.get('j')}; bottom-{cn} textbook value {c}/{u}")
        return
    # frac
    if A.num or B.num:
        if not is_err:
            flag(idx, "C05:fraccomparison-on-num", f"FracMinHashComparison of num sketches answered {obs}")
        return
    cs = int(a[2]) or max(A.sc, B.sc)
    if cs < max(A.sc, B.sc):
        if not is_err:
            flag(idx, "C05:fraccomparison-upsample", f"cmp_scaled {cs} below a sketch's scaled was answered {obs}")
        return
    if is_err:
        flag(idx, "C05:refused-compatible:frac", f"compatible scaled sketches were refused: {obs}")
        return
    if cs == A.sc:
        M = A.mh
    elif cs == B.sc:
        M = B.mh
    else:
        M = mh_py(cs)
        if any(abs(h - M) <= 3 for h in A.mins + B.mins):
            return                  # the exact threshold for a fresh scaled value is C03's subject
    A2, B2 = A.restrict(M), B.restrict(M)
    sA, sB = set(A2.mins), set(B2.mins)
    common = sA & sB
    d = _kv(obs)
    if d.get("n1") != str(len(sA)) or d.get("n2") != str(len(sB)):
        flag(idx, "C05:frac-downsample-sizes", f"sketch sizes at cmp_scaled {cs}: reported {d.get('n1')}/{d.get('n2')}, "
                                              f"hashes <= {M}: {len(sA)}/{len(sB)}")
        return
    u = len(sA | sB)
    exp = (len(common) / u) if u else 0.0
    if d.get("j") != fcanon(exp):
        flag(idx, "C05:jaccard-value:frac", f"jaccard field {d.get('j')}; textbook {len(common)}/{u}")
    if d.get("ti") != str(len(common) * cs):
        flag(idx, "C05:frac-intersect-hashes", f"total_unique_intersect_hashes {d.get('ti')}; |A∩B|*cmp_scaled = {len(common) * cs}")
    for key, num, den in (("c12", len(common), len(sA)), ("c21", len(common), len(sB)),
                          ("mx", len(common), min(len(sA), len(sB)))):
        tok = d.get(key, "")
        if not _is_f(tok):
            flag(idx, "C05:containment-value:frac-" + key, f"field {key}={tok} is not a number")
            continue
        m = _check_cont(fparse(tok), num, den, cs)
        if m is not None:
            flag(idx, "C05:containment-value:frac-" + key, f"field {key}: {m}")
    tok = d.get("an", "")
    if A.tr and B.tr and not ia:
        r = _ang_bounds(A2.abund(), B2.abund())
        osig = (lambda sg: SIG_OVERFLOW) if r[3] else (lambda sg: sg)
        if not _is_f(tok):
            flag(idx, "C05:angular-value", f"field an={tok} is not a number")
        else:
            v = float(fparse(tok))
            identical = A2.mins == B2.mins and A2.abund() == B2.abund() and len(A2.mins) > 0
            if identical:
                if abs(v - 1.0) > RTOL:
                    flag(idx, osig(SIG_ANG_SELF), f"angular similarity of a sketch with itself is {v!r}, not 1")
            elif r[0] == "zero":
                if v != 0:
                    flag(idx, osig("C05:angular-disjoint-not-0"), f"field an={v!r} but no common hash")
            elif not (r[1] <= v <= r[2]):
                flag(idx, osig("C05:angular-value"), f"field an={v!r} outside [{r[1]!r}, {r[2]!r}]")


def _oracle_frac_extra(a, A, B, obs, idx, flag):
    """`@frac a b cs ia threshold_bp`: intersect_mh, weighted_intersection(from_mh=mh1), pass_threshold"""
    if A.num or B.num or not obs.startswith("ok "):
        return            # refusal cases are judged on the modelled `frac` op
    cs = int(a[2]) or max(A.sc, B.sc)
    if cs < max(A.sc, B.sc):
        return
    if cs == A.sc:
        M = A.mh
    elif cs == B.sc:
        M = B.mh
    else:
        M = mh_py(cs)
        if any(abs(h - M) <= 3 for h in A.mins + B.mins):
            return
    A2, B2 = A.restrict(M), B.restrict(M)
    common = sorted(set(A2.mins) & set(B2.mins))
    d = _kv(obs)
    exp_im = ",".join(map(str, common))
    if d.get("im") != exp_im or d.get("imtr") != "0":
        flag(idx, "C05:frac-intersect_mh", f"intersect_mh holds {d.get('im')} (track_abundance {d.get('imtr')}); "
                                          f"the common hashes at cmp_scaled {cs} are {exp_im}, flat")
    exp_pt = int(len(common) * cs >= int(a[4]))
    if d.get("pt") != str(exp_pt):
        flag(idx, "C05:frac-pass_threshold", f"pass_threshold {d.get('pt')}; |A∩B|*cmp_scaled = {len(common) * cs} vs threshold_bp {a[4]}")
    # abundances are taken from the ORIGINAL mh1 (not flattened, not downsampled); hashes without one count 1
    if A.tr and A.mins:
        ab = A.abund()
        exp_wi = ",".join(f"{h}:{ab.get(h, 1)}" for h in common)
        exp_tr = "1"
    else:
        exp_wi = ",".join(f"{h}:1" for h in common)
        exp_tr = "0"
    if d.get("wi") != exp_wi or d.get("witr") != exp_tr:
        flag(idx, "C05:frac-weighted_intersection", f"weighted_intersection(from_mh=mh1) = {d.get('wi')} (track {d.get('witr')}); "
                                                   f"expected the common hashes with mh1's abundances: {exp_wi} (track {exp_tr})")


def nontrivial(case, impl):
    """both sketches built, at least one non-empty, and >= 3 comparison ops answered with a value"""
    nonempty = 0
    answered = 0
    for op, obs in zip(case, impl):
        o = op.split()[0]
        if o in BUILD_OPS:
            st = parse_show(obs)
            if st is not None and st["mins"] and o in ("addmany", "setab"):
                nonempty += 1
        elif obs.startswith("ok "):
            answered += 1
    return nonempty >= 1 and answered >= 3


# --------------------------------------------------------------------------
# Rust-level twin cases (KmerMinHash AND KmerMinHashBTree through the rust-harness `twin` module)

def gen_rust_case(rng):
    """two sketches in the op syntax shared by the rust-harness `twin` module and the Lean `cmp` driver, then every
    Rust-level comparison entry point in both orders"""
    lines = []
    is_num = rng.random() < 0.25
    k, seed = 21, 42
    sca = 0 if is_num else rng.choice(SCALED_POOL)
    scb = sca
    numa = rng.choice(NUM_POOL) if is_num else 0
    numb = numa
    kb, seedb = k, seed
    r = rng.random()
    if r < 0.35 and not is_num:
        scb = rng.choice([x for x in SCALED_POOL if x != sca])
    elif r < 0.42:
        kb = 31
    elif r < 0.49:
        seedb = 43
    elif r < 0.55 and is_num:
        numb = rng.choice([n for n in NUM_POOL if n != numa])
    tra = rng.random() < 0.6
    trb = tra if rng.random() < 0.75 else (not tra)
    lines.append(f"new 0 {numa} {sca} {int(tra)} {k} {seed}")
    lines.append(f"new 1 {numb} {scb} {int(trb)} {kb} {seedb}")
    M = min(mh_py(sca) or U64, mh_py(scb) or U64)
    n = rng.choice([0, 1, 2, 3, 5, 8, 13, 30, 60])
    universe = list(range(0, 3 * n + 10)) + [M - 5, M // 2, M // 3]
    universe = [h for h in universe if 0 <= h <= M - 4 or M == U64 and 0 <= h <= U64]
    big = rng.random() < 0.05
    pool = ABUND_POOL + ([2 ** 32, 2 ** 32 - 1, 2 ** 63, 2 ** 64 - 1] if big else [])
    for h, tr in ((0, tra), (1, trb)):
        hs = rng.sample(universe, min(len(universe), rng.randint(0, n)))
        if rng.random() < 0.2 and h == 1:
            hs = []
        if tr:
            for x in hs:
                lines.append(f"addab {h} {x} {rng.choice(pool)}")
        elif hs:
            lines.append(f"addmany {h} " + " ".join(map(str, hs + hs[:2])))
    for a, b in ((0, 1), (1, 0), (0, 0), (1, 1)):
        for ia in (0, 1):
            for ds in (0, 1):
                lines.append(f"rsim {a} {b} {ia} {ds}")
        lines += [f"rjac {a} {b}", f"rang {a} {b}", f"cc {a} {b} 0", f"cc {a} {b} 1", f"isz {a} {b}"]
    return lines


def rust_norm(line):
    """one half of a twin observation -> the text the Lean `cmp` driver prints"""
    w = line.split()
    if not w:
        return line
    if w[0] == "f":
        if w[1] == "err":
            return "err"
        bits = int(w[1])
        import struct
        x = struct.unpack("<d", struct.pack("<Q", bits))[0]
        if x != x:
            return "ok nan"
        if x < 0:
            return "ok neg"
        return "ok " + fcanon(x)
    if w[0] in ("cc", "isz"):
        return "err" if w[1] == "err" else "ok " + " ".join(w[1:])
    return line

