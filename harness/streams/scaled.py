"""The `scaled` stream (C03): for a scaled value S, exercise every place where the
code converts between `scaled` and `max_hash`, and every implicit downsampling path
the MinHash API offers.  Uses the `mh` driver/adapter."""
import os
import sys

sys.path.insert(0, os.path.dirname(os.path.dirname(os.path.abspath(__file__))))
import common  # noqa: E402
from streams.mh import parse_show, post_model, mh_for_scaled, U64  # noqa: E402,F401

MODULE = "mh"
ADAPTER = "mh_impl.py"


def case_for(S, S1, rng, track=False):
    """S1 <= S.  handle 0: new(S); 1: copy; 2: pickle; 3: new(S1) + hashes; 4: 3 downsampled to S;
    5: new(S) fed the same hashes directly"""
    M = mh_for_scaled(S)
    M1 = mh_for_scaled(S1)
    hs = {0, 1, M, max(M - 1, 0), M + 1, M + 2, M // 2, M1, max(M1 - 1, 0), min(M1 + 1, U64)}
    for _ in range(4):
        hs.add(rng.randint(0, min(2 * M + 2, U64)))
    hs = sorted(h for h in hs if 0 <= h <= U64)
    rng.shuffle(hs)
    t = int(track)
    hl = " ".join(str(h) for h in hs)
    lines = [
        f"new 0 0 {S} {t} 21 42",
        "copy 1 0",
        "pickle 2 0",
        f"new 3 0 {S1} {t} 21 42",
        f"addmany 3 {hl}",
        f"addmany 3 {' '.join(str(h) for h in hs[:3])}",
        f"down 4 3 {S}",
        f"new 5 0 {S} {t} 21 42",
        f"addmany 5 {hl}",
        f"addmany 5 {' '.join(str(h) for h in hs[:3])}",
        "cc 3 5 1",
        "cc 5 3 1",
        "cc 4 5 0",
        f"down 6 4 {S}",
        "copy 7 4",
    ]
    return lines


def gen_case(rng, flavour):
    """flavour: 'low' (1..2^21 uniformly), 'flagged' (values where trunc(2^64/trunc(2^64/S)) != S),
    'high' (2^21..2^31), 'huge' (2^31..2^32)"""
    if flavour == "low":
        S = rng.randint(1, 2 ** 21)
    elif flavour == "flagged":
        while True:
            S = rng.randint(2, 2 ** 21)
            if int(2.0 ** 64 / float(mh_for_scaled(S))) != S:
                break
    elif flavour == "high":
        S = rng.randint(2 ** 21, 2 ** 31)
    else:
        S = rng.randint(2 ** 31 + 1, 2 ** 32)
    S1 = rng.choice([1, max(1, S - 1), max(1, S // 2), S, rng.randint(1, S)])
    return case_for(S, S1, rng, track=rng.random() < 0.3)


def oracle(case, impl):
    """C03 on one case.  Statement pieces checked on the implementation's own answers:
    reports S; copy/pickle keep S and the threshold; downsample(S) == built directly at S;
    downsampling twice is the same; implicit downsampling in count_common succeeds and agrees."""
    bad = []
    if len(case) != 15 or len(impl) < 15 or not case[0].startswith("new 0 0 "):
        return bad          # a shrunk / foreign case: the template oracle does not apply
    S = int(case[0].split()[3])
    S1 = int(case[3].split()[3])
    st = [parse_show(o) for o in impl]
    sig_big = S > 2 ** 31

    def flag(idx, what, msg):
        sig = "C03:scaled-above-2^31-not-representable" if sig_big else "C03:" + what
        bad.append((idx, sig, f"S={S} S1={S1}: {msg}"))

    if st[0] is None:
        flag(0, "new-refused", f"MinHash(scaled={S}) refused: {impl[0]}")
        return bad
    if st[0]["sc"] != S:
        flag(0, "reports-S", f"a sketch created with scaled={S} reports scaled={st[0]['sc']}")
    for idx, name in ((1, "copy"), (2, "pickle")):
        if st[idx] is None:
            flag(idx, name + "-refused", f"{name} of a scaled={S} sketch failed: {impl[idx]}")
        elif st[idx]["sc"] != S or st[idx]["mh"] != st[0]["mh"]:
            flag(idx, name + "-changes-scaled", f"{name} of a scaled={S} sketch has scaled={st[idx]['sc']} max_hash={st[idx]['mh']} (orig {st[0]['mh']})")
    if st[3] is None or st[5] is None or st[9] is None:
        return bad
    # downsample == direct
    if st[6] is None:
        if S1 <= S:
            flag(6, "downsample-refused", f"downsample from {S1} to {S} refused: {impl[6]}")
    else:
        direct = st[9]
        if st[6]["mins"] != direct["mins"] or st[6]["ab"] != direct["ab"] or st[6]["mh"] != direct["mh"]:
            flag(6, "downsample-ne-direct", f"downsample({S1}->{S}) gives {len(st[6]['mins'])} hashes/max_hash {st[6]['mh']}, "
                                            f"direct sketch at {S} has {len(direct['mins'])} hashes/max_hash {direct['mh']}")
        if st[6]["sc"] != S:
            flag(6, "downsample-reports", f"downsample(scaled={S}) reports scaled={st[6]['sc']}")
        # composition: downsample again to S is a no-op
        if st[13] is None:
            flag(13, "downsample-twice-refused", f"downsampling a sketch at scaled {S} to {S} refused: {impl[13]}")
        elif st[13]["mins"] != st[6]["mins"]:
            flag(13, "downsample-compose", "downsampling twice differs")
        if st[14] is None:
            flag(14, "copy-of-downsampled-refused", f"copy of downsampled sketch failed: {impl[14]}")
    # implicit downsampling in count_common
    exp_common = len(set(st[9]["mins"]) & set(x for x in st[5]["mins"] if x <= st[9]["mh"]))
    for idx in (10, 11):
        if not impl[idx].startswith("ok "):
            flag(idx, "implicit-downsample-refused", f"count_common(downsample=True) between scaled {S1} and {S}: {impl[idx]}")
        elif int(impl[idx].split()[1]) != exp_common:
            flag(idx, "implicit-ne-explicit", f"count_common(downsample=True)={impl[idx].split()[1]} but explicit gives {exp_common}")
    if st[6] is not None and impl[12].startswith("ok ") and int(impl[12].split()[1]) != exp_common:
        flag(12, "explicit-count", f"count_common after explicit downsample = {impl[12]} expected {exp_common}")
    if st[6] is not None and not impl[12].startswith("ok "):
        flag(12, "explicit-compare-refused", f"comparing downsample({S1}->{S}) with a sketch built at {S}: {impl[12]}")
    return bad


def nontrivial(case, impl):
    st = parse_show(impl[6]) if len(impl) > 6 else None
    return st is not None and len(st["mins"]) >= 2
