"""The `twin` correspondence stream (C14): histories applied to a KmerMinHash AND a
KmerMinHashBTree held under the same handle (Rust harness, module `twin`); every observation is
`<vec> | <btree>`.  Model twin (lean DriverTwin) vs real twin, and the property's own reading as
oracle: the two halves of every real observation must be equal."""
import os
import re
import sys

sys.path.insert(0, os.path.dirname(os.path.dirname(os.path.abspath(__file__))))
import common  # noqa: E402

U64 = 2 ** 64 - 1
MODULE = "twin"
ADAPTER = "twin_impl.py"

# scaled values whose threshold survives the scaled() detour of the From conversions (<= 2^31)
SCALED_POOL = [1, 2, 3, 7, 10, 93, 99, 100, 186, 1000, 5000, 12345, 2 ** 20, 2 ** 31]
NUM_POOL = [1, 2, 3, 5, 20]
ABUND_POS = [1, 1, 1, 2, 3, 5, 7, 2 ** 32, 2 ** 40]


def mh_for_scaled(s):
    if s == 0:
        return 0
    if s == 1:
        return U64
    return int(2.0 ** 64 / float(s))


def gen_case(rng, flavour):
    """flavour 'excl': every operation in every order (abundance 0, adds after merge / From /
    Deserialize on num sketches included -- the former D14 classes) on sketches that are num or
    scaled, not both: the twins must agree everywhere; 'any': the same, and (in ~1/4 of the cases)
    sketches that are both num and scaled (known finding D14e)"""
    safe = flavour == "excl"
    lines = []
    is_num = rng.random() < 0.45
    scaled = 0 if is_num else rng.choice(SCALED_POOL)
    num = rng.choice(NUM_POOL) if is_num else 0
    both = (not safe) and rng.random() < 0.25
    if both:
        num, scaled = rng.choice(NUM_POOL), rng.choice([1, 2, 1000])
    M = mh_for_scaled(scaled)
    track0 = rng.random() < 0.5
    pool = set()
    cands = [0, 1, 2 ** 63 - 1, 2 ** 63, U64, U64 - 1]
    if scaled:
        cands += [M, M - 1, M + 1, M // 2, M + 2]
    n_pool = rng.randint(2, 12)
    while len(pool) < n_pool:
        r = rng.random()
        if r < 0.3:
            v = rng.choice(cands)
        elif r < 0.75 and scaled:
            v = rng.randint(0, max(M, 1))
        elif r < 0.9:
            v = rng.randint(0, 60)
        else:
            v = rng.randint(0, U64)
        if 0 <= v <= U64:
            pool.add(v)
    pool = sorted(pool)
    nh = rng.randint(2, 4)
    stale = {}
    for h in range(nh):
        tr = track0 if rng.random() < 0.8 else (not track0)
        sc, nm = scaled, num
        if rng.random() < 0.06 and not both:
            if is_num:
                nm = rng.choice(NUM_POOL)
            else:
                sc = rng.choice(SCALED_POOL)
        lines.append(f"new {h} {nm} {sc} {int(tr)} {rng.choice([21, 21, 31, 5])} {rng.choice([42, 42, 1])}")
        stale[h] = False
    hv = lambda: rng.choice(pool)
    hd = lambda: rng.randrange(nh)
    ab = lambda: rng.choice(ABUND_POS) if rng.random() < 0.8 else 0
    nops = rng.randint(1, 50)
    for _ in range(nops):
        r = rng.random()
        h = hd()
        can_add = True
        if r < 0.20:
            if can_add:
                lines.append(f"add {h} {hv()}")
        elif r < 0.32:
            if can_add:
                lines.append(f"addab {h} {hv()} {ab()}")
        elif r < 0.40:
            if can_add:
                lines.append(f"addmany {h} " + " ".join(str(hv()) for _ in range(rng.randint(0, 6))))
        elif r < 0.46:
            if can_add:
                lines.append(f"addmanyab {h} " + " ".join(f"{hv()}:{ab()}" for _ in range(rng.randint(0, 5))))
        elif r < 0.51:
            if can_add:
                lines.append(f"addfrom {h} {hd()}")
        elif r < 0.59:
            lines.append(f"rm {h} " + " ".join(str(hv()) for _ in range(rng.randint(1, 3))))
        elif r < 0.63:
            lines.append(f"clear {h}")
            stale[h] = False
        elif r < 0.75:
            lines.append(f"merge {h} {hd()}")
            stale[h] = True
        elif r < 0.79:
            lines.append(f"convbt {h}")
            stale[h] = True
        elif r < 0.82:
            lines.append(f"convvec {h}")
        elif r < 0.86:
            lines.append(f"json {h}")
            stale[h] = True
        elif r < 0.89:
            lines.append(rng.choice(["tovec", "tobt", "md5"]) + f" {h}")
        elif r < 0.93:
            g = hd()
            res = rng.randrange(nh, nh + 3)
            lines.append(f"down {res} {g} {rng.choice([scaled, scaled + 1, scaled * 2, scaled * 3 + 1, 2 ** 20])}")
            stale[res] = stale.get(g, False)
        elif r < 0.955:
            lines.append(f"cc {h} {hd()} {rng.randint(0, 1)}")
        elif r < 0.97:
            lines.append(f"isz {h} {hd()}")
        elif r < 0.98:
            lines.append(rng.choice(["enab", "disab"]) + f" {h}")
        elif r < 0.99:
            lines.append(f"sethf {h} {rng.randint(1, 4)}")
        else:
            res = rng.randrange(nh, nh + 3)
            g = hd()
            mx = rng.choice([M, M // 2, M // 3 + 1, mh_for_scaled(scaled * 2), mh_for_scaled(max(scaled, 1) - 1),
                             rng.randint(1, U64), 0, 93]) if scaled else rng.choice([0, 1000, U64])
            lines.append(f"downmh {res} {g} {mx}")
            stale[res] = stale.get(g, False)
    return lines


_MD5PRE = re.compile(r"md5=(\d+):([\d,]*)")


def post_model(lines):
    """the model prints md5 pre-images (ksize:mins); apply md5"""
    def rep(m):
        mins = [int(x) for x in m.group(2).split(",")] if m.group(2) else []
        return "md5=" + common.md5_of_pre(int(m.group(1)), mins)
    return [_MD5PRE.sub(rep, l) for l in lines]


def parse_half(s):
    """'ok num=.. mh=.. tr=.. mins=.. ab=.. md5=..' -> dict or None"""
    s = s.strip()
    if not s.startswith("ok num="):
        return None
    d = {}
    for p in s.split(" ")[1:]:
        k, _, v = p.partition("=")
        d[k] = v
    return d


ADD_OPS = ("add", "addab", "addmany", "addmanyab", "addfrom")


def oracle(case, impl):
    """C14's own reading: the array-backed and the tree-backed sketch agree after every operation.
    Only the first divergence of a history is reported (afterwards the twins are different objects);
    it is classified by the history that led to it."""
    info = {}          # handle -> dict(num, mh, stale)
    for idx, (op, obs) in enumerate(zip(case, impl)):
        w = op.split()
        if not w or obs in ("bad-op", "#"):
            continue
        o = w[0]
        halves = obs.split(" | ")
        if obs.startswith("err vec="):
            m = re.match(r"err vec=(\d) bt=(\d)", obs)
            if m and m.group(1) != m.group(2):
                return [(idx, f"C14:twin:{o}:error-mismatch", f"`{op}`: one twin refused, the other did not: {obs}")]
            continue
        if len(halves) != 2:
            continue
        a, b = halves[0].strip(), halves[1].strip()
        try:
            h = int(w[1])
        except (IndexError, ValueError):
            continue
        da = parse_half(a)
        if o == "new" and da:
            info[h] = {"num": int(da["num"]), "mh": int(da["mh"]), "stale": None}
        elif o in ("down", "downmh") and da:
            src = info.get(int(w[2]), {})
            info[h] = {"num": int(da["num"]), "mh": int(da["mh"]), "stale": src.get("stale")}
        me = info.get(h, {"num": 0, "mh": 0, "stale": None})
        if a != b:
            operands = [me]
            if o in ("merge", "addfrom", "cc", "isz") and len(w) > 2:
                operands.append(info.get(int(w[2]), me))
            if o in ("down", "downmh"):
                operands.append(info.get(int(w[2]), me))
            zero = (o == "addab" and w[3] == "0") or (o == "addmanyab" and any(t.endswith(":0") for t in w[2:]))
            if any(x["num"] != 0 and x["mh"] != 0 for x in operands):
                sig = "C14:twin:num-and-scaled"
            elif zero:
                sig = "C14:twin:abundance-zero"
            elif o in ADD_OPS and me["num"] != 0 and me["stale"]:
                sig = "C14:twin:stale-current-max:" + me["stale"]
            else:
                sig = "C14:twin:" + o
            return [(idx, sig, f"after `{op}` the array-backed sketch is [{a[:160]}] but the tree-backed one is [{b[:160]}]"
                               f" (history: {[c.split()[0] for c in case[max(0, idx - 6):idx]]})")]
        if o == "clear":
            me["stale"] = None
        elif o == "merge":
            me["stale"] = me["stale"] or "merge"
        elif o == "convbt":
            me["stale"] = "from-vec"
        elif o == "json" and da and da.get("ab") == "-":
            me["stale"] = "deserialize-flat"
        elif o == "json":
            me["stale"] = None
    return []


def nontrivial(case, impl):
    """at least 3 ops changed the observed state of some handle and both twins were observed"""
    changes = 0
    last = {}
    for op, obs in zip(case, impl):
        w = op.split()
        if " | " in obs and obs.startswith("ok num=") and len(w) > 1 and last.get(w[1]) != obs:
            changes += 1
            last[w[1]] = obs
    return changes >= 3
